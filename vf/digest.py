"""Deep state walking: digests, approximate state comparison, buffer graphs, exact sharing queries."""
import hashlib
from collections import OrderedDict
from functools import partial
from pathlib import PurePath

import numpy as np
import scipy.sparse as sp

# attributes that are caches / bookkeeping, never part of observable state
DEFAULT_SKIP = frozenset(["_iab", "_applied_points", "path", "_cache"])


def leaves(obj, skip=DEFAULT_SKIP, _path="", _memo=None, _out=None):
    """Flatten an object graph to a list of (path, leaf); leaf is an ndarray or a primitive token."""
    if _out is None:
        _out, _memo = [], {}
    oid = id(obj)
    if isinstance(obj, np.ndarray):
        _out.append((_path, obj))
        return _out
    if obj is None or isinstance(obj, (bool, int, float, complex, str, bytes, np.generic)):
        _out.append((_path, ("v", type(obj).__name__, obj)))
        return _out
    if oid in _memo:
        _out.append((_path, ("ref", _memo[oid])))
        return _out
    _memo[oid] = _path
    if sp.issparse(obj):
        m = obj.tocsr().copy()
        m.sum_duplicates()
        m.sort_indices()
        _out.append((_path + ".shape", ("v", "shape", tuple(m.shape))))
        _out.append((_path + ".data", m.data))
        _out.append((_path + ".indices", np.asarray(m.indices, dtype=np.int64)))
        _out.append((_path + ".indptr", np.asarray(m.indptr, dtype=np.int64)))
        return _out
    if isinstance(obj, (dict, OrderedDict)):
        _out.append((_path + ".keys", ("v", "keys", tuple(str(k) for k in obj.keys()))))
        for k, v in obj.items():
            leaves(v, skip, "%s[%r]" % (_path, k), _memo, _out)
        return _out
    if isinstance(obj, (list, tuple)):
        _out.append((_path + ".len", ("v", type(obj).__name__, len(obj))))
        for i, v in enumerate(obj):
            leaves(v, skip, "%s[%d]" % (_path, i), _memo, _out)
        return _out
    if isinstance(obj, (set, frozenset)):
        _out.append((_path, ("v", "set", tuple(sorted(map(str, obj))))))
        return _out
    if isinstance(obj, PurePath):
        _out.append((_path, ("v", "path", str(obj))))
        return _out
    if isinstance(obj, partial):
        _out.append((_path + ".partial", ("v", "fn", getattr(obj.func, "__qualname__", str(obj.func)))))
        leaves(obj.args, skip, _path + ".args", _memo, _out)
        leaves(obj.keywords, skip, _path + ".kw", _memo, _out)
        return _out
    if callable(obj) and not hasattr(obj, "__dict__"):
        _out.append((_path, ("v", "callable", getattr(obj, "__qualname__", type(obj).__name__))))
        return _out
    if isinstance(obj, type) or type(obj).__name__ in ("function", "builtin_function_or_method", "method"):
        _out.append((_path, ("v", "callable", getattr(obj, "__qualname__", str(obj)))))
        return _out
    d = getattr(obj, "__dict__", None)
    if d is None:
        _out.append((_path, ("v", "opaque", type(obj).__name__)))
        return _out
    _out.append((_path + ".class", ("v", "class", type(obj).__module__ + "." + type(obj).__qualname__)))
    for k in sorted(d.keys()):
        if k in skip:
            continue
        v = d[k]
        if k == "_landmarks" and (v is None or (hasattr(v, "_landmark_groups") and len(v._landmark_groups) == 0)):
            # a lazily created empty manager is observably the same as "no landmarks yet"
            _out.append((_path + "._landmarks", ("v", "nolandmarks", 0)))
            continue
        leaves(v, skip, _path + "." + k, _memo, _out)
    return _out


def digest(obj, skip=DEFAULT_SKIP):
    """Hex digest of the complete reachable state (array bytes, dtypes, shapes, structure)."""
    h = hashlib.sha1()
    for path, leaf in leaves(obj, skip):
        h.update(path.encode())
        if isinstance(leaf, np.ndarray):
            h.update(str(leaf.dtype).encode())
            h.update(str(leaf.shape).encode())
            if leaf.dtype == object:
                h.update(repr(leaf.tolist()).encode())
            else:
                h.update(np.ascontiguousarray(leaf).tobytes())
        else:
            h.update(repr(leaf).encode())
    return h.hexdigest()


def diff(a, b, skip=DEFAULT_SKIP, rtol=0.0, atol=0.0, check_dtype=True):
    """First difference between two object graphs (None if equal within tolerance)."""
    la, lb = leaves(a, skip), leaves(b, skip)
    if len(la) != len(lb):
        pa, pb = [p for p, _ in la], [p for p, _ in lb]
        only = [p for p in pa if p not in set(pb)][:3] + [p for p in pb if p not in set(pa)][:3]
        return "structure differs (%d vs %d leaves) e.g. %s" % (len(la), len(lb), only)
    for (pa, xa), (pb, xb) in zip(la, lb):
        if pa != pb:
            return "structure differs at %s vs %s" % (pa, pb)
        if isinstance(xa, np.ndarray) != isinstance(xb, np.ndarray):
            return "kind differs at %s" % pa
        if isinstance(xa, np.ndarray):
            if xa.shape != xb.shape:
                return "shape differs at %s: %s vs %s" % (pa, xa.shape, xb.shape)
            if check_dtype and xa.dtype != xb.dtype:
                return "dtype differs at %s: %s vs %s" % (pa, xa.dtype, xb.dtype)
            if xa.dtype == object or xb.dtype == object:
                if repr(xa.tolist()) != repr(xb.tolist()):
                    return "object array differs at %s" % pa
                continue
            if rtol == 0.0 and atol == 0.0:
                ok = np.array_equal(xa, xb, equal_nan=True) if xa.dtype.kind in "fc" else np.array_equal(xa, xb)
            else:
                ok = np.allclose(xa, xb, rtol=rtol, atol=atol, equal_nan=True)
            if not ok:
                with np.errstate(all="ignore"):
                    e = np.nanmax(np.abs(xa.astype(float) - xb.astype(float))) if xa.size else 0.0
                return "values differ at %s (max abs diff %.3g)" % (pa, e)
        else:
            if xa != xb and not (_isnan(xa) and _isnan(xb)):
                if (rtol or atol) and _num(xa) and _num(xb) and np.isclose(xa[2], xb[2], rtol=rtol, atol=atol):
                    continue
                return "value differs at %s: %r vs %r" % (pa, xa, xb)
    return None


def _num(t):
    return isinstance(t, tuple) and len(t) == 3 and isinstance(t[2], (int, float, np.generic)) and not isinstance(t[2], bool)


def _isnan(t):
    try:
        return _num(t) and t[2] != t[2]
    except Exception:
        return False


def buffers(obj, skip=DEFAULT_SKIP):
    """Every ndarray reachable from obj (sparse matrices contribute data/indices/indptr of the LIVE object)."""
    out, memo = [], set()

    def walk(o, path):
        if isinstance(o, np.ndarray):
            out.append((path, o))
            return
        if o is None or isinstance(o, (bool, int, float, complex, str, bytes, np.generic, type)):
            return
        if id(o) in memo:
            return
        memo.add(id(o))
        if sp.issparse(o):
            for k in ("data", "indices", "indptr", "row", "col"):
                v = getattr(o, k, None)
                if isinstance(v, np.ndarray):
                    out.append((path + "." + k, v))
            return
        if isinstance(o, dict):
            for k, v in o.items():
                walk(v, "%s[%r]" % (path, k))
            return
        if isinstance(o, (list, tuple)):
            for i, v in enumerate(o):
                walk(v, "%s[%d]" % (path, i))
            return
        if isinstance(o, partial):
            walk(o.args, path + ".args")
            walk(o.keywords, path + ".kw")
            return
        d = getattr(o, "__dict__", None)
        if d is None or callable(o) and type(o).__name__ == "function":
            return
        for k, v in d.items():
            if k in skip:
                continue
            walk(v, path + "." + k)

    walk(obj, "")
    return out


def shared(a, b, skip=DEFAULT_SKIP, allow=()):
    """Pairs of buffer paths of a and b that share memory, minus those whose path in `a` starts with an allowed prefix."""
    ba, bb = buffers(a, skip), buffers(b, skip)
    hits = []
    for pa, xa in ba:
        if xa.size == 0:
            continue
        if any(pa.startswith(p) for p in allow):
            continue
        for pb, xb in bb:
            if xb.size == 0:
                continue
            if np.shares_memory(xa, xb):
                hits.append((pa, pb))
    return hits


def writeable_flags(obj, skip=DEFAULT_SKIP):
    return [(p, bool(x.flags.writeable)) for p, x in buffers(obj, skip)]
