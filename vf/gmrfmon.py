"""Shared monitor for the Gaussian Markov random field model (C11, C12): shadow record of all data fed to a model and
comparison of its state with an independent reference assembly on that data."""
import numpy as np

from vf.tx import amax as _amax
import scipy.sparse as sp

from vf import taps

DATA = {}     # id(model) -> (model, [chunks])


def clear():
    DATA.clear()
    UNIT[0] = 1.0


def cov(X, bias):
    Xc = X - X.mean(0)
    return np.atleast_2d(Xc.T @ Xc / (X.shape[0] - 1 + (1 if bias else 0)))


UNIT = [1.0]           # the unit the current case's data are expressed in (tolerances on coordinates are relative to it)
WORST_COND = [1.0]     # largest condition number among the block covariances inverted for the current reference


def inv_cov(C, n_components):
    try:
        WORST_COND[0] = max(WORST_COND[0], float(np.linalg.cond(C)))
    except Exception:
        pass
    if n_components is None or n_components >= C.shape[0]:
        return np.linalg.inv(C)
    w, v = np.linalg.eigh((C + C.T) / 2)
    idx = np.argsort(w)[::-1][:n_components]
    return (v[:, idx] / w[idx]) @ v[:, idx].T


def reference_precision(X, graph_edges, n_vertices, k, mode, bias, n_components):
    """Independent scatter-add assembly (float64)."""
    X = np.asarray(X, dtype=np.float64)
    Q = np.zeros((n_vertices * k, n_vertices * k))
    if len(graph_edges) == 0:
        for v in range(n_vertices):
            s = slice(v * k, (v + 1) * k)
            Q[s, s] = inv_cov(cov(X[:, s], bias), n_components)
        return Q
    for v1, v2 in graph_edges:
        a, b = slice(v1 * k, (v1 + 1) * k), slice(v2 * k, (v2 + 1) * k)
        if mode == "concatenation":
            P = inv_cov(cov(np.hstack([X[:, a], X[:, b]]), bias), n_components)
            Q[a, a] += P[:k, :k]
            Q[b, b] += P[k:, k:]
            Q[a, b] += P[:k, k:]
            Q[b, a] += P[k:, :k]
        else:
            P = inv_cov(cov(X[:, a] - X[:, b], bias), n_components)
            Q[a, a] += P
            Q[b, b] += P
            Q[a, b] -= P
            Q[b, a] -= P
    return Q


def dense(Q):
    return np.asarray(Q.todense()) if sp.issparse(Q) else np.asarray(Q)


def judge_state(ctx, m, where):
    """Model state vs reference on all the data it has been fed."""
    rec = DATA.get(id(m))
    if rec is None or rec[0] is not m:
        return
    X = np.vstack(rec[1]).astype(np.float64)
    cls = type(m).__name__
    g = m.graph
    V = g.n_vertices
    k = m.n_features_per_vertex
    # "the graph joins i and j" is read off the adjacency matrix's non-zero entries (not off the object's own edge list)
    A = dense(g.adjacency_matrix) != 0
    directed = "Directed" in type(g).__name__ or "Tree" in type(g).__name__
    edges = [(i, j) for i in range(V) for j in range(V) if A[i, j] and (directed or i < j)]
    pairs = set(tuple(sorted(e)) for e in edges)
    if len(pairs) != len(edges):
        return   # antiparallel pair: outside the quantifier
    listed = set(tuple(sorted((int(a), int(b)))) for a, b in np.asarray(g.edges).reshape(-1, 2))
    if listed != pairs:
        ctx.fail("graph_edge_list_disagrees_with_its_adjacency_matrix", cls=type(g).__name__, mech="extra" if listed - pairs else "missing")
    storage = ("sparse" if m.sparse else "dense") + ":" + np.dtype(m.dtype).name
    mech = "%s:%s:%s" % (where, storage, "edgeless" if not edges else m.mode)
    try:
        Q = dense(m.precision)
    except Exception as ex:
        ctx.fail("sparse_precision_is_malformed", cls=cls, mech=mech + ":" + type(ex).__name__, error=repr(ex)[:200],
                 isolated_vertices=[int(v) for v in g.isolated_vertices()])
        return
    if m.sparse != sp.issparse(m.precision):
        ctx.fail("precision_storage_is_not_what_was_requested", cls=cls, mech=mech)
    if Q.shape != (V * k, V * k):
        ctx.fail("precision_has_the_wrong_shape", cls=cls, mech=mech)
        return
    if m.n_samples != X.shape[0]:
        ctx.fail("sample_count_not_conserved", cls=cls, mech=where, got=int(m.n_samples), fed=int(X.shape[0]))
    mean_err = float(np.abs(np.asarray(m.mean_vector, dtype=float) - X.mean(0)).max())
    scale_x = max(UNIT[0], float(np.abs(X).max()))
    if not (mean_err <= 1e-9 * scale_x):
        ctx.fail("model_mean_is_not_the_sample_mean", cls=cls, mech=mech, err=mean_err)
    WORST_COND[0] = 1.0
    R = reference_precision(X, edges, V, k, m.mode, m.bias, m.n_components)
    nrm = max(1e-300, float(np.abs(R).max()))
    # inverting a block covariance costs cond x machine-epsilon digits (seen: 1.5e-7 at cond ~ 1e8 in 64 000 thorough cases)
    tol = (min(1e-4, max(1e-7, 1e-13 * WORST_COND[0])) if np.dtype(m.dtype) == np.float64 else 2e-5) * nrm
    # data far from the origin: centring loses (offset / spread) x machine-epsilon digits before anything is inverted
    far = float(np.abs(X).max()) / max(1e-300, float(X.std(0).min()))
    if far > 1e3 and np.dtype(m.dtype) == np.float64:
        tol = max(tol, min(1e-4, 1e-14 * far * WORST_COND[0]) * nrm)
    ctx.err("worst_block_condition_number", WORST_COND[0])
    if where != "init" and np.dtype(m.dtype) == np.float32:
        tol = 5e-3 * nrm      # float32 running second moments lose digits by cancellation (6e-4 seen in 20 000 cases)
    e = float(np.abs(Q - R).max())
    ctx.err("precision_vs_reference:" + np.dtype(m.dtype).name + ":" + ("init" if where == "init" else "incremental"), e / nrm)
    if not (e <= tol):
        ctx.fail("precision_differs_from_the_sum_of_inverted_block_covariances", cls=cls, mech=mech, rel_err=e / nrm,
                 n_components=m.n_components, bias=m.bias, features_per_vertex=k, n_vertices=V)
    if _amax(Q - Q.T) > tol:
        ctx.fail("precision_is_not_symmetric", cls=cls, mech=mech)
    w = np.linalg.eigvalsh((Q + Q.T) / 2.0)
    if w.min() < -max(tol, 1e-8 * nrm) * V * k:
        ctx.fail("precision_is_not_positive_semi_definite", cls=cls, mech=mech, min_eig=float(w.min()))
    for i in range(V):
        for j in range(V):
            if i != j and tuple(sorted((i, j))) not in pairs:
                blk = Q[i * k:(i + 1) * k, j * k:(j + 1) * k]
                if _amax(blk) > 0:
                    ctx.fail("precision_couples_vertices_the_graph_does_not_join", cls=cls, mech=mech, pair=[i, j])
                    return


class InitMonitor(taps.Monitor):
    name = "GMRF.__init__"

    def pre(self, ctx, args, kw):
        samples = args[1] if len(args) > 1 else kw.get("samples")
        try:
            X = np.array(samples, dtype=np.float64, copy=True)
        except Exception:
            return None
        if X.ndim != 2 or not np.isfinite(X).all():
            return None
        return {"X": X}

    def post(self, ctx, st, args, kw, r, exc):
        m = args[0]
        if exc is not None:
            ctx.fail("gmrf_construction_raised", cls=type(m).__name__, mech=type(exc).__name__, error=repr(exc)[:200])
            return
        X = st["X"][: m.n_samples]
        DATA[id(m)] = (m, [X])
        judge_state(ctx, m, "init")


class IncrementMonitor(taps.Monitor):
    name = "GMRF._increment"

    def pre(self, ctx, args, kw):
        m = args[0]
        if id(m) not in DATA:
            return None
        data = args[1] if len(args) > 1 else kw.get("data")
        return {"chunk": np.array(data, dtype=np.float64, copy=True), "n": m.n_samples}

    def post(self, ctx, st, args, kw, r, exc):
        m = args[0]
        if exc is not None:
            ctx.fail("gmrf_increment_raised", cls=type(m).__name__, mech=type(exc).__name__, error=repr(exc)[:200])
            return
        DATA[id(m)][1].append(st["chunk"])
        if m.n_samples != st["n"] + len(st["chunk"]):
            ctx.fail("sample_count_not_conserved", cls=type(m).__name__, mech="increment", before=int(st["n"]), chunk=int(len(st["chunk"])),
                     after=int(m.n_samples))
        ctx.see("gmrf_chunk_sizes", int(len(st["chunk"])))
        judge_state(ctx, m, "increment%d" % min(3, len(DATA[id(m)][1]) - 1))


def install(ctx, with_object_model=True):
    G = taps.mod("menpo.model.gmrf")
    taps.tap(ctx, G.GMRFVectorModel, "__init__", InitMonitor())
    taps.tap(ctx, G.GMRFVectorModel, "_increment", IncrementMonitor())


def make_graph(rng, V, kind):
    """(graph, kind) - edgeless / chain / cycle / tree / random undirected / directed without antiparallel pairs."""
    import menpo.shape as ms
    from vf import gen
    if kind == "edgeless":
        return ms.UndirectedGraph(np.zeros((V, V), dtype=int))
    if kind == "chain":
        e = [(i, i + 1) for i in range(V - 1)]
    elif kind == "cycle":
        e = [(i, (i + 1) % V) for i in range(V)] if V >= 3 else [(0, 1)]
    elif kind == "tree":
        te, root = gen.random_tree_edges(rng, V)
        return ms.Tree(gen.adjacency(V, te, False), root)
    elif kind == "directed":
        und = gen.random_undirected_edges(rng, V, p=0.4) or [(0, 1)]
        e = [(a, b) if rng.random() < 0.5 else (b, a) for a, b in und]
        e = [e[j] for j in rng.permutation(len(e))]
        return ms.DirectedGraph(gen.adjacency(V, e, False))
    elif kind == "stored_zeros":
        # a sparse adjacency matrix that stores some zeros explicitly (an edge removed by A[i, j] = 0, a zero weight): not edges
        e = gen.random_undirected_edges(rng, V, p=0.4) or [(0, V - 1)]
        non = [(i, j) for i in range(V) for j in range(i + 1, V) if (i, j) not in e]
        ghosts = [non[j] for j in rng.permutation(len(non))[: int(rng.integers(1, 3))]] if non else []
        rows = [a for a, b in e] + [b for a, b in e] + [a for a, b in ghosts] + [b for a, b in ghosts]
        cols = [b for a, b in e] + [a for a, b in e] + [b for a, b in ghosts] + [a for a, b in ghosts]
        data = [1] * (2 * len(e)) + [0] * (2 * len(ghosts))
        import scipy.sparse as sps
        if rng.random() < 0.5:
            # ... also in a directed graph / tree-free digraph that adopts the caller's matrix (copy=False)
            de = [(a, b) if rng.random() < 0.5 else (b, a) for a, b in e]
            dg = [(a, b) if rng.random() < 0.5 else (b, a) for a, b in ghosts]
            A_ = sps.csr_matrix((np.array([1] * len(de) + [0] * len(dg)), (np.array([a for a, b in de + dg]), np.array([b for a, b in de + dg]))), shape=(V, V))
            return ms.DirectedGraph(A_, copy=bool(rng.random() < 0.4))
        return ms.UndirectedGraph(sps.csr_matrix((np.array(data), (np.array(rows), np.array(cols))), shape=(V, V)))
    else:  # random undirected, possibly with isolated vertices, edges in arbitrary order
        e = gen.random_undirected_edges(rng, V, p=0.35) or [(0, V - 1)]
    e = [e[j] for j in rng.permutation(len(e))]
    return ms.UndirectedGraph(gen.adjacency(V, e, True))


def make_data(rng, n, V, k):
    d = V * k
    A = np.eye(d) + rng.normal(scale=0.35, size=(d, d))
    return rng.normal(size=(n, d)) @ A + rng.normal(size=d) * 2
