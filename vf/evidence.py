"""Writes evidence/<id>.json (validated against the schema when jsonschema is importable)."""
import json, os

VERIF = os.path.dirname(os.path.dirname(os.path.abspath(__file__)))


def write(pid, tier, seed, mod, m, wall, known, new, inconclusive):
    cov = {
        "evaluations": int(m["evaluations"]),
        "distinct_nontrivial": int(len(m["descriptors"])),
        "trivial_cases": int(m["trivial"]),
        "rule": mod.RULE,
        "samples": m["samples"][:8] or [{"note": "no sample recorded"}],
        "monitor": m["taps"],
        "seen": {k: sorted(v)[:120] for k, v in m["seen"].items()},
        "seen_counts": {k: len(v) for k, v in m["seen"].items()},
        "max_error_observed": m["maxerr"],
        "counters": m["counters"],
        "shards": m.get("nshards"),
        "monitor_notes": sorted(set(n[:200] for n in m["notes"]))[:10],
        "known_findings_hit": [{"what": e["what"], "count": v["count"]} for e, v in known],
        "verdict": "violated" if new else ("inconclusive" if inconclusive else "held on everything observed"),
        "inconclusive_reasons": inconclusive,
        "workloads": [{"name": w.name, "cases": w.n(tier), "exhaustive": bool(w.exhaustive)} for w in mod.WORKLOADS],
    }
    ex = [w for w in mod.WORKLOADS if w.exhaustive]
    if ex:
        cov["exhaustive_subspaces"] = [w.name for w in ex]
    ev = {
        "property_id": pid, "tier": tier, "seed": int(seed), "level": "exploration", "coverage": cov,
        "assumptions": list(getattr(mod, "ASSUMPTIONS", [])), "wall_s": round(float(wall), 2),
        "violations": int(len(new)),
    }
    path = os.path.join(VERIF, "evidence", pid + ".json")
    os.makedirs(os.path.dirname(path), exist_ok=True)
    try:
        import jsonschema
        schema = json.load(open("/root/.vp/EVIDENCE.schema.json"))
        jsonschema.validate(ev, schema)
    except ImportError:
        pass
    except FileNotFoundError:
        pass
    with open(path, "w") as f:
        json.dump(ev, f, indent=1, sort_keys=True, default=str)
    return path
