"""Independent reference evaluation of the map a transform object stands for, computed from its public parameters only
(h_matrix; dims; source/target/trilist; source/target/kernel class), never through the object's own apply path.

reference_apply(t, pts) -> None (class without a reference / parameters out of the reference's domain) or
                           (values, judged) with judged a boolean mask over the points the reference is sure about.
"""
import numpy as np

from vf import taps


def _homog(h, pts):
    h = np.asarray(h, dtype=float)
    din, dout = h.shape[1] - 1, h.shape[0] - 1          # (n_dims_output + 1) x (n_dims + 1): not necessarily square
    if pts.shape[1] != din:
        return None
    hp = np.hstack([np.asarray(pts, dtype=float), np.ones((len(pts), 1))]) @ h.T
    w = hp[:, dout]
    ok = np.abs(w) > 1e-9
    out = np.zeros((len(pts), dout))
    out[ok] = hp[ok, :dout] / w[ok, None]
    return out, ok


def rbf_values(kernel, x, c):
    name = type(kernel).__name__
    x, c = np.asarray(x, dtype=float), np.asarray(c, dtype=float)
    r2 = ((x[:, None, :] - c[None, :, :]) ** 2).sum(-1)
    with np.errstate(divide="ignore", invalid="ignore"):
        if name == "R2LogR2RBF":
            u = r2 * np.log(r2)
        elif name == "R2LogRRBF":
            u = r2 * 0.5 * np.log(r2)
        else:
            return None
    u[r2 == 0] = 0.0
    return u


def tps_system(src, kernel):
    n = len(src)
    k = rbf_values(kernel, src, src)
    if k is None:
        return None
    p = np.hstack([np.ones((n, 1)), src])
    return np.vstack([np.hstack([k, p]), np.hstack([p.T, np.zeros((3, 3))])])


def _tps(t, pts):
    src = np.asarray(t.source.points, dtype=float)
    tgt = np.asarray(t.target.points, dtype=float)
    if src.shape != tgt.shape or src.shape[1] != 2 or pts.shape[1] != 2:
        return None
    L = tps_system(src, t.kernel)
    if L is None:
        return None
    msv = float(t.min_singular_val)
    u, s, vt = np.linalg.svd(L)
    if ((s > msv / 3.0) & (s < msv * 3.0)).any():
        return None          # a singular value at the documented cut-off: the rule is ill-posed there
    keep = s >= msv
    inv = (vt[keep].T / s[keep]) @ u[:, keep].T
    coef = inv @ np.vstack([tgt, np.zeros((3, 2))])
    kd = rbf_values(t.kernel, pts, src)
    out = kd @ coef[:-3] + coef[-3] + np.asarray(pts, dtype=float) @ coef[-2:]
    return out, np.ones(len(pts), dtype=bool)


def barycentric(src, tl, pts):
    """(n_pts, n_tris, 3) weights."""
    a, b, c = src[tl[:, 0]], src[tl[:, 1]], src[tl[:, 2]]
    v0, v1 = b - a, c - a
    det = v0[:, 0] * v1[:, 1] - v0[:, 1] * v1[:, 0]
    rel = pts[:, None, :] - a[None, :, :]
    with np.errstate(divide="ignore", invalid="ignore"):
        s = (rel[..., 0] * v1[None, :, 1] - rel[..., 1] * v1[None, :, 0]) / det[None, :]
        u = (v0[None, :, 0] * rel[..., 1] - v0[None, :, 1] * rel[..., 0]) / det[None, :]
    w = np.stack([1 - s - u, s, u], axis=-1)
    w[:, det == 0, :] = -np.inf
    return w


def pwa_status(src, tl, pts, eps=1e-9):
    """values-independent classification: 1 inside (clearly), 0 on an edge/vertex or the hull (within eps), -1 outside (clearly)."""
    w = barycentric(np.asarray(src, dtype=float), np.asarray(tl), np.asarray(pts, dtype=float))
    m = np.nan_to_num(w.min(-1), nan=-np.inf, neginf=-1e300)       # (n_pts, n_tris)
    best = m.max(1)
    status = np.where(best > eps, 1, np.where(best < -eps, -1, 0))
    return status, m.argmax(1), w


def _pwa(t, pts):
    src = np.asarray(t.source.points, dtype=float)
    tgt = np.asarray(t.target.points, dtype=float)
    tl = np.asarray(t.trilist)
    given = getattr(t, "_vf_given_trilist", None)       # set by the generator: the triangle list of the source as it was handed over
    if given is not None and (not len(given) or int(np.max(given)) < len(src)):
        tl = np.asarray(given)
    if src.shape[1] != 2 or pts.shape[1] != 2 or len(tgt) < len(src) or len(pts) * len(tl) > 4_000_000:
        return None
    status, best, w = pwa_status(src, tl, pts)
    wb = w[np.arange(len(pts)), best]                   # (n_pts, 3)
    wb = np.where(np.isfinite(wb), wb, 0.0)
    out = (wb[:, :, None] * tgt[tl[best]]).sum(1)
    # (inside a sliver - a triangle thousands of times longer than wide - barycentric weights carry few digits, in the
    # library's arithmetic as in this one: such points are not judged)
    a_, b_, c_ = src[tl[:, 0]], src[tl[:, 1]], src[tl[:, 2]]
    det_ = np.abs((b_ - a_)[:, 0] * (c_ - a_)[:, 1] - (b_ - a_)[:, 1] * (c_ - a_)[:, 0])
    long_ = np.maximum(np.maximum(((b_ - a_) ** 2).sum(1), ((c_ - a_) ** 2).sum(1)), ((c_ - b_) ** 2).sum(1))
    quality = det_ / np.maximum(long_, 1e-300)
    return out, (status >= 0) & (quality[best] > 1e-3)


def reference_apply(t, pts):
    import menpo.transform as mt
    from menpo.transform.piecewiseaffine.base import AbstractPWA
    from menpo.transform import rbf
    if not taps.is_menpo(t):
        return None
    pts = np.asarray(pts)
    if pts.ndim != 2 or pts.dtype.kind not in "fiu":
        return None
    try:
        if isinstance(t, mt.Homogeneous):
            from vf import tx
            if tx.honest(t):
                return None
            return _homog(t.h_matrix, pts)
        if isinstance(t, mt.WithDims):
            return np.asarray(pts, dtype=float)[:, t.dims].reshape(len(pts), -1), np.ones(len(pts), dtype=bool)
        if isinstance(t, mt.TransformChain):
            cur, ok = np.asarray(pts, dtype=float), np.ones(len(pts), dtype=bool)
            for m in t.transforms:
                r = reference_apply(m, cur)
                if r is None:
                    return None
                cur, k = r
                ok &= k
            return cur, ok
        if isinstance(t, mt.ThinPlateSplines):
            return _tps(t, pts)
        if isinstance(t, AbstractPWA):
            return _pwa(t, pts)
        if isinstance(t, rbf.RadialBasisFunction):
            u = rbf_values(t, pts, t.c)
            return None if u is None else (u, np.ones(len(pts), dtype=bool))
    except Exception:
        return None
    return None
