"""Known-findings classifier.  Reads /verif/known_findings.json, never writes it.

An entry {"status": "known", "property": "C14", "match": {"clause": ..., "mech": ..., "cls": ...}, "what": ...}
matches a violation whose mechanism-level signature agrees on every key present in "match"
("cls"/"mech" may be omitted = any).  "fixed" entries are documentation only and suppress nothing.
Signatures never contain random values or case indices, so a different violation of the same
property (other clause, other mechanism) is still reported.
"""
import json, os

PATH = os.path.join(os.path.dirname(os.path.dirname(os.path.abspath(__file__))), "known_findings.json")


def load():
    try:
        return json.load(open(PATH))["findings"]
    except FileNotFoundError:
        return []


def classify(pid, violations):
    entries = [e for e in load() if e.get("status") == "known" and e.get("property") == pid]
    known, new = [], []
    for sig, v in sorted(violations.items()):
        w = v["witness"]
        hit = None
        for e in entries:
            if all(str(w.get(k, "")) == str(val) for k, val in e["match"].items()):
                hit = e
                break
        if hit is not None:
            known.append((hit, v))
        else:
            new.append(v)
    return known, new
