"""Read-only warm-up: before an operation under test, let the object answer every query it offers.

Whatever an object memoises while answering a query (cached aligned sources, cached "all true" flags, cached normals,
bound-method caches, ...) must not change what a later operation does.  Only argument-less *queries* are called (a
whitelist of read-only names); exceptions are swallowed (a class may not support a query in some dimension).
"""
QUERIES = (
    # shapes / graphs / meshes
    "n_points", "n_dims", "n_parameters", "has_landmarks", "bounds", "centre", "centre_of_bounds", "range", "norm", "as_vector", "n_landmark_groups",
    "n_tris", "tri_areas", "mean_tri_area", "tri_normals", "vertex_normals", "boundary_tri_index", "edge_lengths", "mean_edge_length",
    "edge_vectors", "edge_indices", "unique_edge_indices", "unique_edge_vectors", "unique_edge_lengths", "n_edges", "edges", "n_vertices",
    "has_cycles", "is_tree", "isolated_vertices", "has_isolated_vertices", "get_adjacency_list", "leaves", "n_leaves", "maximum_depth", "labels", "n_labels",
    # transforms
    "h_matrix", "n_dims_output", "has_true_inverse", "linear_component", "translation_component", "aligned_source", "alignment_error",
    "source", "target", "composes_inplace_with", "composes_with", "rotation_matrix", "scale", "axis_and_angle_of_rotation", "decompose", "h_matrix_is_mutable",
    "n_transforms", "allow_mirror", "rotation",
    # images
    "shape", "width", "height", "n_pixels", "n_elements", "n_channels", "diagonal", "indices", "n_true", "n_false", "all_true", "proportion_true",
    "proportion_false", "true_indices", "false_indices", "bounds_true", "bounds_false", "masked_pixels", "n_true_pixels", "n_false_pixels", "n_true_elements",
    "n_false_elements", "as_masked", "as_unmasked", "as_greyscale",
    # models
    "n_components", "n_active_components", "eigenvalues", "components", "mean", "variance", "variance_ratio", "eigenvalues_ratio",
    "eigenvalues_cumulative_ratio", "noise_variance", "noise_variance_ratio", "original_variance", "whitened_components", "n_features", "n_samples",
    "mean_vector", "trimmed_variance", "trimmed_variance_ratio",
)
NESTED = ("mask", "landmarks", "texture", "tcoords", "kernel")


def warm(o, depth=0):
    """Call every whitelisted query o offers; returns the number answered."""
    n = 0
    for name in QUERIES:
        try:
            a = getattr(o, name)
        except Exception:
            continue
        try:
            if callable(a) and not isinstance(a, type):
                a()
            n += 1
        except Exception:
            pass
    if depth < 2:
        for name in NESTED:
            try:
                sub = o.__dict__.get(name, None) if name != "landmarks" else o.__dict__.get("_landmarks")
            except Exception:
                sub = None
            if sub is not None and hasattr(sub, "__dict__"):
                n += warm(sub, depth + 1)
        try:
            lm = o.__dict__.get("_landmarks")
            if lm is not None:
                for g in lm._landmark_groups.values():
                    n += warm(g, depth + 1)
        except Exception:
            pass
    return n


def snapshot(o):
    """What the object *says* about itself: (query name, copy of the answer) for every whitelisted query it offers
    (an exception is recorded by its type)."""
    import copy
    out = []
    for name in QUERIES:
        try:
            a = getattr(o, name)
        except Exception:
            continue
        try:
            v = a() if callable(a) and not isinstance(a, type) else a
            try:
                v = copy.deepcopy(v)
            except Exception:
                pass
            out.append((name, v))
        except Exception as e:
            out.append((name, "raises:" + type(e).__name__))
    return out


def changed(s0, s1, rtol=1e-9, atol=1e-9):
    """Names of the queries whose answers differ between two snapshots (up to rounding: some answers are computed with a
    random helper vector and are reproducible only to the last digits)."""
    from vf.digest import diff
    if [n for n, _ in s0] != [n for n, _ in s1]:
        return ["<set of answerable queries>"]
    out = []
    for (n, a), (_, b) in zip(s0, s1):
        try:
            if isinstance(a, str) or isinstance(b, str):
                if a is not b and a != b:
                    out.append(n)
            elif diff(a, b, rtol=rtol, atol=atol):
                out.append(n)
        except Exception:
            pass
    return out
