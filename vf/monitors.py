"""Monitors shared between properties (installed by several property modules so that internal calls are judged too)."""
import numpy as np

from vf import taps, refmap
from vf.digest import digest, diff, shared

STRUCT_SKIP = ("points", "_landmarks")


def _is_shape(x):
    try:
        from menpo.shape import PointCloud
        return isinstance(x, PointCloud) and taps.is_menpo(x)
    except Exception:
        return False


def _walk_groups(x, prefix=(), depth=0):
    """(path, group) for every landmark group of x, depth first, groups of groups included."""
    out = []
    lm = x.__dict__.get("_landmarks")
    if lm is None or depth > 3:
        return out
    for name, g in lm._landmark_groups.items():
        out.append((prefix + (name,), g))
        out.extend(_walk_groups(g, prefix + (name,), depth + 1))
    return out


class ApplyMonitor(taps.Monitor):
    """Transform.apply(x): same class, points/landmarks moved by the same map as the bare array, structure carried
    over unchanged, nothing mutated (C02)."""
    name = "Transform.apply"

    def __init__(self, rtol=1e-9):
        self.rtol = rtol

    def pre(self, ctx, args, kw):
        t, x = args[0], args[1] if len(args) > 1 else kw.get("x")
        if not taps.is_menpo(t):
            return None
        if isinstance(x, np.ndarray):
            if x.ndim != 2 or x.dtype.kind not in "fiu" or not np.isfinite(x).all():
                return None
            return {"kind": "array", "x": x.copy(), "tdig": digest(t)}
        if not _is_shape(x) or not np.isfinite(x.points).all():
            return None
        try:
            clone = t.copy()
        except Exception:
            return None
        groups = [(path, g, digest(g), g.points.copy(), type(g)) for path, g in _walk_groups(x)]
        return {"kind": "shape", "clone": clone, "xdig": digest(x), "tdig": digest(t), "pts": x.points.copy(),
                "groups": groups, "cls": type(x)}

    def post(self, ctx, st, args, kw, result, exc):
        from menpo.transform.piecewiseaffine.base import TriangleContainmentError
        t, x = args[0], args[1] if len(args) > 1 else kw.get("x")
        tcls = type(t).__name__
        if st["kind"] == "array":
            if not np.array_equal(x, st["x"]):
                ctx.fail("apply_modified_its_input_array", cls=tcls)
            if digest(t) != st["tdig"]:
                ctx.fail("apply_modified_the_transform", cls=tcls, mech="array_input")
            if exc is None and isinstance(result, np.ndarray):
                self._against_parameters(ctx, t, st["x"], result, tcls, "array")
            return
        xcls = st["cls"].__name__
        ctx.see("apply_pairs", (tcls, xcls))
        if digest(x) != st["xdig"]:
            ctx.fail("apply_modified_the_input_shape", cls=xcls, mech=tcls)
        for name, g, gd, gp, gc in st["groups"]:
            if digest(g) != gd:
                ctx.fail("apply_modified_a_landmark_group_of_the_input", cls=xcls, mech=tcls, group=list(name))
        if digest(t) != st["tdig"]:
            ctx.fail("apply_modified_the_transform", cls=tcls, mech=xcls)
        if exc is not None:
            if isinstance(exc, TriangleContainmentError):
                return
            # is the bare array accepted?  then the shape must be as well
            try:
                st["clone"].apply(st["pts"].copy())
            except Exception:
                return   # out of the transform's domain for the array too: not judged here
            ctx.fail("apply_raised_on_a_shape_but_not_on_its_array", cls=xcls, mech=tcls + ":" + type(exc).__name__, error=repr(exc)[:200])
            return
        if type(result) is not st["cls"]:
            ctx.fail("apply_changed_the_class_of_the_shape", cls=xcls, mech=tcls, got=type(result).__name__)
            return
        bs = kw.get("batch_size")
        try:
            ref = st["clone"].apply(st["pts"].copy())
        except TriangleContainmentError:
            return
        scale = max(1.0, float(np.abs(ref).max()) if ref.size else 1.0)
        e = _maxdiff(result.points, ref)
        ctx.err("apply_points_vs_array", e / scale)
        if not (e <= self.rtol * scale):
            ctx.fail("shape_points_differ_from_transformed_array", cls=xcls, mech=tcls, err=e)
        self._against_parameters(ctx, t, st["pts"], result.points, tcls, xcls)
        # landmarks moved by the same map
        rl = result._landmarks
        names = [g[0] for g in st["groups"]]
        rgroups = dict(_walk_groups(result))
        rnames = list(rgroups.keys())
        if names != rnames:
            ctx.fail("landmark_groups_lost_or_reordered_by_apply", cls=xcls, mech=tcls + (":nested" if any(len(n) > 1 for n in names) else ""),
                     before=[list(n) for n in names], after=[list(n) for n in rnames])
        else:
            for name, g, gd, gp, gc in st["groups"]:
                rg = rgroups[name]
                if len(name) > 1:
                    ctx.bump("nested_landmark_groups_judged")
                if type(rg) is not gc:
                    ctx.fail("landmark_group_changed_class", cls=gc.__name__, mech=tcls, group=list(name))
                    continue
                try:
                    gref = st["clone"].apply(gp.copy())
                except TriangleContainmentError:
                    continue
                e = _maxdiff(rg.points, gref)
                if not (e <= self.rtol * max(1.0, float(np.abs(gref).max()) if gref.size else 1.0)):
                    ctx.fail("landmark_group_not_moved_by_the_same_map", cls=xcls, mech=tcls + (":nested" if len(name) > 1 else ""), group=list(name), err=e,
                             lm_cls=gc.__name__)
                # the group's own structure
                for k in g.__dict__:
                    if k in STRUCT_SKIP:
                        continue
                    d = diff(g.__dict__[k], rg.__dict__.get(k))
                    if d:
                        ctx.fail("landmark_group_structure_changed", cls=gc.__name__, mech=k, why=d)
        # structure carried over unchanged
        for k in x.__dict__:
            if k in STRUCT_SKIP:
                continue
            if k not in result.__dict__:
                ctx.fail("structure_attribute_lost", cls=xcls, mech=k)
                continue
            d = diff(x.__dict__[k], result.__dict__[k])
            if d:
                ctx.fail("structure_attribute_changed_by_apply", cls=xcls, mech=k, why=d, transform=tcls)
        # a new object: nothing written into the result later (its coordinates, its connectivity) may reach the input
        sh = shared(result, x) if result is not x else []
        if sh:
            ctx.fail("result_of_apply_shares_memory_with_the_input_shape", cls=xcls, mech=str(sh[0][0]).split("[")[0][:50], transform=tcls, buffers=[str(v) for v in sh[0]])


def _smooth(t):
    import menpo.transform as mt
    if isinstance(t, mt.ThinPlateSplines):
        return True
    return isinstance(t, mt.TransformChain) and any(_smooth(m) for m in t.transforms)


def _against_parameters(self, ctx, t, pts, got, tcls, xcls):
    """The numbers equal the map the transform's public parameters define (independent evaluation, vf/refmap.py)."""
    r = refmap.reference_apply(t, pts)
    if r is None:
        ctx.bump("applications_without_independent_reference")
        return
    ref, ok = r
    got = np.asarray(got, dtype=float)
    if got.shape != ref.shape:
        ctx.fail("result_shape_differs_from_the_map_the_parameters_define", cls=tcls, mech=xcls, got=list(got.shape), expected=list(ref.shape))
        return
    ctx.bump("applications_judged_against_independent_reference")
    if not ok.any():
        return
    scale = max(1.0, float(np.abs(ref[ok]).max()))
    e = float(np.abs(got[ok] - ref[ok]).max())
    ctx.err("apply_vs_parameter_defined_map", e / scale)
    if not (e <= (1e-6 if _smooth(t) else 1e-8) * scale):
        ctx.fail("result_differs_from_the_map_the_parameters_define", cls=tcls, mech=xcls, err=e)


ApplyMonitor._against_parameters = _against_parameters


def _maxdiff(a, b):
    a, b = np.asarray(a, dtype=float), np.asarray(b, dtype=float)
    if a.shape != b.shape:
        return float("inf")
    if not a.size:
        return 0.0
    m = float(np.abs(a - b).max())
    return m if m == m else float("inf")


def install_apply_monitor(ctx):
    T = taps.mod("menpo.transform.base")
    taps.tap(ctx, T.Transform, "apply", ApplyMonitor())
