"""Attach / detach monitors on menpo classes and modules from the harness (no repository edits).

tap(owner, name, monitor) replaces owner.name by a wrapper

    def wrapper(*args, **kw):
        if inside a monitor already: return orig(*args, **kw)       # reference evaluations are not re-judged
        state = monitor.pre(ctx, args, kw)      -> None means "out of domain, pass through"
        result / exception = orig(*args, **kw)
        monitor.post(ctx, state, args, kw, result, exc)

Monitors are plain objects with `name`, `pre`, `post`.  Counters calls / checked /
skipped_out_of_domain / violations are kept per tap name in the Ctx.
"""
import functools
import importlib
import os
import sys

_INSTALLED = []
_DEPTH = [0]
ENABLED = os.environ.get("MENPO_VERIF", "") == "1"


def mod(name):
    """Resolve a module by its real dotted name (attribute access is not trustworthy in menpo.transform)."""
    return importlib.import_module(name)


def is_menpo(obj):
    """An instance of a class defined in the menpo package proper (test doubles defined in menpo/**/test are not)."""
    m = type(obj).__module__
    return (m == "menpo" or m.startswith("menpo.")) and ".test." not in m + "."


class quiet(object):
    """Context manager: calls made inside are reference evaluations - taps pass them through."""

    def __enter__(self):
        _DEPTH[0] += 1

    def __exit__(self, *a):
        _DEPTH[0] -= 1


def in_monitor():
    return _DEPTH[0] > 0


class Monitor(object):
    name = "monitor"

    def pre(self, ctx, args, kw):
        return {}

    def post(self, ctx, state, args, kw, result, exc):
        pass


def tap(ctx, owner, attr, monitor):
    """Install monitor on owner.attr (owner: class or module).  Returns the original."""
    if not ENABLED:
        return None
    raw = owner.__dict__[attr] if isinstance(owner, type) else getattr(owner, attr)
    kind = "plain"
    orig = raw
    if isinstance(raw, staticmethod):
        kind, orig = "static", raw.__func__
    elif isinstance(raw, classmethod):
        kind, orig = "class", raw.__func__

    @functools.wraps(orig)
    def wrapper(*args, **kw):
        if _DEPTH[0] > 0:
            return orig(*args, **kw)
        ctx.tap(monitor.name, "calls")
        _DEPTH[0] += 1
        try:
            try:
                state = monitor.pre(ctx, args, kw)
            except Exception as e:  # a monitor bug must never look like a repository defect
                ctx.notes.append("monitor %s pre() raised %r" % (monitor.name, e))
                ctx.bump("monitor_errors")
                state = None
        finally:
            _DEPTH[0] -= 1
        if state is None:
            ctx.tap(monitor.name, "skipped_out_of_domain")
            return orig(*args, **kw)
        exc = None
        result = None
        try:
            result = orig(*args, **kw)
        except Exception as e:
            exc = e
        _DEPTH[0] += 1
        try:
            nv = sum(v["count"] for v in ctx.violations.values())
            try:
                monitor.post(ctx, state, args, kw, result, exc)
                ctx.tap(monitor.name, "checked")
            except Exception as e:
                import traceback
                ctx.notes.append("monitor %s post() raised %r %s" % (monitor.name, e, traceback.format_exc()[-400:]))
                ctx.bump("monitor_errors")
            if sum(v["count"] for v in ctx.violations.values()) > nv:
                ctx.tap(monitor.name, "violations")
        finally:
            _DEPTH[0] -= 1
        if exc is not None:
            raise exc
        return result

    wrapper.__wrapped_by_vf__ = True
    new = wrapper
    if kind == "static":
        new = staticmethod(wrapper)
    elif kind == "class":
        new = classmethod(wrapper)
    setattr(owner, attr, new)
    _INSTALLED.append((owner, attr, raw))
    return orig


def tap_everywhere(ctx, func_module, func_name, monitor, extra_sites=()):
    """Tap a module-level function at its home and at every module that bound it by `from x import f`."""
    home = mod(func_module)
    target = getattr(home, func_name)
    sites = []
    for mname, m in list(sys.modules.items()):
        if m is None or not (mname == "menpo" or mname.startswith("menpo.")):
            continue
        if getattr(m, "__dict__", {}).get(func_name) is target:
            sites.append(m)
    for m in sites:
        tap(ctx, m, func_name, monitor)
    return len(sites)


def definers(attr, base=None, packages=("menpo",)):
    """Every class defined in the given packages (tests excluded) that defines `attr` in its own __dict__ - discovered at
    run time, so an override added by a change under test is monitored like the existing ones."""
    import inspect
    seen, out = set(), []
    for mname, m in sorted(sys.modules.items()):
        if m is None or not any(mname == p or mname.startswith(p + ".") for p in packages) or ".test" in mname:
            continue
        for name, obj in list(vars(m).items()):
            if inspect.isclass(obj) and id(obj) not in seen and obj.__module__.split(".")[0] in packages and ".test" not in obj.__module__:
                seen.add(id(obj))
                if attr in obj.__dict__ and (base is None or issubclass(obj, base)):
                    raw = obj.__dict__[attr]
                    if callable(raw) or isinstance(raw, (staticmethod, classmethod)):
                        out.append(obj)
    return out


def load_all_menpo():
    """Import every menpo sub-package the properties are anchored in, so that discovery sees all classes."""
    for name in ("menpo", "menpo.base", "menpo.shape", "menpo.image", "menpo.transform", "menpo.landmark", "menpo.model", "menpo.feature", "menpo.io",
                 "menpo.transform.piecewiseaffine.base", "menpo.transform.rbf", "menpo.transform.groupalign.procrustes", "menpo.math"):
        try:
            importlib.import_module(name)
        except Exception:
            pass


def tap_definers(ctx, attr, make_monitor, base=None):
    """Tap `attr` on every class that defines it; make_monitor(owner) -> Monitor.  Returns the owners tapped."""
    load_all_menpo()
    owners = [c for c in definers(attr, base) if not getattr(c.__dict__[attr], "__wrapped_by_vf__", False)]
    for c in owners:
        tap(ctx, c, attr, make_monitor(c))
    return owners


def detach_all():
    while _INSTALLED:
        owner, attr, raw = _INSTALLED.pop()
        setattr(owner, attr, raw)
