import sys
from vf.core import worker_main
sys.exit(worker_main(sys.argv[1:]))
