"""Runner for the runtime-monitoring checks.

A property module (props/cNN.py) exposes

    ID            "C07"
    RULE          text: how cases are generated and what makes one non-trivial / distinct
    ASSUMPTIONS   list of strings
    WORKLOADS     list of Workload(name, fn, quick=N, thorough=M [, exhaustive=bool])
                  fn(ctx, rng, i) runs case i of that workload with monitors attached
    setup(ctx)    optional, attaches taps once per worker process
    finish(ctx)   optional, end-of-shard checks (quiescent-point invariants, tap-reached checks)
    merge(run)    optional, cross-shard / offline checks on the merged result (returns list of violations)
    DECIDING_TAPS optional list of tap names that must have been reached (else inconclusive)
    MIN_NONTRIVIAL optional int

The parent process shards the case indices over worker processes (subprocess.run with a
timeout - never multiprocessing.Pool), merges what they observed, classifies violations
against known_findings.json, writes evidence/<ID>.json and prints the verdict lines.

Exit codes: 0 held on everything observed, 1 violation (with a VIOLATION line), 2 inconclusive.
"""
import argparse
import importlib
import json
import os
import subprocess
import sys
import tempfile
import time
import traceback

VERIF = os.path.dirname(os.path.dirname(os.path.abspath(__file__)))
REPO = os.environ.get("MENPO_REPO", "/repo")
PY = os.environ.get("VERIF_PY", "/venv/bin/python")
DEPS = os.path.join(VERIF, ".deps")


class Workload(object):
    def __init__(self, name, fn, quick, thorough, exhaustive=False, per_case_timeout=None):
        self.name, self.fn, self.quick, self.thorough = name, fn, quick, thorough
        self.exhaustive = exhaustive

    def n(self, tier):
        v = self.quick if tier == "quick" else self.thorough
        return v() if callable(v) else v


class Violation(Exception):
    pass


class Ctx(object):
    """Per-worker state: what the monitors observed."""

    MAX_SAMPLES = 6
    MAX_WITNESS = 40

    def __init__(self, pid, tier, seed, shard, nshards):
        self.pid, self.tier, self.seed, self.shard, self.nshards = pid, tier, seed, shard, nshards
        self.evaluations = 0
        self.descriptors = set()
        self.trivial = 0
        self.samples = []
        self.violations = {}      # signature -> {count, witness}
        self.taps = {}            # tap name -> {calls, checked, skipped_out_of_domain, violations}
        self.seen = {}            # free-form sets: classes_seen, options_seen ...
        self.maxerr = {}          # name -> max error observed
        self.counters = {}
        self.workload = None
        self.case = None
        self.events = []          # event trace of the current case (bounded)
        self.notes = []
        self.extra = {}

    # ---- bookkeeping used by workloads and monitors -------------------------------
    def begin(self, workload, i):
        self.workload, self.case = workload, i
        self.events = []

    def count_case(self, descriptor, nontrivial=True, sample=None):
        """One judged case.  descriptor: hashable summary (classes, options, size bucket...)."""
        self.evaluations += 1
        if nontrivial:
            self.descriptors.add(_canon(descriptor))
        else:
            self.trivial += 1
        if sample is not None and len(self.samples) < self.MAX_SAMPLES:
            s = {"workload": self.workload, "case": self.case, "descriptor": _jsonable(descriptor)}
            s.update(_jsonable(sample))
            self.samples.append(s)

    def event(self, **kw):
        if len(self.events) < 60:
            self.events.append(_jsonable(kw))

    def tap(self, name, field="calls", n=1):
        t = self.taps.setdefault(name, {"calls": 0, "checked": 0, "skipped_out_of_domain": 0, "violations": 0})
        t[field] = t.get(field, 0) + n

    def see(self, key, value):
        self.seen.setdefault(key, set()).add(_canon(value))

    def err(self, key, value):
        try:
            v = float(value)
        except Exception:
            return
        if v != v:
            return
        if v > self.maxerr.get(key, 0.0):
            self.maxerr[key] = v

    def bump(self, key, n=1):
        self.counters[key] = self.counters.get(key, 0) + n

    def fail(self, clause, mech="", cls="", **witness):
        """Record a violation.  (clause, cls, mech) is the mechanism-level signature."""
        sig = "%s|%s|%s" % (clause, cls, mech)
        v = self.violations.get(sig)
        if v is None:
            if len(self.violations) >= self.MAX_WITNESS:
                sig = "overflow||"
                v = self.violations.setdefault(sig, {"count": 0, "witness": {"clause": "overflow"}})
            else:
                w = {"property": self.pid, "clause": clause, "cls": cls, "mech": mech,
                     "workload": self.workload, "case": self.case, "seed": self.seed,
                     "tier": self.tier, "detail": _jsonable(witness), "events": list(self.events[-20:])}
                v = self.violations[sig] = {"count": 0, "witness": w}
        v["count"] += 1

    def check(self, cond, clause, mech="", cls="", **witness):
        if not cond:
            self.fail(clause, mech=mech, cls=cls, **witness)
        return bool(cond)

    def dump(self):
        return {
            "evaluations": self.evaluations, "descriptors": sorted(self.descriptors), "trivial": self.trivial,
            "samples": self.samples, "violations": self.violations, "taps": self.taps,
            "seen": {k: sorted(v) for k, v in self.seen.items()}, "maxerr": self.maxerr,
            "counters": self.counters, "notes": self.notes, "extra": _jsonable(self.extra),
        }


def _canon(x):
    if isinstance(x, str):
        return x
    return json.dumps(_jsonable(x), sort_keys=True, default=str)


def _jsonable(x, depth=0):
    import numpy as np
    if depth > 8:
        return str(x)[:80]
    if x is None or isinstance(x, (bool, int, str)):
        return x
    if isinstance(x, float):
        return x if x == x and abs(x) != float("inf") else repr(x)
    if isinstance(x, (np.bool_,)):
        return bool(x)
    if isinstance(x, np.integer):
        return int(x)
    if isinstance(x, np.floating):
        return _jsonable(float(x))
    if isinstance(x, np.ndarray):
        if x.size <= 64:
            return {"shape": list(x.shape), "dtype": str(x.dtype), "values": _jsonable(x.tolist(), depth + 1)}
        return {"shape": list(x.shape), "dtype": str(x.dtype), "head": _jsonable(x.ravel()[:12].tolist(), depth + 1)}
    if isinstance(x, dict):
        return {str(k): _jsonable(v, depth + 1) for k, v in x.items()}
    if isinstance(x, (list, tuple, set, frozenset)):
        return [_jsonable(v, depth + 1) for v in (sorted(x, key=str) if isinstance(x, (set, frozenset)) else x)]
    return str(x)[:200]


def case_rng(seed, pid, wl_index, i):
    import numpy as np
    return np.random.default_rng([int(seed) & 0x7FFFFFFF, int(pid[1:]), wl_index, int(i)])


# =============================================================================== worker
def worker_main(argv):
    ap = argparse.ArgumentParser()
    ap.add_argument("pid")
    ap.add_argument("--tier", default="quick")
    ap.add_argument("--seed", type=int, default=0)
    ap.add_argument("--shard", type=int, default=0)
    ap.add_argument("--nshards", type=int, default=1)
    ap.add_argument("--out", required=True)
    ap.add_argument("--only", default=None, help="workload:case - replay exactly that case")
    ap.add_argument("--param", default=None, help="json passed to the module (e.g. the hash seed role)")
    a = ap.parse_args(argv)

    import warnings
    warnings.simplefilter("ignore")
    import faulthandler
    faulthandler.enable()
    if os.path.isdir(DEPS) and DEPS not in sys.path:
        sys.path.append(DEPS)
    mod = importlib.import_module("props." + a.pid.lower())
    ctx = Ctx(a.pid, a.tier, a.seed, a.shard, a.nshards)
    ctx.param = json.loads(a.param) if a.param else {}
    t0 = time.time()
    status = "ok"
    try:
        if hasattr(mod, "setup"):
            mod.setup(ctx)
        only = None
        if a.only:
            w, c = a.only.rsplit(":", 1)
            only = (w, int(c))
        for wi, wl in enumerate(mod.WORKLOADS):
            if only and wl.name != only[0]:
                continue
            n = wl.n(a.tier)
            if "slice" in ctx.param:      # several workers run the same slice (e.g. under different hash seeds)
                idx = [only[1]] if only else range(ctx.param["slice"], n, ctx.param["nslices"])
            else:
                idx = [only[1]] if only else range(a.shard, n, a.nshards)
            for i in idx:
                ctx.begin(wl.name, i)
                rng = case_rng(a.seed, a.pid, wi, i)
                try:
                    wl.fn(ctx, rng, i)
                except Exception as e:  # an exception escaping a workload inside the domain
                    tb = traceback.format_exc()
                    where = _where(tb)
                    ctx.fail("unexpected_exception", mech=type(e).__name__ + "@" + where, cls="",
                             error=repr(e)[:300], traceback=tb[-1800:])
        if hasattr(mod, "finish"):
            ctx.begin("finish", 0)
            mod.finish(ctx)
    except Exception:
        status = "crashed: " + traceback.format_exc()[-2000:]
    d = ctx.dump()
    d["status"] = status
    d["wall_s"] = time.time() - t0
    with open(a.out, "w") as f:
        json.dump(d, f)
    return 0


def _where(tb):
    """Innermost frame inside menpo (file:function), else innermost frame of props/."""
    best = ""
    for line in tb.splitlines():
        line = line.strip()
        if line.startswith("File "):
            try:
                path = line.split('"')[1]
                fn = line.rsplit(" in ", 1)[1]
            except Exception:
                continue
            if "/menpo/" in path:
                best = "menpo/" + path.split("/menpo/", 1)[1] + ":" + fn
            elif not best and "/props/" in path:
                best = "props/" + os.path.basename(path) + ":" + fn
    return best


# =============================================================================== parent
def ensure_deps():
    """icontract lives beside the repository's interpreter, under /verif/.deps (git-ignored)."""
    if os.path.isdir(os.path.join(DEPS, "icontract")):
        return True
    cmd = [os.path.join(os.path.dirname(PY), "pip"), "install", "--no-index", "--find-links",
           "/opt/veriftools/wheels", "--target", DEPS, "--quiet", "icontract"]
    try:
        subprocess.run(cmd, stdout=subprocess.DEVNULL, stderr=subprocess.DEVNULL, timeout=300)
    except Exception:
        pass
    return os.path.isdir(os.path.join(DEPS, "icontract"))


def child_env(extra=None):
    env = dict(os.environ)
    env["PYTHONPATH"] = os.pathsep.join([REPO, VERIF])
    env["MENPO_VERIF"] = "1"
    env.setdefault("PYTHONHASHSEED", "0")
    env["PYTHONDONTWRITEBYTECODE"] = "1"
    for k in ("OMP_NUM_THREADS", "OPENBLAS_NUM_THREADS", "MKL_NUM_THREADS"):
        env[k] = "1"
    if extra:
        env.update(extra)
    return env


def run_shards(pid, tier, seed, nshards, timeout, only=None, params=None, env_extra=None):
    """Start nshards workers, wait, return list of (dump or None, status)."""
    tmpdir = tempfile.mkdtemp(prefix="vf-%s-" % pid)
    procs = []
    for k in range(nshards):
        out = os.path.join(tmpdir, "shard%d.json" % k)
        cmd = [PY, "-m", "vf.worker", pid, "--tier", tier, "--seed", str(seed), "--shard", str(k),
               "--nshards", str(nshards), "--out", out]
        if only:
            cmd += ["--only", only]
        if params is not None:
            cmd += ["--param", json.dumps(params[k] if isinstance(params, list) else params)]
        ee = env_extra[k] if isinstance(env_extra, list) else env_extra
        log = open(os.path.join(tmpdir, "shard%d.log" % k), "w")
        p = subprocess.Popen(cmd, cwd=VERIF, env=child_env(ee), stdout=log, stderr=subprocess.STDOUT)
        procs.append((p, out, log))
    results = []
    deadline = time.time() + timeout
    for p, out, log in procs:
        status = "ok"
        try:
            p.wait(timeout=max(1.0, deadline - time.time()))
        except subprocess.TimeoutExpired:
            p.kill()
            p.wait()
            status = "watchdog"
        log.close()
        d = None
        if status == "ok":
            try:
                d = json.load(open(out))
                if d.get("status") != "ok":
                    status = d.get("status")
            except Exception:
                status = "died rc=%s: %s" % (p.returncode, open(log.name).read()[-600:])
        results.append((d, status))
    import shutil
    shutil.rmtree(tmpdir, ignore_errors=True)
    return results


def run_replay(pid, tier, seed, paths, timeout=1500):
    """Suite replay: the repository's own tests for `paths` under pytest with this property's monitors attached."""
    tmpdir = tempfile.mkdtemp(prefix="vf-replay-%s-" % pid)
    out = os.path.join(tmpdir, "replay.json")
    env = child_env({"VF_REPLAY_PROP": pid, "VF_REPLAY_OUT": out, "VF_REPLAY_TIER": tier, "VF_REPLAY_SEED": str(seed)})
    cmd = [PY, "-m", "pytest", "-q", "-x" if False else "-q", "-p", "vf.pytest_taps", "-p", "no:cacheprovider", "--timeout=900",
           "--continue-on-collection-errors"] + list(paths)
    log = open(os.path.join(tmpdir, "pytest.log"), "w")
    try:
        subprocess.run(cmd, cwd=REPO, env=env, stdout=log, stderr=subprocess.STDOUT, timeout=timeout)
        status = "ok"
    except subprocess.TimeoutExpired:
        status = "watchdog (suite replay)"
    log.close()
    d = None
    try:
        d = json.load(open(out))
    except Exception:
        if status == "ok":
            status = "suite replay produced no dump: " + open(log.name).read()[-400:]
    import shutil
    shutil.rmtree(tmpdir, ignore_errors=True)
    return d, status


def merge(dumps):
    m = {"evaluations": 0, "descriptors": set(), "trivial": 0, "samples": [], "violations": {}, "taps": {},
         "seen": {}, "maxerr": {}, "counters": {}, "notes": [], "extra": []}
    for d in dumps:
        if d is None:
            continue
        m["evaluations"] += d["evaluations"]
        m["descriptors"].update(d["descriptors"])
        m["trivial"] += d["trivial"]
        m["samples"] += d["samples"]
        for sig, v in d["violations"].items():
            t = m["violations"].setdefault(sig, {"count": 0, "witness": v["witness"]})
            t["count"] += v["count"]
        for name, c in d["taps"].items():
            t = m["taps"].setdefault(name, {})
            for k, n in c.items():
                t[k] = t.get(k, 0) + n
        for k, v in d["seen"].items():
            m["seen"].setdefault(k, set()).update(v)
        for k, v in d["maxerr"].items():
            m["maxerr"][k] = max(m["maxerr"].get(k, 0.0), v)
        for k, v in d["counters"].items():
            m["counters"][k] = m["counters"].get(k, 0) + v
        m["notes"] += d["notes"]
        m["extra"].append(d.get("extra"))
    return m


def main(argv=None):
    ap = argparse.ArgumentParser(prog="check")
    ap.add_argument("pid")
    ap.add_argument("--tier", default=os.environ.get("VERIF_TIER", "quick"), choices=["quick", "thorough"])
    ap.add_argument("--replay", default=None)
    ap.add_argument("--seed", type=int, default=None)
    ap.add_argument("--shards", type=int, default=None)
    ap.add_argument("--only", default=None, help="workload:case (development aid; no evidence is written)")
    a = ap.parse_args(argv)
    pid = a.pid.upper()
    seed = a.seed if a.seed is not None else int(os.environ.get("VERIF_SEED", "0") or 0)
    sys.path.insert(0, VERIF)
    from vf import findings, evidence

    t0 = time.time()
    if not ensure_deps():
        print("INCONCLUSIVE property=%s reason=contracts library (icontract) could not be installed" % pid)
        return 2
    if DEPS not in sys.path:
        sys.path.append(DEPS)
    os.environ["PYTHONPATH"] = os.pathsep.join([REPO, VERIF])
    if REPO not in sys.path:
        sys.path.insert(1, REPO)
    mod = importlib.import_module("props." + pid.lower())

    only = a.only
    tier = a.tier
    if a.replay:
        w = json.load(open(a.replay))
        only = "%s:%d" % (w["workload"], w["case"])
        seed, tier = w["seed"], w.get("tier", tier)
    nshards = 1 if only else (a.shards or getattr(mod, "SHARDS", {}).get(tier, 8 if tier == "quick" else 16))
    timeout = getattr(mod, "TIMEOUT", {}).get(tier, 600 if tier == "quick" else 7200)

    if hasattr(mod, "plan"):
        params, env_extra, nshards = mod.plan(tier, seed, nshards, only)
    else:
        params, env_extra = None, None
    replay_paths = getattr(mod, "REPLAY_PATHS", None)
    if only and only.startswith("suite_replay:"):
        results = [run_replay(pid, tier, seed, replay_paths)]
    else:
        results = run_shards(pid, tier, seed, nshards, timeout, only=only, params=params, env_extra=env_extra)
        if replay_paths and not only and (tier == "thorough" or getattr(mod, "REPLAY_IN_QUICK", False)):
            results.append(run_replay(pid, tier, seed, replay_paths))
    bad = [s for d, s in results if s != "ok"]
    m = merge([d for d, s in results])
    m["nshards"] = nshards
    if hasattr(mod, "merge") and not bad:
        # offline checker over the recorded shard logs (e.g. hash-seed determinism)
        for v in mod.merge(m, tier, seed) or []:
            sig = "%s|%s|%s" % (v["clause"], v.get("cls", ""), v.get("mech", ""))
            v.setdefault("property", pid); v.setdefault("seed", seed); v.setdefault("tier", tier)
            v.setdefault("workload", "merge"); v.setdefault("case", 0)
            t = m["violations"].setdefault(sig, {"count": 0, "witness": v})
            t["count"] += 1

    # ---- classify violations against the committed known-findings file
    known, new = findings.classify(pid, m["violations"])
    os.makedirs(os.path.join(VERIF, "replays"), exist_ok=True)
    lines = []
    for k, (entry, v) in enumerate(known):
        print("KNOWN-FINDING: property=%s %s (seen %d times this run)" % (pid, entry["what"], v["count"]))
    for k, v in enumerate(new):
        path = os.path.join(VERIF, "replays", "%s-%d-%d.json" % (pid, seed, k))
        with open(path, "w") as f:
            json.dump(v["witness"], f, indent=1)
        lines.append("VIOLATION property=%s replay=%s" % (pid, path))
        w = v["witness"]
        print("  violated clause=%s cls=%s mech=%s count=%d workload=%s case=%s" % (
            w.get("clause"), w.get("cls"), w.get("mech"), v["count"], w.get("workload"), w.get("case")))
        print("  detail: " + json.dumps(w.get("detail"), default=str)[:700])

    # ---- inconclusive conditions
    inconclusive = []
    for s in bad:
        inconclusive.append("worker " + s[:300])
    nontriv = len(m["descriptors"])
    if not only:
        for tapname in getattr(mod, "DECIDING_TAPS", []):
            if m["taps"].get(tapname, {}).get("checked", 0) == 0:
                inconclusive.append("deciding monitor %s judged no event" % tapname)
        if nontriv < getattr(mod, "MIN_NONTRIVIAL", 2):
            inconclusive.append("only %d distinct non-trivial cases" % nontriv)

    wall = time.time() - t0
    if not a.replay and not a.only:
        evidence.write(pid, tier, seed, mod, m, wall, known, new, inconclusive)
    print("%s tier=%s seed=%d shards=%d evaluations=%d distinct_nontrivial=%d violations=%d known=%d wall=%.1fs" % (
        pid, tier, seed, nshards, m["evaluations"], nontriv, len(new), len(known), wall))
    taps = ", ".join("%s:%d/%d" % (k, v.get("checked", 0), v.get("calls", 0)) for k, v in sorted(m["taps"].items()))
    if taps:
        print("  monitors (checked/calls): " + taps[:1500])
    if m["notes"]:
        print("  monitor notes (%d): %s" % (len(m["notes"]), " || ".join(sorted(set(n[:300] for n in m["notes"]))[:4])))
    if m["counters"].get("monitor_errors", 0) > 0:      # a monitor that could not judge an event is not "held" (nor a violation)
        inconclusive.append("monitors raised internally on %d events" % m["counters"]["monitor_errors"])
    if lines:
        for l in lines:
            print(l)
        return 1
    if inconclusive:
        for r in inconclusive:
            print("INCONCLUSIVE property=%s reason=%s" % (pid, r.replace("\n", " ")))
        return 2
    print("HELD property=%s on everything observed" % pid)
    return 0


if __name__ == "__main__":
    sys.exit(main())
