"""Reference models: plain-Python / numpy textbook algorithms, independent of menpo and of scipy.sparse.csgraph."""
import heapq
import itertools

import numpy as np


# =============================================================================== graphs
def adj_list(n, edges, directed):
    out = [set() for _ in range(n)]
    for i, j in edges:
        out[i].add(j)
        if not directed:
            out[j].add(i)
    return out


def has_cycle_undirected(n, edges):
    """Union-find: a cycle exists iff some edge joins two vertices already connected (self loops count)."""
    parent = list(range(n))

    def find(x):
        while parent[x] != x:
            parent[x] = parent[parent[x]]
            x = parent[x]
        return x
    for i, j in set(tuple(sorted(e)) for e in edges):
        if i == j:
            return True
        a, b = find(i), find(j)
        if a == b:
            return True
        parent[a] = b
    return False


def has_cycle_directed(n, edges):
    """Three-colour DFS."""
    adj = adj_list(n, edges, True)
    colour = [0] * n
    for s in range(n):
        if colour[s]:
            continue
        stack = [(s, iter(sorted(adj[s])))]
        colour[s] = 1
        while stack:
            v, it = stack[-1]
            for w in it:
                if colour[w] == 1:
                    return True
                if colour[w] == 0:
                    colour[w] = 1
                    stack.append((w, iter(sorted(adj[w]))))
                    break
            else:
                colour[v] = 2
                stack.pop()
    return False


def components_undirected(n, edges):
    adj = adj_list(n, edges, False)
    comp = [-1] * n
    c = 0
    for s in range(n):
        if comp[s] >= 0:
            continue
        comp[s] = c
        stack = [s]
        while stack:
            v = stack.pop()
            for w in adj[v]:
                if comp[w] < 0:
                    comp[w] = c
                    stack.append(w)
        c += 1
    return c, comp


def reachable(n, edges, directed, s):
    adj = adj_list(n, edges, directed)
    seen = {s}
    stack = [s]
    while stack:
        v = stack.pop()
        for w in adj[v]:
            if w not in seen:
                seen.add(w)
                stack.append(w)
    return seen


def all_simple_paths(n, edges, directed, s, t):
    adj = adj_list(n, edges, directed)
    out = []

    def rec(path):
        v = path[-1]
        if v == t:
            out.append(tuple(path))
            return
        for w in sorted(adj[v]):
            if w not in path:
                rec(path + [w])
    rec([s])
    return out


def dijkstra(n, wedges, directed, s):
    """wedges: dict (i, j) -> positive weight."""
    adj = [[] for _ in range(n)]
    for (i, j), w in wedges.items():
        adj[i].append((j, w))
        if not directed:
            adj[j].append((i, w))
    dist = [float("inf")] * n
    dist[s] = 0.0
    pq = [(0.0, s)]
    while pq:
        d, v = heapq.heappop(pq)
        if d > dist[v]:
            continue
        for w, c in adj[v]:
            if d + c < dist[w]:
                dist[w] = d + c
                heapq.heappush(pq, (d + c, w))
    return dist


def kruskal_weight(n, wedges):
    parent = list(range(n))

    def find(x):
        while parent[x] != x:
            parent[x] = parent[parent[x]]
            x = parent[x]
        return x
    total, k = 0.0, 0
    for (i, j), w in sorted(wedges.items(), key=lambda kv: kv[1]):
        a, b = find(i), find(j)
        if a != b:
            parent[a] = b
            total += w
            k += 1
    return total, k


def induced(n, edges, keep):
    """Induced subgraph on the kept vertices renumbered in order."""
    idx = {v: k for k, v in enumerate([v for v in range(n) if keep[v]])}
    return len(idx), sorted(set((idx[i], idx[j]) for i, j in edges if i in idx and j in idx)), idx


def enumerate_graphs(n, directed):
    """Every labelled graph on n vertices (no self loops)."""
    pairs = [(i, j) for i in range(n) for j in range(n) if (i != j if directed else i < j)]
    for bits in range(1 << len(pairs)):
        yield [p for k, p in enumerate(pairs) if bits >> k & 1]


def n_graphs(n, directed):
    return 1 << (n * (n - 1) if directed else n * (n - 1) // 2)


def graph_by_index(n, directed, bits):
    pairs = [(i, j) for i in range(n) for j in range(n) if (i != j if directed else i < j)]
    return [p for k, p in enumerate(pairs) if bits >> k & 1]


# =============================================================================== geometry
def kabsch(src, tgt, allow_mirror=False):
    """Rotation R minimising ||src R^T - tgt||_F (about the origin)."""
    c = tgt.T @ src
    u, s, vt = np.linalg.svd(c)
    r = u @ vt
    if not allow_mirror and np.linalg.det(r) < 0:
        e = np.eye(len(s))
        e[-1, -1] = -1
        r = u @ e @ vt
    return r


def point_in_triangle(p, a, b, c, eps=0.0):
    """Barycentric test; returns (inside, weights)."""
    m = np.array([[b[0] - a[0], c[0] - a[0]], [b[1] - a[1], c[1] - a[1]]])
    try:
        st = np.linalg.solve(m, p - a)
    except np.linalg.LinAlgError:
        return False, None
    w = np.array([1 - st[0] - st[1], st[0], st[1]])
    return bool((w >= -eps).all()), w
