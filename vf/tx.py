"""Shared helpers for the transform properties (C02-C09, C20): builders, probe points, class honesty, map comparison."""
import numpy as np

from vf import gen

HOMOG = gen.HOMOG_KINDS
EXTRA_HOMOG = ["IntAffine", "IntHomogeneous", "IntSimilarity", "MirrorRotation", "ScaledHomogeneous", "SingularLinearHomogeneous"]     # hostile but legal representations
ALL_KINDS_2D = HOMOG + ["TransformChain", "ThinPlateSplines", "PiecewiseAffine", "PythonPWA", "WithDims"]
DEGENERATE_2D = ["PWA_degenerate_triangle"]
ALL_KINDS_3D = HOMOG + ["TransformChain", "WithDims"]

BOX = 12.0   # PWA / TPS sources live in [-BOX, BOX]^2; probe points in the inner part


def amax(x):
    """max |x| with NaN counted as infinite (a NaN never passes a tolerance test)."""
    x = np.asarray(x, dtype=float)
    if x.size == 0:
        return 0.0
    m = float(np.abs(x).max())
    return m if m == m else float("inf")


_amax = amax


CHAIN_PARTS = {}


def kinds(d):
    return ALL_KINDS_2D if d == 2 else ALL_KINDS_3D


def pwa_pair(rng, n_inner=None):
    """Source mesh covering [-BOX,BOX]^2 (corners + edge midpoints + interior points, Delaunay) and a fold-free target."""
    import menpo.shape as ms
    from scipy.spatial import Delaunay
    n_inner = n_inner if n_inner is not None else int(rng.integers(2, 8))
    b = BOX
    ring = np.array([[-b, -b], [-b, b], [b, b], [b, -b], [0, -b], [0, b], [-b, 0], [b, 0]], dtype=float)
    for _ in range(200):
        inner = rng.uniform(-0.75 * b, 0.75 * b, (n_inner, 2))
        s = np.vstack([ring + rng.uniform(-0.3, 0.3, ring.shape), inner])
        tl = Delaunay(s).simplices.astype(np.int64)
        a2 = gen.tri_area2(s, tl)
        if np.abs(a2).min() < 4.0:
            continue
        lin = np.eye(2) + rng.uniform(-0.2, 0.2, (2, 2))
        t = s @ lin.T + rng.uniform(-3, 3, 2) + rng.normal(scale=0.5, size=s.shape)
        b2 = gen.tri_area2(t, tl)
        if (np.sign(a2) == np.sign(b2)).all() and np.abs(b2).min() > 2.0:
            break
    else:
        t = s @ lin.T
    if rng.random() < 0.35:
        # a user-supplied triangle list need not be consistently oriented: some triangles listed clockwise
        flip = rng.random(len(tl)) < 0.4
        tl = tl.copy()
        tl[flip] = tl[flip][:, [0, 2, 1]]
    return ms.TriMesh(s, trilist=tl), ms.PointCloud(t)


def tps_pair(rng, n=None):
    import menpo.shape as ms
    n = n or int(rng.integers(5, 12))
    for _ in range(100):
        s = rng.uniform(-0.8 * BOX, 0.8 * BOX, (n, 2))
        d = np.sqrt(((s[:, None] - s[None]) ** 2).sum(-1)) + np.eye(n) * 99
        sv = np.linalg.svd(s - s.mean(0), compute_uv=False)
        if d.min() > 1.5 and sv[-1] > 0.2 * sv[0]:
            break
    lin = np.eye(2) + rng.uniform(-0.15, 0.15, (2, 2))
    t = s @ lin.T + rng.uniform(-2, 2, 2) + rng.normal(scale=0.4, size=s.shape)
    return ms.PointCloud(s), ms.PointCloud(t)


def make(rng, kind, d=2):
    """(transform, recipe) - recipe() rebuilds an identical, history-free twin from the same constructor arguments."""
    import menpo.transform as mt
    from menpo.transform.piecewiseaffine.base import PythonPWA, CachedPWA
    from menpo.transform.rbf import R2LogR2RBF, R2LogRRBF
    if kind in ("PiecewiseAffine", "PythonPWA", "PWA_degenerate_triangle", "PWA_unused_vertex"):
        s, t = pwa_pair(rng)
        if kind == "PWA_unused_vertex":
            # the source mesh has a vertex that none of its triangles uses (a landmark added to a surface, a mesh cut by a triangle
            # mask): inside the meshed region it is warped like any point there, outside it is out of the domain
            import menpo.shape as ms
            sp_ = np.asarray(s.points, dtype=float)
            if rng.random() < 0.5:
                tri_ = np.asarray(s.trilist)[rng.integers(0, len(s.trilist))]
                extra_ = (sp_[tri_] * rng.dirichlet(np.ones(3))[:, None]).sum(0)
            else:
                extra_ = sp_.max(0) + rng.uniform(2, 10, 2)
            s = ms.TriMesh(np.vstack([sp_, extra_]), trilist=np.asarray(s.trilist))
            t = ms.PointCloud(np.vstack([np.asarray(t.points, dtype=float), np.asarray(t.points, dtype=float).mean(0) + rng.uniform(-1, 1, 2)]))
            cls = [CachedPWA, CachedPWA, PythonPWA][rng.integers(0, 3)]
        elif kind == "PWA_degenerate_triangle":
            # the source mesh lists a zero-area triangle (a repeated vertex / a vertex pair used twice) somewhere among the proper
            # ones: it contains no point and changes nothing
            import menpo.shape as ms
            tl = np.asarray(s.trilist)
            a, b = (int(v) for v in rng.choice(len(s.points), 2, replace=False))
            extra = [[a, a, b]] if rng.random() < 0.5 else [[a, b, a]]
            pos = int(rng.integers(0, len(tl) + 1))          # anywhere in the list: before, between or after the proper triangles
            s = ms.TriMesh(s.points, trilist=np.vstack([tl[:pos], np.array(extra, dtype=tl.dtype), tl[pos:]]))
            cls = [CachedPWA, PythonPWA][rng.integers(0, 2)]
        else:
            cls = CachedPWA if kind == "PiecewiseAffine" else PythonPWA
        if kind != "PWA_unused_vertex" and rng.random() < 0.2:
            # target landmarks given as integer pixel positions (when that keeps every triangle's orientation)
            import menpo.shape as ms
            ti = np.round(t.points).astype(np.int64)
            tl_ = np.asarray(s.trilist)
            a2, b2 = gen.tri_area2(s.points, tl_), gen.tri_area2(ti.astype(float), tl_)
            proper = np.abs(a2) > 1e-9
            if (np.sign(a2[proper]) == np.sign(b2[proper])).all() and np.abs(b2[proper]).min() > 1.0:
                t = ms.PointCloud(ti)
        if kind not in ("PWA_degenerate_triangle", "PWA_unused_vertex") and rng.random() < 0.3:
            # the source is a mesh in its own right - its own triangle list (one edge flipped: not the Delaunay one), coloured
            # or textured or plain: "the triangulation on the TriMesh is used"
            import menpo.shape as ms
            tl_f = flip_an_edge(rng, s.points, np.asarray(t.points, dtype=float), s.trilist)
            if tl_f is not None:
                mk = int(rng.integers(0, 3))
                if mk == 0:
                    s = ms.TriMesh(s.points, trilist=tl_f)
                elif mk == 1:
                    s = ms.ColouredTriMesh(s.points, trilist=tl_f, colours=rng.random((len(s.points), 3)))
                else:
                    from menpo.image import Image
                    s = ms.TexturedTriMesh(s.points, rng.random((len(s.points), 2)), Image(rng.random((1, 5, 6))), trilist=tl_f)
        given_tl = np.array(s.trilist, copy=True)
        if kind != "PWA_unused_vertex" and rng.random() < 0.25:
            # the target handed over as a mesh with a triangulation of its own (other triangles, other row order): "the trilist is
            # entirely decided by the source"
            import menpo.shape as ms
            from scipy.spatial import Delaunay
            own = Delaunay(np.asarray(t.points, dtype=float)).simplices.astype(np.int64)
            own = own[rng.permutation(len(own))][:, rng.permutation(3)]
            t = ms.TriMesh(np.asarray(t.points), trilist=own)

        def build():
            # (the live object gets its own copies: the recipe's closure must not share the point clouds the object holds)
            o = cls(s.copy(), t.copy())
            o._vf_given_trilist = given_tl          # the triangles of the source as handed over (read by the reference map)
            return o
        return build(), build
    if kind == "ThinPlateSplines":
        s, t = tps_pair(rng)
        if rng.random() < 0.2:
            # source landmarks given as integer pixel positions (an integer-typed point cloud)
            import menpo.shape as ms
            si = np.round(s.points).astype(np.int64)
            if len(np.unique(si, axis=0)) == len(si):
                s = ms.PointCloud(si)
        k = int(rng.integers(0, 3))
        msv = [1e-4, 1e-6, 1e-3][rng.integers(0, 3)]

        def build():
            kern = [None, R2LogR2RBF(s.points.copy()), R2LogRRBF(s.points.copy())][k]
            return mt.ThinPlateSplines(s.copy(), t.copy(), kernel=kern, min_singular_val=msv)
        if rng.random() < 0.3:
            # another spline on the very same source landmarks was built earlier in this process - with the other kernel
            # (two models of one annotation set): it is none of this one's business
            mt.ThinPlateSplines(s.copy(), t.copy(), kernel=[R2LogRRBF(s.points.copy()), None, R2LogR2RBF(s.points.copy())][k], min_singular_val=msv)
        return build(), build
    if kind in ("R2LogR2RBF", "R2LogRRBF"):
        from menpo.transform import rbf
        c = rng.uniform(-0.8 * BOX, 0.8 * BOX, (int(rng.integers(2, 9)), d))
        cls = getattr(rbf, kind)
        return cls(c.copy()), (lambda: cls(c.copy()))
    if kind == "WithDims":
        if d == 3:
            dims = [[0, 1], [1, 2], [2, 0, 1], [0, 2], np.array([True, False, True]), [True, True, False], np.array([2, 0])][rng.integers(0, 7)]
        else:
            dims = [[1, 0], [0, 1], [0], np.array([False, True]), [True, True]][rng.integers(0, 5)]
        if rng.random() < 0.4:
            # selectors relative to the width of whatever they are applied to
            dims = [-1, slice(1, None), [-2, -1], slice(None, None, -1), slice(0, 2), [0, -1]][rng.integers(0, 6)]
        return mt.WithDims(dims), (lambda: mt.WithDims(dims))
    if kind == "ChainWithIdentityMember":
        # a chain one of whose members does nothing (an init_identity seed, an alignment of a shape with itself)
        import menpo.shape as ms
        a, ra = make(rng, ["Affine", "Similarity", "Rotation", "NonUniformScale"][rng.integers(0, 4)], d)
        b, rb = make(rng, ["Translation", "Affine", "UniformScale"][rng.integers(0, 3)], d)
        which = int(rng.integers(0, 3))
        pts = gen.general_position(rng, 5, d)

        def ident():
            if which == 0:
                return mt.Translation.init_identity(d)
            if which == 1:
                return mt.AlignmentSimilarity(ms.PointCloud(pts.copy()), ms.PointCloud(pts.copy()))
            return mt.Affine.init_identity(d)
        pos = int(rng.integers(0, 3))

        def build():
            m = [ra(), rb()]
            m.insert(pos, ident())
            return mt.TransformChain(m)
        return build(), build
    if kind == "TransformChain":
        k = int(rng.integers(2, 5))
        pool = ["Affine", "Similarity", "Rotation", "Translation", "UniformScale", "NonUniformScale", "Homogeneous",
                "AlignmentSimilarity"]
        parts = [make(rng, pool[rng.integers(0, len(pool))], d) for _ in range(k)]
        if d == 2 and rng.random() < 0.35:
            parts.insert(0, make(rng, ["ThinPlateSplines", "PiecewiseAffine"][rng.integers(0, 2)], d))
        nest = len(parts) >= 3 and rng.random() < 0.3
        cut = int(rng.integers(1, len(parts) - 1)) if nest else None

        def assemble(members):
            # a chain may itself be a member of a chain (what composing a warp with a chain builds)
            if nest:
                return mt.TransformChain(members[:cut] + [mt.TransformChain(members[cut:])])
            return mt.TransformChain(members)
        chain = assemble([p[0] for p in parts])
        # (live member, recipe) pairs, read by histories that reparameterise a member - kept beside the object, not on it
        # (closures cannot be pickled, and the object must stay what menpo built)
        if len(CHAIN_PARTS) > 2000:
            CHAIN_PARTS.clear()
        CHAIN_PARTS[id(chain)] = (chain, parts, assemble)
        return chain, (lambda: assemble([p[1]() for p in parts]))
    if kind.startswith("identity:"):
        import menpo.transform as mt2
        cls = getattr(mt2, kind.split(":")[1])
        return cls.init_identity(d), (lambda: cls.init_identity(d))
    seed = int(rng.integers(0, 2 ** 31))

    def build():
        return gen.transform(np.random.default_rng(seed), kind, d)
    return build(), build


def reparameterise(rng, t, kind, d):
    """Replace the parameters of t after construction (parameter vector of another random member / a new target).
    Returns the object carrying the new parameters (t itself or a from_vector result), or None when not possible here."""
    import menpo.shape as ms
    import menpo.transform as mt
    from menpo.transform.piecewiseaffine.base import AbstractPWA
    if isinstance(t, (AbstractPWA, mt.ThinPlateSplines)):
        p = t.target.points + rng.normal(scale=0.15, size=t.target.points.shape)
        if isinstance(t, AbstractPWA):
            tl = np.asarray(t.source.trilist)
            if not (np.sign(gen.tri_area2(t.source.points, tl)) == np.sign(gen.tri_area2(p, tl))).all():
                return None
        t.set_target(ms.PointCloud(p))
        return t
    if not isinstance(t, mt.Homogeneous) or type(t) is mt.Homogeneous and t.h_matrix.shape[0] != t.h_matrix.shape[1]:
        return None
    if is_alignment(t) and rng.random() < 0.5:
        t.set_target(ms.PointCloud(t.target.points + rng.normal(scale=0.5, size=t.target.points.shape)))
        return t
    try:
        t2, _ = make(rng, kind, d)
        v = np.array(t2.as_vector())
        how = int(rng.integers(0, 3))
        if how == 0:
            return t.from_vector(v)
        t._from_vector_inplace(v) if how == 1 else t.from_vector_inplace(v)
        return t
    except Exception:
        return None


def is_alignment(t):
    from menpo.transform.base import Alignment
    return isinstance(t, Alignment)


def probe(rng, d, n=9, box=0.7 * BOX):
    """Probe points in general position inside the inner box."""
    for _ in range(50):
        p = rng.uniform(-box, box, (n, d))
        s = np.linalg.svd(p - p.mean(0), compute_uv=False)
        if n <= d or s[-1] > 0.1 * s[0]:
            return p
    return p


def in_dim(t, default):
    """Input dimensionality of a transform (None for dimension-agnostic ones)."""
    try:
        nd = t.n_dims
    except Exception:
        nd = None
    return nd if nd is not None else default


def safe_apply(t, pts):
    """Apply to an array point by point group; returns (values, ok_mask): points outside a PWA domain are dropped."""
    from menpo.transform.piecewiseaffine.base import TriangleContainmentError
    try:
        return np.asarray(t.apply(pts)), np.ones(len(pts), dtype=bool)
    except TriangleContainmentError:
        ok = np.zeros(len(pts), dtype=bool)
        out = None
        for i in range(len(pts)):
            try:
                v = np.asarray(t.apply(pts[i:i + 1]))
                if out is None:
                    out = np.zeros((len(pts), v.shape[1]))
                out[i] = v[0]
                ok[i] = True
            except TriangleContainmentError:
                pass
        if out is None:
            out = np.zeros((len(pts), pts.shape[1]))
        return out, ok


def honest(t, tol=1e-8):
    """Problems with the claim 'this object is a <its class>' (empty list = honest).  Reflections count as rotations here."""
    import menpo.transform as mt
    probs = []
    if not isinstance(t, mt.Homogeneous):
        return ["not homogeneous"]
    h = np.asarray(t.h_matrix, dtype=float)
    if h.ndim != 2 or not np.isfinite(h).all():
        return ["malformed matrix"]
    if h.shape[0] != h.shape[1]:
        # a projection between spaces of different dimension: legal for the plain Homogeneous class only
        return [] if type(t) is mt.Homogeneous else ["non-square matrix in a class that is an endomorphism"]
    d = h.shape[0] - 1
    L, tr = h[:d, :d], h[:d, d]
    s = max(1e-12, np.abs(L).max())
    if isinstance(t, mt.Affine):
        if _amax(h[d, :d]) > tol or abs(h[d, d] - 1) > tol:
            probs.append("Affine with bottom row %s" % h[d].tolist())
    if isinstance(t, mt.Similarity):
        g = L.T @ L
        k = np.trace(g) / d
        if _amax(g - k * np.eye(d)) > 1e-7 * max(k, 1e-12):
            probs.append("Similarity whose linear part is not a scaled orthogonal matrix")
    if isinstance(t, mt.Rotation):
        if _amax(L.T @ L - np.eye(d)) > 1e-7:
            probs.append("Rotation whose matrix is not orthogonal")
        if _amax(tr) > 1e-7 * max(1.0, s):
            probs.append("Rotation with a translation")
    if isinstance(t, mt.Translation):
        if _amax(L - np.eye(d)) > 1e-9:
            probs.append("Translation whose linear part is not the identity")
    if isinstance(t, mt.UniformScale):
        if _amax(L - L[0, 0] * np.eye(d)) > 1e-9 * s or _amax(tr) > 1e-9 * max(1.0, s):
            probs.append("UniformScale that is not s*I without translation")
    if isinstance(t, mt.NonUniformScale):
        if _amax(L - np.diag(np.diag(L))) > 1e-9 * s or _amax(tr) > 1e-9 * max(1.0, s):
            probs.append("NonUniformScale that is not diagonal without translation")
    return probs


def maxdiff(a, b):
    a, b = np.asarray(a, dtype=float), np.asarray(b, dtype=float)
    if a.shape != b.shape:
        return float("inf")
    if a.size == 0:
        return 0.0
    na, nb = np.isnan(a), np.isnan(b)
    if na.any() or nb.any():
        if (na != nb).any():
            return float("inf")          # a missing value on one side only
        if na.all():
            return 0.0
        a, b = a[~na], b[~nb]
    with np.errstate(invalid="ignore"):
        d = np.abs(a - b)
    d = np.where(a == b, 0.0, d)         # equal infinities are equal
    m = float(d.max())
    return m if m == m else float("inf")


def bystander_history(rng, t, d=None, n=None):
    """A history of *non-mutating* public operations on the live transform t (results discarded): composing it, out of
    place, with members of other classes, taking its pseudoinverse, copying it, applying it, reading its vector.  None of
    these is documented to change t, so whatever is done with t afterwards must be as if they had never happened.
    Returns the names of the operations that ran."""
    import menpo.transform as mt
    done = []
    if d is None:
        d = in_dim(t, 2)
    h = getattr(t, "h_matrix", None)
    homog = h is not None and h.shape == (d + 1, d + 1)
    menu = ([0, 1, 2] if homog else []) + ([3, 3] if hasattr(t, "pseudoinverse") else []) + [4, 5] + ([6] if hasattr(t, "as_vector") else []) + ([7, 7] if isinstance(t, mt.TransformChain) else [])
    for _ in range(int(rng.integers(1, 4)) if n is None else n):
        k = int(menu[rng.integers(0, len(menu))])
        try:
            if k <= 2 and h is not None and h.shape == (d + 1, d + 1):
                other = [lambda: mt.Translation(rng.uniform(-6, 6, d)), lambda: mt.UniformScale(float(rng.uniform(0.5, 2.0)), d),
                         lambda: mt.NonUniformScale(rng.uniform(0.5, 2.0, d)), lambda: gen.transform(rng, "Affine", d),
                         lambda: mt.Rotation(gen.rotation_matrix(rng, d))][int(rng.integers(0, 5))]()
                if k == 0:
                    t.compose_before(other); done.append("compose_before")
                elif k == 1:
                    t.compose_after(other); done.append("compose_after")
                else:
                    other.compose_before(t); other.compose_after(t); done.append("composed_by_another")
            elif k == 3:
                t.pseudoinverse(); done.append("pseudoinverse")
            elif k == 4:
                t.copy(); done.append("copy")
            elif k == 5:
                safe_apply(t, probe(rng, d, n=5)); done.append("apply")
            elif k == 7:
                # a longer chain derived from this one, out of place
                other = mt.Translation(rng.uniform(-6, 6, d)) if rng.random() < 0.6 else mt.TransformChain([mt.UniformScale(float(rng.uniform(0.5, 2.0)), d)])
                (t.compose_before if rng.random() < 0.5 else t.compose_after)(other); done.append("chain_derived")
            elif hasattr(t, "as_vector"):
                t.as_vector(); done.append("as_vector")
        except Exception:
            pass
    return done


def composed(rng, t, kind, d):
    """t composed (in place or not) with another member it composes in place with - a product that keeps t's class.
    Returns (product, how) or (t, None) when no such partner can be built here."""
    import menpo.transform as mt
    if not isinstance(t, mt.Homogeneous) or t.h_matrix.shape[0] != t.h_matrix.shape[1]:
        return t, None
    pool = [kind, "UniformScale", "Translation", "Rotation", "NonUniformScale", "Similarity", "Affine"]
    rng.shuffle(pool)
    for k in pool:
        try:
            other, _ = make(rng, k, d)
            if not isinstance(other, t.composes_inplace_with):
                continue
            how = ["compose_before", "compose_after", "compose_before_inplace", "compose_after_inplace"][int(rng.integers(0, 4))]
            r = getattr(t, how)(other)
            return (t if how.endswith("inplace") else r), how
        except Exception:
            continue
    return t, None


def flip_an_edge(rng, s_pts, t_pts, tl):
    """The same triangulated region with one interior edge replaced by the other diagonal of its (convex) quadrilateral -
    a perfectly good mesh that is no longer the Delaunay triangulation of its points.  None when no edge can be flipped
    while keeping the source -> target deformation fold-free."""
    tl = np.asarray(tl)
    edges = {}
    for ti, (a, b, c) in enumerate(tl.tolist()):
        for u, v, o in ((a, b, c), (b, c, a), (c, a, b)):
            edges.setdefault(tuple(sorted((u, v))), []).append((ti, o))
    inner = [(e, x) for e, x in edges.items() if len(x) == 2]
    rng.shuffle(inner)
    for (u, v), ((t1, o1), (t2, o2)) in inner:
        new = np.array([[o1, u, o2], [o1, o2, v]], dtype=tl.dtype)
        a_s, a_t = gen.tri_area2(s_pts, new), gen.tri_area2(np.asarray(t_pts, dtype=float), new)
        if np.sign(a_s[0]) != np.sign(a_s[1]) or np.abs(a_s).min() < 4.0:
            continue          # not a convex quadrilateral (or a sliver)
        if (np.sign(a_s) != np.sign(a_t)).any() or np.abs(a_t).min() < 2.0:
            continue
        out = tl.copy()
        out[t1], out[t2] = new[0], new[1]
        return out
    return None
