"""pytest plugin for the suite-replay workload: the repository's own tests run with a property's monitors attached.

Same inputs as the tests, stronger oracle.  Activated with  -p vf.pytest_taps  and the environment variables
VF_REPLAY_PROP (property id), VF_REPLAY_OUT (dump file), VF_REPLAY_TIER, VF_REPLAY_SEED.
"""
import importlib
import json
import os
import sys
import time

_STATE = {}


def pytest_configure(config):
    pid = os.environ.get("VF_REPLAY_PROP")
    if not pid:
        return
    from vf.core import Ctx, DEPS
    if os.path.isdir(DEPS) and DEPS not in sys.path:
        sys.path.append(DEPS)
    import warnings
    warnings.simplefilter("ignore")
    mod = importlib.import_module("props." + pid.lower())
    ctx = Ctx(pid, os.environ.get("VF_REPLAY_TIER", "thorough"), int(os.environ.get("VF_REPLAY_SEED", "0")), 0, 1)
    ctx.param = {}
    ctx.begin("suite_replay", 0)
    _STATE.update({"ctx": ctx, "mod": mod, "t0": time.time(), "tests": 0})
    if hasattr(mod, "setup"):
        mod.setup(ctx)


def pytest_runtest_setup(item):
    if "ctx" in _STATE:
        _STATE["tests"] += 1
        _STATE["ctx"].events = []
        _STATE["ctx"].event(test=item.nodeid)
        # shadow tables of the property modules are per case: a test is a case
        mod = _STATE["mod"]
        for hook in ("replay_case_begin",):
            if hasattr(mod, hook):
                getattr(mod, hook)()


def pytest_sessionfinish(session, exitstatus):
    if "ctx" not in _STATE:
        return
    ctx = _STATE["ctx"]
    ctx.begin("suite_replay", 0)
    judged = sum(t.get("checked", 0) for t in ctx.taps.values())
    ctx.count_case(("suite_replay", _STATE["tests"]), nontrivial=judged > 0,
                   sample={"workload": "suite_replay", "tests_run": _STATE["tests"], "events_judged": judged})
    ctx.counters["suite_replay_tests"] = _STATE["tests"]
    ctx.counters["suite_replay_events_judged"] = judged
    d = ctx.dump()
    d["status"] = "ok"
    d["wall_s"] = time.time() - _STATE["t0"]
    with open(os.environ["VF_REPLAY_OUT"], "w") as f:
        json.dump(d, f)
