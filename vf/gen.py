"""Seeded generators over the domains the properties quantify over."""
from collections import OrderedDict

import numpy as np
import scipy.sparse as sp

SHAPE_CLASSES = ["PointCloud", "TriMesh", "ColouredTriMesh", "TexturedTriMesh", "PointUndirectedGraph",
                 "PointDirectedGraph", "PointTree", "LabelledPointUndirectedGraph"]


# ------------------------------------------------------------------------------ points
def points(rng, n, d, scale=10.0, min_sep=0.05, centred=False):
    """n points in d dims, pairwise separated (non-degenerate), bounded (inside [-scale, scale]^d when centred)."""
    for _ in range(50):
        p = rng.uniform(-1.0, 1.0, size=(n, d)) * scale + (0 if centred else rng.uniform(-1, 1, size=d) * scale * 0.5)
        if n < 2:
            return p
        diff = p[:, None, :] - p[None, :, :]
        dist = np.sqrt((diff ** 2).sum(-1)) + np.eye(n) * 1e9
        if dist.min() > min_sep * scale:
            return p
    return p


def general_position(rng, n, d, scale=10.0):
    """Points whose centred coordinates have full rank with a decent smallest singular value."""
    for _ in range(100):
        p = points(rng, n, d, scale)
        if n <= d:
            return p
        s = np.linalg.svd(p - p.mean(0), compute_uv=False)
        if s[-1] > 0.15 * s[0]:
            return p
    return p


def hostile_array(rng, a, kind=None):
    """The same values as a non-contiguous / Fortran / read-only array (dtype kept)."""
    kind = kind if kind is not None else rng.integers(0, 4)
    if kind == 0:
        return a.copy()
    if kind == 1:
        big = np.zeros((a.shape[0] * 2,) + a.shape[1:], dtype=a.dtype)
        big[::2] = a
        return big[::2]
    if kind == 2:
        return np.asfortranarray(a)
    b = a.copy()
    b.flags.writeable = False
    return b


# ------------------------------------------------------------------------------ graphs
def random_tree_edges(rng, n):
    """Directed edges parent->child of a random rooted tree with random labelling; returns (edges, root)."""
    perm = rng.permutation(n)
    edges = []
    for k in range(1, n):
        parent = perm[rng.integers(0, k)]
        edges.append((int(parent), int(perm[k])))
    return edges, int(perm[0])


def random_undirected_edges(rng, n, p=None):
    p = rng.uniform(0.1, 0.7) if p is None else p
    e = [(i, j) for i in range(n) for j in range(i + 1, n) if rng.random() < p]
    return e


def random_directed_edges(rng, n, p=None, antiparallel=True):
    p = rng.uniform(0.1, 0.5) if p is None else p
    e = []
    for i in range(n):
        for j in range(n):
            if i == j:
                continue
            if rng.random() < p:
                if not antiparallel and (j, i) in e:
                    continue
                e.append((i, j))
    return e


def adjacency(n, edges, symmetric, weights=None, dense=False, stored_zeros=None):
    """stored_zeros: pairs that are *not* edges but are stored explicitly (value 0) in the sparse matrix."""
    a = np.zeros((n, n), dtype=float if weights is not None else int)
    for k, (i, j) in enumerate(edges):
        w = 1 if weights is None else weights[k]
        a[i, j] = w
        if symmetric:
            a[j, i] = w
    if dense:
        return a
    if stored_zeros:
        rows, cols = np.nonzero(a)
        data = a[rows, cols]
        gr = [i for i, j in stored_zeros if a[i, j] == 0] + ([j for i, j in stored_zeros if a[i, j] == 0] if symmetric else [])
        gc = [j for i, j in stored_zeros if a[i, j] == 0] + ([i for i, j in stored_zeros if a[i, j] == 0] if symmetric else [])
        return sp.csr_matrix((np.concatenate([data, np.zeros(len(gr), dtype=a.dtype)]), (np.concatenate([rows, gr]).astype(int), np.concatenate([cols, gc]).astype(int))), shape=(n, n))
    return sp.csr_matrix(a)


# ------------------------------------------------------------------------------ meshes
def trilist_for(rng, pts, kind=None):
    """A triangle list over pts.  kinds: delaunay, random (arbitrary, possibly non-manifold), fan."""
    from scipy.spatial import Delaunay
    n, d = pts.shape
    kind = kind or ("delaunay" if d == 2 and rng.random() < 0.5 else "random")
    if kind == "delaunay" and d == 2 and n >= 3:
        try:
            return np.array(Delaunay(pts).simplices, dtype=np.int64)
        except Exception:
            pass
    m = int(rng.integers(1, max(2, 2 * n)))
    tris = set()
    for _ in range(m):
        t = tuple(int(v) for v in rng.choice(n, 3, replace=False))
        tris.add(t)
    return np.array(sorted(tris), dtype=np.int64)


def cover_all_vertices(rng, n, tl):
    """Extend a trilist so every vertex belongs to some triangle."""
    used = set(tl.ravel().tolist())
    extra = []
    for v in range(n):
        if v not in used:
            others = [int(o) for o in rng.choice([u for u in range(n) if u != v], 2, replace=False)]
            extra.append([v] + others)
    if extra:
        tl = np.vstack([tl, np.array(extra, dtype=tl.dtype)])
    return tl


# ------------------------------------------------------------------------------ shapes
def shape(rng, cls=None, d=2, n=None, with_landmarks=0, lm_classes=None, dtype=float, scale=10.0, centred=False):
    """A random instance of one of the eight shape classes, optionally with landmark groups."""
    import menpo.shape as ms
    from menpo.image import Image
    cls = cls or SHAPE_CLASSES[rng.integers(0, len(SHAPE_CLASSES))]
    n = n or int(rng.integers(4, 12))
    pts = points(rng, n, d, scale=scale, centred=centred).astype(dtype)
    if cls == "PointCloud":
        s = ms.PointCloud(pts)
    elif cls in ("TriMesh", "ColouredTriMesh", "TexturedTriMesh"):
        tl = cover_all_vertices(rng, n, trilist_for(rng, pts))
        if cls == "TriMesh":
            s = ms.TriMesh(pts, trilist=tl)
        elif cls == "ColouredTriMesh":
            s = ms.ColouredTriMesh(pts, trilist=tl, colours=rng.random((n, 3)))
        else:
            tex = Image(rng.random((int(rng.integers(1, 4)), 6, 7)))
            s = ms.TexturedTriMesh(pts, rng.random((n, 2)), tex, trilist=tl)
    elif cls == "PointUndirectedGraph":
        s = ms.PointUndirectedGraph(pts, adjacency(n, random_undirected_edges(rng, n), True))
    elif cls == "PointDirectedGraph":
        s = ms.PointDirectedGraph(pts, adjacency(n, random_directed_edges(rng, n), False))
    elif cls == "PointTree":
        e, root = random_tree_edges(rng, n)
        s = ms.PointTree(pts, adjacency(n, e, False), root)
    elif cls == "LabelledPointUndirectedGraph":
        s = ms.LabelledPointUndirectedGraph(pts, adjacency(n, random_undirected_edges(rng, n), True),
                                            label_masks(rng, n))
    else:
        raise ValueError(cls)
    for g in range(with_landmarks):
        lc = (lm_classes or SHAPE_CLASSES)[rng.integers(0, len(lm_classes or SHAPE_CLASSES))]
        s.landmarks["g%d_%s" % (g, lc)] = shape(rng, lc, d=d, n=int(rng.integers(3, 8)), scale=scale, centred=centred)
    return s


def label_masks(rng, n, k=None):
    """OrderedDict label -> bool mask; overlapping, covering all points, no empty label."""
    k = k or int(rng.integers(1, 6))
    names = ["lab%d" % i for i in rng.permutation(k + 3)[:k]]
    masks = OrderedDict()
    for name in names:
        m = rng.random(n) < rng.uniform(0.2, 0.8)
        if not m.any():
            m[rng.integers(0, n)] = True
        masks[str(name)] = m
    cover = np.sum(list(masks.values()), axis=0) > 0
    for i in np.nonzero(~cover)[0]:
        masks[names[rng.integers(0, k)]][i] = True
    return masks


# ------------------------------------------------------------------------------ linear maps
def flag(rng, p):
    """A documented boolean option, spelled the way callers spell it: True/False, a numpy bool (the result of a
    comparison), 1/0."""
    v = bool(rng.random() < p)
    k = int(rng.integers(0, 4))
    return v if k < 2 else np.bool_(v) if k == 2 else int(v)


def well_conditioned(rng, d, lo=0.4, hi=2.5):
    """d x d matrix with singular values in [lo, hi] (either orientation)."""
    u, _ = np.linalg.qr(rng.normal(size=(d, d)))
    v, _ = np.linalg.qr(rng.normal(size=(d, d)))
    s = rng.uniform(lo, hi, size=d)
    return u @ np.diag(s) @ v.T


def rotation_matrix(rng, d, mirror=False):
    q, r = np.linalg.qr(rng.normal(size=(d, d)))
    q = q @ np.diag(np.sign(np.diag(r)))
    if (np.linalg.det(q) < 0) != mirror:
        q[:, 0] = -q[:, 0]
    return q


HOMOG_KINDS = ["Homogeneous", "Affine", "Similarity", "Rotation", "Translation", "UniformScale", "NonUniformScale",
               "AlignmentAffine", "AlignmentSimilarity", "AlignmentRotation", "AlignmentTranslation",
               "AlignmentUniformScale"]
OTHER_KINDS = ["TransformChain", "ThinPlateSplines", "PiecewiseAffine", "WithDims"]


def src_tgt(rng, d, n=None):
    import menpo.shape as ms
    n = n or int(rng.integers(d + 2, 9))
    tp = general_position(rng, n, d)
    r = rng.random()
    if r < 0.15:
        # the target is a shape in its own right (an outline, a mesh): more specific than the bare source
        tgt = ms.PointUndirectedGraph(tp, adjacency(n, random_undirected_edges(rng, n), True))
    elif r < 0.3 and d == 2:
        tgt = ms.TriMesh(tp)
    else:
        tgt = ms.PointCloud(tp)
    return ms.PointCloud(general_position(rng, n, d)), tgt


def transform(rng, kind, d=2, n_align=None):
    """A random transform of the named kind acting on d-dimensional points (finite, well-conditioned)."""
    import menpo.transform as mt
    import menpo.shape as ms
    if kind == "Homogeneous":
        h = np.eye(d + 1)
        h[:d, :d] = well_conditioned(rng, d)
        h[:d, d] = rng.uniform(-5, 5, d)
        h[d, :d] = rng.uniform(-0.002, 0.002, d)  # mildly projective, denominators stay near 1 on our points
        return mt.Homogeneous(h)
    if kind == "WeaklyProjectiveHomogeneous":
        # an almost-affine homography (a slightly tilted camera): the homogeneous coordinate w differs from 1 by 1e-6 ... 1e-4
        h = np.eye(d + 1)
        h[:d, :d] = well_conditioned(rng, d)
        h[:d, d] = rng.uniform(-5, 5, d)
        h[d, :d] = rng.uniform(0.5, 3.0, d) * 10.0 ** rng.uniform(-6.5, -5.0) * rng.choice([-1, 1], d)
        return mt.Homogeneous(h)
    if kind == "NonSquareHomogeneous":
        # a camera-like projection 3D -> 2D or an embedding 2D -> 3D: (n_dims_output + 1) x (n_dims + 1)
        dout = 2 if d == 3 else 3
        h = np.zeros((dout + 1, d + 1))
        h[:dout, :d] = rng.normal(size=(dout, d))
        h[:dout, d] = rng.uniform(-3, 3, dout)
        h[dout, :d] = rng.uniform(-0.002, 0.002, d)
        h[dout, d] = 1.0
        return mt.Homogeneous(h)
    if kind == "SingularLinearHomogeneous":
        # a projective map whose linear block is singular (rank d-1) although the whole matrix is invertible and well conditioned:
        # the denominator stays near 1 on our points; the inverse matrix has a zero in its bottom-right corner
        for _ in range(200):
            h = np.eye(d + 1)
            L = well_conditioned(rng, d)
            u, sv, vt = np.linalg.svd(L)
            sv[-1] = 0.0
            h[:d, :d] = (u * sv) @ vt
            h[:d, d] = rng.uniform(-5, 5, d)
            h[d, :d] = rng.uniform(0.01, 0.03, d) * rng.choice([-1, 1], d)
            if np.linalg.cond(h) < 500:
                return mt.Homogeneous(h)
        return mt.Homogeneous(h)
    if kind == "ScaledHomogeneous":
        # an affine map written with a homogeneous scale w != 1 (the same map as h / w)
        h = np.eye(d + 1)
        h[:d, :d] = well_conditioned(rng, d)
        h[:d, d] = rng.uniform(-5, 5, d)
        return mt.Homogeneous(h * [2.0, 0.5, -3.0, 4.0][rng.integers(0, 4)])
    if kind == "Affine":
        h = np.eye(d + 1)
        h[:d, :d] = well_conditioned(rng, d)
        h[:d, d] = rng.uniform(-5, 5, d)
        return mt.Affine(h)
    if kind == "Similarity":
        h = np.eye(d + 1)
        h[:d, :d] = rotation_matrix(rng, d) * rng.uniform(0.4, 2.5)
        h[:d, d] = rng.uniform(-5, 5, d)
        return mt.Similarity(h)
    if kind == "Rotation":
        return mt.Rotation(rotation_matrix(rng, d))
    if kind == "MirrorRotation":
        # an improper rotation held by a Rotation object (what allow_mirror alignments and SVD decompositions produce)
        return mt.Rotation(rotation_matrix(rng, d, mirror=True))
    if kind in ("IntAffine", "IntHomogeneous", "IntSimilarity"):
        # matrices given as integer arrays (the constructors keep the dtype)
        for _ in range(100):
            h = np.eye(d + 1, dtype=np.int64)
            if kind == "IntSimilarity":
                perm = rng.permutation(d)
                L = np.zeros((d, d), dtype=np.int64)
                L[np.arange(d), perm] = rng.choice([-1, 1], d)
                L = L * int(rng.integers(2, 4))
            else:
                L = rng.integers(-3, 4, (d, d))
            if abs(np.linalg.det(L)) < 1.5 or np.linalg.cond(L.astype(float)) > 8:
                continue
            h[:d, :d] = L
            h[:d, d] = rng.integers(-5, 6, d)
            break
        return {"IntAffine": mt.Affine, "IntHomogeneous": mt.Homogeneous, "IntSimilarity": mt.Similarity}[kind](h)
    if kind == "Translation":
        return mt.Translation(rng.uniform(-5, 5, d))
    if kind == "UniformScale":
        # (a negative factor is a legal member: a point reflection; only zero is refused)
        return mt.UniformScale(float(rng.uniform(0.4, 2.5)) * (-1.0 if rng.random() < 0.2 else 1.0), d)
    if kind == "NonUniformScale":
        sc = rng.uniform(0.4, 2.5, d)
        if rng.random() < 0.2:
            sc[rng.integers(0, d)] *= -1.0          # a mirrored axis
        return mt.NonUniformScale(sc)
    if kind.startswith("Alignment"):
        s, t = src_tgt(rng, d, n_align)
        if kind == "AlignmentSimilarity":
            return mt.AlignmentSimilarity(s, t, rotation=bool(rng.random() < 0.8), allow_mirror=bool(rng.random() < 0.3))
        if kind == "AlignmentRotation":
            return mt.AlignmentRotation(s, t, allow_mirror=bool(rng.random() < 0.3))
        return getattr(mt, kind)(s, t)
    if kind == "TransformChain":
        k = int(rng.integers(2, 5))
        pool = ["Affine", "Similarity", "Rotation", "Translation", "UniformScale", "NonUniformScale", "Homogeneous"]
        if d == 2 and rng.random() < 0.3:
            pool = pool + ["ThinPlateSplines"]
        return mt.TransformChain([transform(rng, pool[rng.integers(0, len(pool))], d) for _ in range(k)])
    if kind == "ThinPlateSplines":
        if d != 2:
            raise NotImplementedError("TPS is 2D only")
        s, t = tps_pair(rng)
        from menpo.transform.rbf import R2LogR2RBF, R2LogRRBF
        kern = [None, R2LogR2RBF(s.points), R2LogRRBF(s.points)][rng.integers(0, 3)]
        return mt.ThinPlateSplines(s, t, kernel=kern)
    if kind == "PiecewiseAffine":
        if d != 2:
            raise NotImplementedError("PWA is 2D only")
        s, t = pwa_pair(rng)
        return mt.PiecewiseAffine(s, t)
    if kind == "WithDims":
        raise NotImplementedError
    raise ValueError(kind)


def tps_pair(rng, n=None):
    """Source/target landmark sets for a smooth thin-plate spline (target = mild deformation of source)."""
    import menpo.shape as ms
    n = n or int(rng.integers(5, 12))
    s = general_position(rng, n, 2)
    a = np.eye(2) + rng.uniform(-0.2, 0.2, (2, 2))
    t = s @ a.T + rng.uniform(-3, 3, 2) + rng.normal(scale=0.4, size=s.shape)
    return ms.PointCloud(s), ms.PointCloud(t)


def pwa_pair(rng, n=None):
    """Source TriMesh (Delaunay, non-degenerate triangles) and a target with the same orientation of triangles."""
    import menpo.shape as ms
    from scipy.spatial import Delaunay
    n = n or int(rng.integers(5, 12))
    for _ in range(200):
        s = general_position(rng, n, 2)
        tl = Delaunay(s).simplices.astype(np.int64)
        a = np.eye(2) + rng.uniform(-0.25, 0.25, (2, 2))
        t = s @ a.T + rng.uniform(-3, 3, 2) + rng.normal(scale=0.3, size=s.shape)
        if tri_area2(s, tl).__abs__().min() > 2.0 and (np.sign(tri_area2(s, tl)) == np.sign(tri_area2(t, tl))).all() \
                and np.abs(tri_area2(t, tl)).min() > 1.0:
            return ms.TriMesh(s, trilist=tl), ms.TriMesh(t, trilist=tl)
    return ms.TriMesh(s, trilist=tl), ms.TriMesh(s @ a.T, trilist=tl)


def tri_area2(p, tl):
    a, b, c = p[tl[:, 0]], p[tl[:, 1]], p[tl[:, 2]]
    return (b[:, 0] - a[:, 0]) * (c[:, 1] - a[:, 1]) - (b[:, 1] - a[:, 1]) * (c[:, 0] - a[:, 0])


def points_inside_mesh(rng, mesh_points, tl, n, margin=0.05):
    """n points strictly inside random triangles of the mesh (barycentric weights >= margin)."""
    out = []
    tl = np.asarray(tl)
    proper = np.abs(tri_area2(np.asarray(mesh_points, dtype=float), tl)) > 1e-9 if np.asarray(mesh_points).shape[1] == 2 else np.ones(len(tl), dtype=bool)
    tl = tl[proper] if proper.any() else tl
    for _ in range(n):
        t = tl[rng.integers(0, len(tl))]
        w = rng.dirichlet(np.ones(3)) * (1 - 3 * margin) + margin
        out.append(w @ mesh_points[t])
    return np.array(out)


# ------------------------------------------------------------------------------ images
def image(rng, cls="Image", shape=None, n_channels=None, dtype=np.float64, mask_kind=None, d=2):
    import menpo.image as mi
    shape = tuple(shape) if shape is not None else tuple(int(v) for v in rng.integers(6, 20, size=d))
    c = n_channels or int(rng.integers(1, 5))
    if np.issubdtype(np.dtype(dtype), np.integer):
        px = rng.integers(0, 255, size=(c,) + shape).astype(dtype)
    elif np.dtype(dtype) == bool:
        px = rng.random((c,) + shape) < 0.5
    else:
        px = rng.random((c,) + shape).astype(dtype)
    if cls == "Image":
        return mi.Image(px)
    if cls == "MaskedImage":
        return mi.MaskedImage(px, mask=mask(rng, shape, mask_kind))
    if cls == "BooleanImage":
        return mi.BooleanImage(mask(rng, shape, mask_kind or "random"))
    raise ValueError(cls)


def mask(rng, shape, kind=None):
    kind = kind or ["all", "random", "halfplane", "single", "block"][rng.integers(0, 5)]
    if kind == "all":
        return np.ones(shape, dtype=bool)
    if kind == "none":
        return np.zeros(shape, dtype=bool)
    if kind == "random":
        m = rng.random(shape) < rng.uniform(0.3, 0.8)
    elif kind == "single":
        m = np.zeros(shape, dtype=bool)
    elif kind == "block":
        m = np.zeros(shape, dtype=bool)
        lo = [int(rng.integers(0, max(1, s // 2))) for s in shape]
        hi = [int(rng.integers(l + 1, s + 1)) for l, s in zip(lo, shape)]
        m[tuple(slice(l, h) for l, h in zip(lo, hi))] = True
    else:
        grids = np.meshgrid(*[np.arange(s) for s in shape], indexing="ij")
        w = rng.normal(size=len(shape))
        c = np.array(shape) / 2.0
        m = sum(wi * (g - ci) for wi, g, ci in zip(w, grids, c)) > rng.uniform(-1, 1)
    if not m.any():
        m[tuple(int(rng.integers(0, s)) for s in shape)] = True
    return m
