"""Shared sensors for the alignment properties (C07, C08): constructor-option shadow table and family judges."""
import numpy as np

from vf.tx import amax as _amax

from vf import taps, tx, ref

SHADOW = {}     # id(alignment) -> (alignment (strong ref, cleared per case), options dict)


def clear_shadow():
    SHADOW.clear()


def alignment_classes():
    H = "menpo.transform.homogeneous."
    out = []
    for m, c in ((H + "translation", "AlignmentTranslation"), (H + "scale", "AlignmentUniformScale"),
                 (H + "rotation", "AlignmentRotation"), (H + "similarity", "AlignmentSimilarity"),
                 (H + "affine", "AlignmentAffine"), ("menpo.transform.thinplatesplines", "ThinPlateSplines"),
                 ("menpo.transform.piecewiseaffine.base", "PythonPWA"), ("menpo.transform.piecewiseaffine.base", "CachedPWA")):
        out.append(getattr(taps.mod(m), c))
    return out


def ctor_options(cls, args, kw):
    """Constructor options as the caller gave them (positional or keyword)."""
    name = cls.__name__
    names = {"AlignmentSimilarity": ["rotation", "allow_mirror"], "AlignmentRotation": ["allow_mirror"],
             "ThinPlateSplines": ["kernel", "min_singular_val"]}.get(name, [])
    opts = {}
    extra = list(args[3:])
    for n, v in zip(names, extra):
        opts[n] = v
    for n in names:
        if n in kw:
            opts[n] = kw[n]
    if "kernel" in opts:
        opts["kernel"] = type(opts["kernel"]) if opts["kernel"] is not None else None
    return opts


def rebuild(cls, source, target, opts):
    """A fresh alignment of the same class with the same options (kernels are re-centred on the source)."""
    o = dict(opts)
    given = o.pop("_source_arg", None)
    if given is not None:
        source = given.copy()      # the source exactly as the caller handed it to the constructor (a bare point cloud is triangulated there)
    if "kernel" in o:
        o["kernel"] = o["kernel"](source.points.copy()) if o["kernel"] is not None else None
    return cls(source, target, **o)


def cost(h, src, tgt):
    d = src.shape[1]
    y = src @ h[:d, :d].T + h[:d, d]
    return float(np.linalg.norm(y - tgt))


def judge_family(ctx, t, src, tgt, opts, where):
    """Family-specific optimality / exactness judgement of an alignment t fitted from src to tgt (arrays)."""
    import menpo.transform as mt
    from menpo.transform.piecewiseaffine.base import AbstractPWA
    cls = type(t).__name__
    d = src.shape[1]
    scale = max(1.0, float(np.abs(tgt).max()), float(np.abs(src).max()))
    if isinstance(t, mt.Homogeneous):
        h = np.asarray(t.h_matrix, dtype=float)
        L, tr = h[:d, :d], h[:d, d]
    if isinstance(t, mt.AlignmentTranslation):
        exp = tgt.mean(0) - src.mean(0)
        if _amax(tr - exp) > 1e-9 * scale or _amax(L - np.eye(d)) > 1e-12:
            ctx.fail("translation_alignment_is_not_the_centroid_difference", cls=cls, mech=where)
    elif isinstance(t, mt.AlignmentUniformScale):
        ns, nt = np.linalg.norm(src - src.mean(0)), np.linalg.norm(tgt - tgt.mean(0))
        y = src @ L.T + tr
        if abs(np.linalg.norm(y - y.mean(0)) - nt) > 1e-9 * max(1.0, nt) or _amax(L - L[0, 0] * np.eye(d)) > 1e-12 or _amax(tr) > 1e-12:
            ctx.fail("scale_alignment_does_not_reproduce_the_target_size", cls=cls, mech=where)
    elif isinstance(t, mt.AlignmentAffine):
        a = np.hstack([src, np.ones((len(src), 1))])
        m = h[:d, :].T
        grad = a.T @ (a @ m - tgt)
        g = np.abs(grad).max() / (scale * scale * len(src))
        ctx.err("affine_normal_equation_residual", g)
        if not (g <= 1e-8):
            ctx.fail("affine_alignment_is_not_least_squares_optimal", cls=cls, mech=where, gradient=float(g))
        ls = np.linalg.lstsq(a, tgt, rcond=None)[0]
        # (two optimal solutions of a badly conditioned fit differ by cond x round-off: the optimality itself is judged above)
        cond = float(np.linalg.cond(a / np.abs(a).max(axis=0)))
        ctx.err("affine_fit_condition_number", cond)
        if _amax(ls - m) > max(1e-6, 1e-12 * cond ** 2) * scale:
            ctx.fail("affine_alignment_differs_from_lstsq", cls=cls, mech=where, err=_amax(ls - m), cond=cond)
    elif isinstance(t, mt.AlignmentRotation):
        mirror = bool(opts.get("allow_mirror", False))
        if _amax(L.T @ L - np.eye(d)) > 1e-8 or _amax(tr) > 1e-12:
            ctx.fail("rotation_alignment_is_not_orthogonal", cls=cls, mech=where)
        det = np.linalg.det(L)
        if det < 0 and not mirror:
            ctx.fail("rotation_alignment_is_a_reflection_although_mirroring_was_not_allowed", cls=cls, mech=where)
        r = ref.kabsch(src, tgt, allow_mirror=mirror)
        c_got, c_ref = np.linalg.norm(src @ L.T - tgt), np.linalg.norm(src @ r.T - tgt)
        ctx.err("rotation_cost_excess", (c_got - c_ref) / scale)
        if c_got > c_ref + 1e-8 * scale:
            ctx.fail("rotation_alignment_is_not_least_squares_optimal", cls=cls, mech=where + (":mirror" if mirror else ":proper"),
                     cost=float(c_got), reference_cost=float(c_ref))
        # competitors: random rotations and local perturbations of the answer never do better
        rng = np.random.default_rng(5)
        best = c_got
        for k in range(60):
            if k < 30:
                q, _ = np.linalg.qr(rng.normal(size=(d, d)))
            else:
                w = rng.normal(scale=0.05, size=(d, d))
                q, _ = np.linalg.qr(L + (w - w.T) @ L)
            if not mirror and np.linalg.det(q) < 0:
                q[:, 0] = -q[:, 0]
            best = min(best, np.linalg.norm(src @ q.T - tgt))
        if best < c_got - 1e-8 * scale:
            ctx.fail("a_competitor_rotation_fits_better", cls=cls, mech=where)
    elif isinstance(t, mt.AlignmentSimilarity):
        mirror = bool(opts.get("allow_mirror", False))
        rot = bool(opts.get("rotation", True))
        y = src @ L.T + tr
        if _amax(y.mean(0) - tgt.mean(0)) > 1e-9 * scale:
            ctx.fail("similarity_alignment_does_not_reproduce_the_target_centroid", cls=cls, mech=where)
        nt = np.linalg.norm(tgt - tgt.mean(0))
        if abs(np.linalg.norm(y - y.mean(0)) - nt) > 1e-9 * max(1.0, nt):
            ctx.fail("similarity_alignment_does_not_reproduce_the_target_size", cls=cls, mech=where)
        g = L.T @ L
        k = np.trace(g) / d
        if _amax(g - k * np.eye(d)) > 1e-8 * k:
            ctx.fail("similarity_alignment_linear_part_is_not_a_scaled_rotation", cls=cls, mech=where)
            return
        r_got = L / np.sqrt(k)
        if not rot:
            if _amax(r_got - np.eye(d)) > 1e-9:
                ctx.fail("similarity_alignment_rotates_although_rotation_was_switched_off", cls=cls, mech=where)
            return
        if np.linalg.det(r_got) < 0 and not mirror:
            ctx.fail("similarity_alignment_is_a_reflection_although_mirroring_was_not_allowed", cls=cls, mech=where)
        a = (src - src.mean(0)) * (nt / np.linalg.norm(src - src.mean(0)))
        b = tgt - tgt.mean(0)
        r = ref.kabsch(a, b, allow_mirror=mirror)
        c_got, c_ref = np.linalg.norm(a @ r_got.T - b), np.linalg.norm(a @ r.T - b)
        ctx.err("similarity_rotation_cost_excess", (c_got - c_ref) / scale)
        if c_got > c_ref + 1e-8 * scale:
            ctx.fail("similarity_alignment_does_not_use_the_least_squares_rotation", cls=cls, mech=where + (":mirror" if mirror else ":proper"),
                     cost=float(c_got), reference_cost=float(c_ref))
    elif isinstance(t, mt.ThinPlateSplines):
        q = src
        kk = type(t.kernel)(q.copy()).apply(q.copy())
        pp = np.hstack([np.ones((len(q), 1)), q])
        sv = np.linalg.svd(np.block([[kk, pp], [pp.T, np.zeros((3, 3))]]), compute_uv=False)
        if sv.min() <= 3 * t.min_singular_val:
            ctx.bump("tps_near_singular_floor_not_judged")
            return
        e = tx.maxdiff(t.apply(src.copy()), tgt)
        ctx.err("tps_interpolation", e)
        if not (e <= 1e-7 * scale):
            ctx.fail("spline_does_not_send_source_landmarks_onto_target_landmarks", cls=cls, mech=where, err=e)
    elif isinstance(t, AbstractPWA):
        # (the judges below presuppose a triangulation: when a source vertex lies inside a triangle it is not a corner of - a
        # mesh handed over with overlapping triangles - "the" image of that vertex is not defined; such cases are not judged)
        from vf import refmap as _rm
        sp_, tl_ = np.asarray(t.source.points, dtype=float), np.asarray(t.trilist)
        if len(sp_) * len(tl_) <= 200000:
            w_ = _rm.barycentric(sp_, tl_, sp_)
            in_ = np.nan_to_num(w_.min(-1), nan=-1.0, neginf=-1.0) > 1e-9
            for k_, tri_ in enumerate(tl_):
                in_[tri_, k_] = False
            if in_.any():
                ctx.bump("pwa_sources_with_overlapping_triangles_not_judged")
                return
        e = tx.maxdiff(t.apply(src.copy()), tgt)
        ctx.err("pwa_interpolation", e)
        if not (e <= 1e-7 * scale):
            ctx.fail("pwa_does_not_send_source_landmarks_onto_target_landmarks", cls=cls, mech=where, err=e,
                     source_dtype=str(np.asarray(t.source.points).dtype), target_dtype=str(np.asarray(t.target.points).dtype),
                     source_max=float(np.abs(np.asarray(t.source.points, dtype=float)).max()), target_max=float(np.abs(np.asarray(t.target.points, dtype=float)).max()), n_tris=int(len(t.trilist)))
        tl = np.asarray(t.source.trilist)
        given = opts.get("_source_arg", None) if isinstance(opts, dict) else None
        if given is not None and getattr(given, "trilist", None) is not None and len(given.points) == len(src):
            tl = np.asarray(given.trilist)          # the triangles of the source as the caller handed it over (a mesh keeps its own)
        rng = np.random.default_rng(9)
        # affine inside each triangle: the image of a barycentric combination is the combination of the vertex images
        # (not inside slivers - triangles thousands of times longer than wide -, where barycentric weights carry few digits)
        e1_, e2_ = src[tl[:, 1]] - src[tl[:, 0]], src[tl[:, 2]] - src[tl[:, 0]]
        q_ = np.abs(e1_[:, 0] * e2_[:, 1] - e1_[:, 1] * e2_[:, 0]) / np.maximum(np.maximum((e1_ ** 2).sum(1), (e2_ ** 2).sum(1)), ((e2_ - e1_) ** 2).sum(1))
        tlq = tl[q_ > 1e-4] if (q_ > 1e-4).any() else tl
        k = min(len(tlq), 12)
        sel = tlq[rng.choice(len(tlq), k, replace=False)]
        w = rng.dirichlet(np.ones(3), size=k) * 0.76 + 0.08
        p = np.einsum("kj,kjd->kd", w, src[sel])
        expect = np.einsum("kj,kjd->kd", w, tgt[sel])
        try:
            e = tx.maxdiff(t.apply(p), expect)
            ctx.err("pwa_affine_in_triangle", e)
            if not (e <= 1e-7 * scale):
                ctx.fail("pwa_is_not_affine_inside_a_source_triangle", cls=cls, mech=where, err=e)
            # ... also for a second, minutely different set of interior points asked for right afterwards (the map is
            # affine, not piecewise constant: each point moves by its triangle's linear part times the nudge)
            from vf import refmap
            p2 = p + 2e-6 * np.abs(p) * np.sign(rng.normal(size=p.shape))
            r2 = refmap.reference_apply(t, p2)
            if r2 is not None and r2[1].all():
                e = tx.maxdiff(t.apply(p2.copy()), r2[0])
                ctx.err("pwa_affine_in_triangle_nudged", e)
                if not (e <= 1e-7 * scale):  # same bound as for the first set (thin triangles cost digits); a stale answer is off by ~1e-5
                    ctx.fail("pwa_is_not_affine_inside_a_source_triangle", cls=cls, mech=where + ":nudged_points", err=e)
        except Exception as ex:
            ctx.fail("pwa_rejects_interior_points", cls=cls, mech=where + ":" + type(ex).__name__)
        # continuity across shared edges: points just either side of an interior edge map close together
        edges = {}
        for ti, (a, b, c) in enumerate(tl.tolist()):
            for u, v, o in ((a, b, c), (b, c, a), (c, a, b)):
                edges.setdefault(tuple(sorted((u, v))), []).append(o)
        inner = [(e_, o) for e_, o in edges.items() if len(o) == 2]
        for (u, v), (o1, o2) in inner[:10]:
            lam = rng.uniform(0.25, 0.75)
            m = lam * src[u] + (1 - lam) * src[v]
            eps = 1e-7
            p1 = m + eps * (src[o1] - m)
            p2 = m + eps * (src[o2] - m)
            try:
                y = t.apply(np.vstack([p1, p2]))
                gap = float(np.abs(y[0] - y[1]).max())
                ctx.err("pwa_edge_gap", gap)
                if not (gap <= 1e-5 * scale):
                    ctx.fail("pwa_is_not_continuous_across_an_edge", cls=cls, mech=where, gap=gap)
            except Exception:
                pass
