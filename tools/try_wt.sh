#!/bin/sh
# tools/try_wt.sh <patch.diff> <PID> [check args...]   like try_patch.sh but in the scratch worktree /tmp/wt/dev (never touches /repo).
P="$1"; PID="$2"; shift 2
WT=${WT:-/tmp/wt/dev}
[ -d "$WT" ] || git -C /repo worktree add --detach "$WT" HEAD >/dev/null 2>&1
cd "$WT" || exit 2
git checkout -q -- . ; git clean -fdq
[ "$P" = "-" ] || git apply "$P" || { echo "patch does not apply"; exit 2; }
cd /verif && MENPO_REPO="$WT" ./check "$PID" "$@" > /tmp/try_wt.$$.log 2>&1; rc=$?
cd "$WT" && git checkout -q -- . && git clean -fdq
grep -E "^(VIOLATION|KNOWN|INCONCL|HELD|  violated)" /tmp/try_wt.$$.log | cut -c1-300 | head -${LINES_MAX:-8}
grep -E "tier=" /tmp/try_wt.$$.log | tail -1 | cut -c1-200
[ -n "$KEEPLOG" ] && cp /tmp/try_wt.$$.log "$KEEPLOG"
rm -f /tmp/try_wt.$$.log
echo "rc=$rc"
exit $rc
