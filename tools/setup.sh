#!/bin/sh
# Offline setup after a fresh restore: contracts library beside the repository's interpreter (git-ignored .deps).
cd "$(dirname "$0")/.." || exit 1
if [ ! -d .deps/icontract ]; then
  /venv/bin/pip install --no-index --find-links /opt/veriftools/wheels --target .deps --quiet icontract || exit 1
fi
mkdir -p evidence replays
/venv/bin/python -c "import sys; sys.path.append('.deps'); import icontract; print('icontract', icontract.__version__)"
