#!/usr/bin/env python3
"""Run the owning property's quick check against every archived seeded change; writes seeded/RESULTS.json.
usage: tools/seeded_catch.py [ids...]     (applies each patch to /repo, runs ./check, reverts straight afterwards)"""
import glob, json, os, subprocess, sys
HERE = os.path.dirname(os.path.dirname(os.path.abspath(__file__)))
only = sys.argv[1:]
out_path = os.path.join(HERE, "seeded", "RESULTS.json")
res = json.load(open(out_path)) if os.path.exists(out_path) else {}
for d in sorted(glob.glob(os.path.join(HERE, "seeded", "C??-*"))):
    key = os.path.basename(d)
    if only and key not in only and key[:3] not in only:
        continue
    meta = json.load(open(os.path.join(d, "meta.json")))
    checks = meta.get("checks_to_run") or [meta["property"]]
    assert subprocess.run("git -C /repo status --porcelain", shell=True, capture_output=True, text=True).stdout.strip() == "", "/repo not clean"
    r = {}
    for pid in checks:
        a = subprocess.run(["git", "-C", "/repo", "apply", os.path.join(d, "patch.diff")], capture_output=True, text=True)
        if a.returncode != 0:
            r[pid] = {"status": "patch does not apply"}
            continue
        try:
            p = subprocess.run(["./check", pid, "--tier", "quick"], cwd=HERE, capture_output=True, text=True, timeout=1800)
        finally:
            subprocess.run("git -C /repo checkout -- . && git -C /repo clean -fdq", shell=True)
        clauses = sorted(set(l.split("clause=")[1].split(" ")[0] for l in p.stdout.splitlines() if "violated clause=" in l))
        r[pid] = {"exit": p.returncode, "caught": p.returncode == 1 and "VIOLATION property=" in p.stdout, "clauses": clauses[:8]}
    res[key] = r
    print(key, {k: (v.get("caught"), v.get("clauses", [])[:2]) for k, v in r.items()}, flush=True)
    json.dump(res, open(out_path, "w"), indent=1, sort_keys=True)
