#!/usr/bin/env python3
"""Run the repository's pinned baseline (guard OFF) and compare with /root/.vp/BASELINE.json.

usage: tools/baseline_check.py [-n N]     exit 0 iff every stable_pass test passed.
"""
import json, os, subprocess, sys, tempfile, xml.etree.ElementTree as ET

def main():
    n = sys.argv[sys.argv.index("-n") + 1] if "-n" in sys.argv else "8"
    base = json.load(open("/root/.vp/BASELINE.json"))
    fd, junit = tempfile.mkstemp(suffix=".xml"); os.close(fd)
    env = dict(os.environ); env.pop("MENPO_VERIF", None)
    cmd = ["/venv/bin/python", "-m", "pytest", "-q", "-p", "no:cacheprovider", "--timeout=900",
           "--continue-on-collection-errors", "-n", n, "--junitxml=" + junit]
    subprocess.run(cmd, cwd="/repo", env=env, stdout=subprocess.DEVNULL, stderr=subprocess.DEVNULL)
    passed = set()
    for tc in ET.parse(junit).getroot().iter("testcase"):
        if not any(c.tag in ("failure", "error", "skipped") for c in tc):
            passed.add(tc.get("classname") + "::" + tc.get("name"))
    os.unlink(junit)
    missing = sorted(set(base["stable_pass"]) - passed)
    print("baseline stable_pass=%d passed_now=%d missing=%d" % (len(base["stable_pass"]), len(passed), len(missing)))
    for m in missing[:40]:
        print("  NOT PASSING:", m)
    sys.exit(1 if missing else 0)

main()
