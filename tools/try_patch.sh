#!/bin/sh
# tools/try_patch.sh <patch.diff|-R:commit> <PID> [tier]   apply a patch to /repo, run the check, undo it straight afterwards.
P="$1"; PID="$2"; TIER="${3:-quick}"
cd /repo || exit 2
if [ -n "$(git status --porcelain)" ]; then echo "/repo not clean"; exit 2; fi
case "$P" in
  -R:*) git show "${P#-R:}" | git apply -R || { echo "cannot revert"; exit 2; } ;;
  *) git apply "$P" || { echo "patch does not apply"; exit 2; } ;;
esac
cd /verif && ./check "$PID" --tier "$TIER" > /tmp/try_patch.$$.log 2>&1; rc=$?
git -C /repo checkout -- . ; git -C /repo clean -fdq
grep -E "^(VIOLATION|KNOWN|INCONCL|HELD|  violated)" /tmp/try_patch.$$.log | cut -c1-260 | head -${LINES_MAX:-8}
tail -3 /tmp/try_patch.$$.log | grep -E "tier=" | cut -c1-200
rm -f /tmp/try_patch.$$.log
echo "rc=$rc"
exit $rc
