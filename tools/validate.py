#!/usr/bin/env python3
"""python3-vt tools/validate.py : validates MANIFEST.json and every evidence file against the schemas."""
import json, glob, sys, os
import jsonschema
HERE = os.path.dirname(os.path.dirname(os.path.abspath(__file__)))
ok = True
def v(path, schema):
    global ok
    try:
        jsonschema.validate(json.load(open(path)), json.load(open(schema)))
        print("ok  ", path)
    except Exception as e:
        ok = False
        print("FAIL", path, str(e)[:300])
v(os.path.join(HERE, "MANIFEST.json"), "/root/.vp/MANIFEST.schema.json")
for f in sorted(glob.glob(os.path.join(HERE, "evidence", "*.json"))):
    v(f, "/root/.vp/EVIDENCE.schema.json")
sys.exit(0 if ok else 1)
