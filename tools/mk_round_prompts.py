#!/usr/bin/env python3
"""Prepare one round of seeded-change sub-agents: a scratch worktree of /repo HEAD and a self-contained prompt per property.

usage: tools/mk_round_prompts.py <round number> [n_mutants=3] [root=/tmp/wt]
The prompt contains only the property's text (title, statement, quantifier, anchor files) and one-line summaries of the
changes archived so far for that property (so that new ones use other mechanisms) - nothing else from /verif.
"""
import glob, json, os, subprocess, sys

rnd = int(sys.argv[1])
n_mut = int(sys.argv[2]) if len(sys.argv) > 2 else 3
root = sys.argv[3] if len(sys.argv) > 3 else "/tmp/wt"
here = os.path.dirname(os.path.dirname(os.path.abspath(__file__)))
props = [json.loads(l) for l in open(os.path.join(here, "properties.jsonl"))]
words = {1: "ONE", 2: "TWO", 3: "THREE", 4: "FOUR"}[n_mut]
for p in props:
    pid = p["id"]
    wt = "%s/R%d%s" % (root, rnd, pid)
    out = wt + "-out"
    if not os.path.isdir(wt):
        subprocess.run(["git", "-C", "/repo", "worktree", "add", "--detach", wt, "HEAD"], stdout=subprocess.DEVNULL, stderr=subprocess.DEVNULL)
    os.makedirs(out, exist_ok=True)
    earlier = []
    for d in sorted(glob.glob(os.path.join(here, "seeded", pid + "-*"))):
        m = json.load(open(os.path.join(d, "meta.json")))
        earlier.append("- " + " ".join(str(m.get("breaks", "")).split())[:230])
    text = "TITLE: %s\n\nSTATEMENT: %s\n\nQUANTIFIED OVER: %s\n\nRELEVANT FILES: %s\n" % (
        p["title"], p["statement"], p["quantifier"]["text"], ", ".join(p["anchors"]["files"]))
    open(os.path.join(out, "property.txt"), "w").write(text)
    ks = ",".join(str(k) for k in range(1, n_mut + 1))
    prompt = f"""You are working on the Python library menpo (pure Python on NumPy/SciPy) in a scratch git worktree at {wt} . Work ONLY inside {wt} and {out} ; never read or write /repo or /verif (and do not look for other people's checks or tooling anywhere — your work must be independent). There is no network.

How to run things: `cd {wt} && /venv/bin/python yourscript.py` (menpo imports from the current directory; python 3.12, numpy 2.x, scipy; no matplotlib/cv2). Test suite: `cd {wt} && /venv/bin/python -m pytest -q -p no:cacheprovider --timeout=900 --continue-on-collection-errors -n 4 2>&1 | tail -15` — on the unmodified tree it gives 777 passed, 6 failed, 2 skipped, 1 collection error (those failures are pre-existing and unrelated). Tip: menpo sources are ~70% docstring.

Here is a semantic property of menpo that is supposed to hold (also saved at {out}/property.txt):

{text}

{len(earlier)} earlier mutants for this property already exist; do NOT repeat their mechanisms or their code sites:
{chr(10).join(earlier)}

IMPORTANT: never use `git stash` (the stash is shared between worktrees); switch states with `git diff > file; git checkout -- .; git apply file`.

YOUR TASK: produce {words} NEW independent, realistic source changes ("mutants") to non-test files under menpo/ , each of which BREAKS this property while (a) the package still imports, and (b) the existing test-suite gives exactly the same pass/fail outcome per test as on the unmodified tree. The mutants should use different mechanisms and preferably touch different clauses of the property / different files. Work systematically: list the clauses of the STATEMENT and the items of QUANTIFIED OVER, cross off what the earlier mutants hit, and aim at what is left - including code that the relevant files only *call* (helpers in other modules such as menpo/math, menpo/shape/groupops.py, menpo/image/interpolation.py, menpo/io/utils.py, menpo/transform/base, menpo/base.py, menpo/external) when a change there breaks this property. Prefer effects that are easy to overlook: right the first time and wrong later; right for most sizes/values and wrong for a few; right in 2D and wrong in 3D; right for one storage/option/dtype and wrong for another; an alternative constructor or convenience wrapper; an error path; state shared between two objects; an argument of the caller modified; a rarely used but documented keyword argument; an input given in an unusual but legal representation. They should look like bugs a developer could plausibly introduce (refactoring slip, off-by-one, wrong variable, lost copy, swapped axis/order, missing branch for one subclass or one dimension, caching mistake, wrong default, etc.), not sabotage. IMPORTANT: each must need something specific to manifest — a particular input class or dimensionality, an unusual-but-documented parameter value, a multi-step sequence of operations, a particular history, or two cooperating code sites that each look fine alone — NOT something any ordinary single use would expose at once. Each mutant must violate the STATEMENT as worded (re-read it before you settle on one): behaviour the statement does not promise is not a break.

For each mutant K in {{{ks}}} write into {out}/mK/ :
  - patch.diff : `git diff` against HEAD of the worktree (must apply cleanly with `git apply` on a clean tree),
  - demo.py : a small self-contained program that exits 0 on the unmodified tree and exits non-zero with the patch applied, printing what it observed (it must exercise the property, i.e. fail because the property is broken; run from {wt}),
  - meta.json : {{"property": "{pid}", "summary": "...", "needs_to_manifest": "...", "files_touched": [...], "commands_run": [...], "suite_result_with_patch": "..."}}.
Verify yourself, for each mutant: demo.py exits 0 on the clean tree and non-zero with the patch; the full test suite with the patch has the same counts and the same set of failing tests as without. Finally leave the worktree clean (`git checkout -- . && git status --short` shows nothing). Reply with a 5-line summary per mutant (what changed, what it needs to manifest). Do not ask questions; make your own decisions.
"""
    open(os.path.join(out, "prompt.txt"), "w").write(prompt)
    print(pid, len(earlier), len(prompt))
