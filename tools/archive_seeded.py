#!/usr/bin/env python3
"""Archive confirmed sub-agent changes into /verif/seeded/<id>/ (patch.diff, demo.py, meta.json).
usage: tools/archive_seeded.py <verify.json> <round number>"""
import json, os, shutil, subprocess, sys, glob

res = json.load(open(sys.argv[1]))
rnd = int(sys.argv[2])
head = subprocess.run(["git", "-C", "/repo", "rev-parse", "--short", "HEAD"], stdout=subprocess.PIPE, text=True).stdout.strip()
here = os.path.join(os.path.dirname(os.path.abspath(__file__)), "..", "seeded")
n = 0
for key, r in sorted(res.items()):
    if not r.get("confirmed"):
        print("skip", key, r.get("status"))
        continue
    src = r["dir"]
    dst = os.path.join(here, key)
    os.makedirs(dst, exist_ok=True)
    shutil.copy(os.path.join(src, "patch.diff"), os.path.join(dst, "patch.diff"))
    shutil.copy(os.path.join(src, "demo.py"), os.path.join(dst, "demo.py"))
    am = {}
    for f in glob.glob(os.path.join(src, "*.json")):
        try:
            am = json.load(open(f))
            break
        except Exception:
            pass
    meta = {
        "property": key[:3],
        "round": rnd,
        "breaks": am.get("summary") or am.get("breaks") or am.get("description") or "",
        "needs_to_manifest": am.get("needs_to_manifest") or am.get("needs") or "",
        "files_touched": am.get("files_touched", []),
        "origin": "written by an independent round-%d sub-agent that saw only the property text, a scratch worktree and one-line "
                  "summaries of the earlier seeded changes for this property (to avoid repeating them)" % rnd,
        "confirmed_by_me": {
            "repo_head": head,
            "what_i_ran": "tools/verify_seeded.py (SEEDED_PREFIX=R%d): fresh worktree of /repo HEAD; demo.py clean; git apply; demo.py again; "
                          "full pytest suite with the patch compared test by test with the clean tree" % rnd,
            "demo_exit_clean": r.get("demo_clean_rc"),
            "demo_exit_patched": r.get("demo_patched_rc"),
            "suite_differences": r.get("suite_differences", []),
            "demo_output_tail_patched": r.get("demo_patched_tail", ""),
        },
        "agent_meta": am,
    }
    json.dump(meta, open(os.path.join(dst, "meta.json"), "w"), indent=1)
    n += 1
print("archived", n)
