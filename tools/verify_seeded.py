#!/usr/bin/env python3
"""Confirm sub-agent mutants independently: demo passes on the clean tree, fails with the patch, suite unchanged.
usage: tools/verify_seeded.py <src_root e.g. /tmp/wt> <out.json> [ids...]"""
import json, os, subprocess, sys, glob, xml.etree.ElementTree as ET, tempfile, shutil

SRC, OUT = sys.argv[1], sys.argv[2]
PREFIX = os.environ.get("SEEDED_PREFIX", "")          # e.g. R2 for the round-2 output directories R2C01-out
ONLY = sys.argv[3:]
WT = "/tmp/wt/verify"
PY = "/venv/bin/python"

def sh(cmd, cwd=None, timeout=1800):
    return subprocess.run(cmd, cwd=cwd, shell=isinstance(cmd, str), stdout=subprocess.PIPE, stderr=subprocess.STDOUT, text=True, timeout=timeout)

def suite(cwd):
    fd, junit = tempfile.mkstemp(suffix=".xml"); os.close(fd)
    sh([PY, "-m", "pytest", "-q", "-p", "no:cacheprovider", "--timeout=900", "--continue-on-collection-errors", "-n", "10", "--junitxml=" + junit], cwd=cwd)
    res = {}
    for tc in ET.parse(junit).getroot().iter("testcase"):
        bad = [c.tag for c in tc if c.tag in ("failure", "error", "skipped")]
        res[tc.get("classname") + "::" + tc.get("name")] = bad[0] if bad else "pass"
    os.unlink(junit)
    return res

if os.path.exists(WT):
    sh("git -C /repo worktree remove --force " + WT)
sh("git -C /repo worktree add --detach " + WT + " HEAD")
base = suite(WT)
results = json.load(open(OUT)) if os.path.exists(OUT) else {}
for d in sorted(glob.glob(os.path.join(SRC, PREFIX + "C??-out", "m[0-9]"))):
    pid = os.path.basename(os.path.dirname(d))[len(PREFIX):len(PREFIX) + 3]
    key = pid + "-" + (PREFIX.lower() if PREFIX else "") + os.path.basename(d)
    if ONLY and key not in ONLY and pid not in ONLY:
        continue
    patch, demo = os.path.join(d, "patch.diff"), os.path.join(d, "demo.py")
    r = {"dir": d}
    if not (os.path.exists(patch) and os.path.exists(demo)):
        r["status"] = "incomplete"; results[key] = r; continue
    sh("git checkout -- . && git clean -fdq", cwd=WT)
    chk = sh(["git", "apply", "--check", patch], cwd=WT)
    r["applies"] = chk.returncode == 0
    if not r["applies"]:
        r["status"] = "patch does not apply on the current tree: " + chk.stdout[-200:]
        results[key] = r; continue
    c = sh([PY, demo], cwd=WT, timeout=600)
    r["demo_clean_rc"] = c.returncode
    sh(["git", "apply", patch], cwd=WT)
    p = sh([PY, demo], cwd=WT, timeout=600)
    r["demo_patched_rc"] = p.returncode
    r["demo_patched_tail"] = p.stdout[-400:]
    s = suite(WT)
    diffs = sorted(k for k in set(base) | set(s) if base.get(k) != s.get(k))
    r["suite_differences"] = diffs[:10]
    sh("git checkout -- . && git clean -fdq", cwd=WT)
    r["confirmed"] = bool(c.returncode == 0 and p.returncode != 0 and not diffs)
    r["status"] = "confirmed" if r["confirmed"] else "NOT confirmed"
    results[key] = r
    print(key, r["status"], "clean_rc=%s patched_rc=%s suite_diffs=%d" % (c.returncode, p.returncode, len(diffs)), flush=True)
    json.dump(results, open(OUT, "w"), indent=1)
sh("git -C /repo worktree remove --force " + WT)
json.dump(results, open(OUT, "w"), indent=1)
