#!/usr/bin/env python3
"""Reading aid: print a python source file without docstrings and without the viewer methods."""
import ast, sys
for path in sys.argv[1:]:
    src = open(path).read()
    lines = src.splitlines()
    drop = set()
    tree = ast.parse(src)
    for node in ast.walk(tree):
        if isinstance(node, (ast.FunctionDef, ast.ClassDef, ast.Module, ast.AsyncFunctionDef)):
            if isinstance(node, ast.FunctionDef) and (node.name.startswith("_view") or node.name.startswith("view")):
                drop.update(range(node.lineno + 1, node.end_lineno + 1))
                continue
            b = node.body
            if b and isinstance(b[0], ast.Expr) and isinstance(getattr(b[0], "value", None), ast.Constant) and isinstance(b[0].value.value, str):
                drop.update(range(b[0].lineno, b[0].end_lineno + 1))
    print("#### " + path)
    for i, l in enumerate(lines, 1):
        if i in drop or not l.strip():
            continue
        print("%5d %s" % (i, l))
