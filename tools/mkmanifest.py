#!/usr/bin/env python3
"""Regenerates MANIFEST.json from the property modules that exist (props/cNN.py) and NOT_APPLICABLE below."""
import importlib, json, os, sys
HERE = os.path.dirname(os.path.dirname(os.path.abspath(__file__)))
sys.path.insert(0, HERE)
ids = [json.loads(l)["id"] for l in open(os.path.join(HERE, "properties.jsonl"))]
NOT_APPLICABLE = {}   # id -> reason (properties the technique genuinely cannot decide) - none so far
checks, na = [], []
for pid in ids:
    path = os.path.join(HERE, "props", pid.lower() + ".py")
    if not os.path.exists(path):
        na.append({"property_id": pid, "reason": NOT_APPLICABLE.get(pid, "check not built yet in this tree (work in progress); nothing is claimed for it")})
        continue
    src = open(path).read()
    ns = {}
    for key in ("TECHNIQUE", "LEVEL_TEXT", "LEVEL_NOTE", "DESIGN_REF"):
        import re
        m = re.search(r"^%s = (\(.*?\)|\".*?\")$" % key, src, re.S | re.M)
        ns[key] = eval(m.group(1)) if m else ""
    checks.append({
        "property_id": pid,
        "quick_cmd": "./check %s --tier quick" % pid,
        "thorough_cmd": "./check %s --tier thorough" % pid,
        "evidence_file": "evidence/%s.json" % pid,
        "replay_cmd_template": "./check %s --replay {path}" % pid,
        "engine": "vf",
        "level_claimed": {"category": "exploration", "text": ns["LEVEL_TEXT"], "design_ref": ns["DESIGN_REF"]},
        "level_note": ns["LEVEL_NOTE"],
        "technique": ns["TECHNIQUE"],
    })
man = {
    "version": 1,
    "setup_cmd": "sh tools/setup.sh",
    "hooks": {
        "guard": "MENPO_VERIF",
        "enable": "no source hooks: monitors are attached from the harness (vf/taps.py) to the classes imported from /repo's working tree; MENPO_VERIF=1 (set by ./check for its workers) switches them on",
        "baseline_off_cmd": "cd /repo && /venv/bin/python -m pytest -ra -q -p no:cacheprovider --timeout=900 --continue-on-collection-errors",
        "source_commits": [],
        "add_only": True,
    },
    "engines": [{"name": "vf", "path": "vf/", "serves_properties": [c["property_id"] for c in checks],
                 "kind_free_text": "runtime monitors (taps with OLD snapshots, icontract invariants, shadow models, audit hook, cross-process log comparison) driven by seeded hostile workloads in sharded worker processes"}],
    "checks": checks,
    "not_applicable": na,
    "notes": "exit codes: 0 held on everything observed, 1 violation (VIOLATION line + replay file), 2 inconclusive (never a VIOLATION line). Known findings: known_findings.json.",
}
if not na:
    man.pop("not_applicable")
    man["not_applicable"] = []
json.dump(man, open(os.path.join(HERE, "MANIFEST.json"), "w"), indent=1)
print("checks:", len(checks), "not_applicable:", len(na))
