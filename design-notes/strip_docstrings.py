import ast, sys, io, tokenize
# print source with docstrings removed (keeps line numbers as prefixes)
src = open(sys.argv[1]).read()
tree = ast.parse(src)
skip = set()
for node in ast.walk(tree):
    if isinstance(node, (ast.FunctionDef, ast.ClassDef, ast.AsyncFunctionDef, ast.Module)):
        b = node.body
        if b and isinstance(b[0], ast.Expr) and isinstance(getattr(b[0], 'value', None), ast.Constant) and isinstance(b[0].value.value, str):
            for l in range(b[0].lineno, b[0].end_lineno + 1):
                skip.add(l)
only = sys.argv[2:] 
for i, line in enumerate(src.splitlines(), 1):
    if i in skip: continue
    if not line.strip(): continue
    print(f"{i:5d} {line}")
