# scratch feasibility probe for "suite replay": tap Transform.apply + compose + pseudoinverse while the repo's tests run
import numpy as np, collections, functools
stats = collections.Counter(); alarms = []
def pytest_configure(config):
    import importlib; TB = importlib.import_module("menpo.transform.base")
    from menpo.transform import Homogeneous
    from menpo.shape import PointCloud
    orig_apply = TB.Transform.apply
    def in_domain_arr(x):
        return isinstance(x, np.ndarray) and x.ndim==2 and x.dtype.kind in "fiu" and np.isfinite(x).all()
    @functools.wraps(orig_apply)
    def apply(self, x, batch_size=None, **kw):
        stats['apply.calls']+=1
        if isinstance(x, PointCloud) and np.isfinite(x.points).all():
            before = x.points.copy(); lm_before = {g: x.landmarks[g].points.copy() for g in x.landmarks} if x.has_landmarks else {}
            try: clone = self.copy()
            except Exception: clone=None
            r = orig_apply(self, x, batch_size=batch_size, **kw)
            stats['apply.checked_shape']+=1
            if not np.array_equal(before, x.points): alarms.append(("input mutated", type(self).__name__, type(x).__name__))
            if clone is not None:
                try:
                    ref = orig_apply(clone, before.copy(), **kw)
                    if type(r) is not type(x): alarms.append(("type", type(self).__name__, type(x).__name__, type(r).__name__))
                    elif not np.allclose(r.points, ref, equal_nan=True): alarms.append(("points", type(self).__name__, type(x).__name__))
                    for g,p in lm_before.items():
                        if not np.allclose(r.landmarks[g].points, orig_apply(clone, p.copy(), **kw)): alarms.append(("lm", type(self).__name__))
                except Exception as e:
                    stats['apply.ref_exc:'+type(e).__name__]+=1
            return r
        stats['apply.skipped']+=1
        return orig_apply(self, x, batch_size=batch_size, **kw)
    TB.Transform.apply = apply
    for name in ["compose_before","compose_after"]:
        for cls in [TB.Transform, TB.ComposableTransform]:
            if name in cls.__dict__:
                orig = cls.__dict__[name]
                def mk(orig, name):
                    @functools.wraps(orig)
                    def w(self, t):
                        stats[name+'.calls']+=1
                        try:
                            nd = self.n_dims or t.n_dims
                            a0 = self.copy(); b0 = t.copy()
                        except Exception:
                            stats[name+'.skipped']+=1; return orig(self,t)
                        c = orig(self, t)
                        if nd is None: stats[name+'.skipped']+=1; return c
                        x = np.random.default_rng(0).normal(size=(5,nd))
                        try:
                            exp = orig_apply(b0, orig_apply(a0, x)) if name=="compose_before" else orig_apply(a0, orig_apply(b0, x))
                            got = orig_apply(c, x)
                            stats[name+'.checked']+=1
                            if not np.allclose(got, exp, atol=1e-8, equal_nan=True): alarms.append((name, "law", type(self).__name__, type(t).__name__))
                        except Exception as e:
                            stats[name+'.ref_exc:'+type(e).__name__]+=1
                        return c
                    return w
                setattr(cls, name, mk(orig, name))
def pytest_sessionfinish(session, exitstatus):
    print("\nVFPLUG stats", dict(stats)); print("VFPLUG alarms", len(alarms), collections.Counter(alarms).most_common(10))
