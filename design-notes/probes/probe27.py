import warnings; warnings.simplefilter("ignore")
import numpy as np
import menpo.image.base as B
from menpo.image import *
from menpo.shape import PointCloud
from menpo.transform import Translation as T0
class T4(T0):
    def __init__(self, t, skip_checks=False): T0.__init__(self, t, skip_checks=True)
B.Translation = lambda t, **k: T0(t, skip_checks=True)
rng = np.random.default_rng(1)
im = Image(rng.random((2,5,6,4,7))); im.landmarks['l']=PointCloud(rng.random((3,4))*4)
r = im.crop(np.array([1,2,0,3]), np.array([4,5,3,6]))
print(r.shape, np.array_equal(r.pixels, im.pixels[:,1:4,2:5,0:3,3:6]), np.allclose(r.landmarks['l'].points, im.landmarks['l'].points-[1,2,0,3]))
