import warnings; warnings.simplefilter("ignore")
import numpy as np
from menpo.shape import *
from menpo.image import *
from menpo.transform import *
rng = np.random.default_rng(21)
# GPA
for mirror in [False, True]:
    srcs = [PointCloud(rng.normal(size=(7,2))+rng.normal(size=2)*3) for _ in range(5)]
    orig = [s.points.copy() for s in srcs]
    gpa = GeneralizedProcrustesAnalysis(srcs, allow_mirror=mirror)
    ok = all(np.allclose(t.h_matrix, AlignmentSimilarity(s, gpa.target, allow_mirror=mirror).h_matrix, atol=1e-10) for s,t in zip(srcs,gpa.transforms))
    print("gpa", mirror, gpa.converged, gpa.n_iterations, "consistent:", ok, "targets same:", all(np.allclose(t.target.points,gpa.target.points) for t in gpa.transforms), "sources untouched", all(np.array_equal(o,s.points) for o,s in zip(orig,srcs)))
# 3D image ops + boolean
def coord3(shape): return np.indices(shape).astype(float)
im = Image(coord3((12,14,10))); im.landmarks['l']=PointCloud(rng.uniform(3,7,size=(6,3)))
for name,op in [("crop", lambda i:i.crop(np.array([1.2,2,1]),np.array([10.5,12,9]),return_transform=True)),("rescale",lambda i:i.rescale([1.5,0.8,1.2],return_transform=True)),("resize",lambda i:i.resize((20,11,13),return_transform=True)),("mirror2",lambda i:i.mirror(axis=2,return_transform=True)),("zoom", lambda i:i.zoom(1.2,return_transform=True)), ("pyramid", lambda i: (list(i.pyramid(2))[1], None))]:
    try:
        r,T = op(im)
        Lp = r.landmarks['l'].points
        s = r.sample(Lp, order=1).T
        print("3D", name, r.shape, "err", np.abs(s-im.landmarks['l'].points).max(), "T", None if T is None else np.abs(T.apply(Lp)-im.landmarks['l'].points).max())
    except Exception as e: print("3D", name, "EXC", type(e).__name__, e)
b = BooleanImage(np.indices((20,24))[0]>7); b.landmarks['l']=PointCloud(rng.uniform(5,15,size=(5,2)))
for name,op in [("crop", lambda i:i.crop(np.array([2,3]),np.array([18,20]),return_transform=True)),("rescale",lambda i:i.rescale(1.5,return_transform=True)),("rotate",lambda i:i.rotate_ccw_about_centre(30,return_transform=True)),("mirror",lambda i:i.mirror(return_transform=True)),("resize",lambda i:i.resize((30,30),return_transform=True)), ("zoom",lambda i:i.zoom(1.3,return_transform=True)), ("warp_to_mask", lambda i:i.warp_to_mask(BooleanImage.init_blank((15,15)), Translation([2,3]), return_transform=True))]:
    try:
        r,T = op(b)
        Lp = r.landmarks['l'].points
        src = T.apply(Lp)
        grid = np.indices(r.shape).reshape(2,-1).T.astype(float); sg = T.apply(grid)
        inside = np.all((sg>=0)&(sg<=np.array(b.shape)-1),axis=1)
        clear_t = inside&(sg[:,0]>8.6); clear_f = inside&(sg[:,0]<7.4)
        m = r.mask.ravel()
        print("bool", name, type(r).__name__, r.shape, "lm", np.abs(src-b.landmarks['l'].points).max(), "mask errs", (~m[clear_t]).sum(), m[clear_f].sum())
    except Exception as e: print("bool", name, "EXC", type(e).__name__, e)
