import warnings; warnings.simplefilter("ignore")
import numpy as np, itertools, heapq
from menpo.shape import *
rng = np.random.default_rng(12)
def dijkstra(n, W, s, directed):
    dist=[np.inf]*n; dist[s]=0; pq=[(0,s)]
    while pq:
        d,u=heapq.heappop(pq)
        if d>dist[u]: continue
        for v in range(n):
            w = W[u,v]
            if w>0 and d+w<dist[v]: dist[v]=d+w; heapq.heappush(pq,(d+w,v))
    return dist
def kruskal(n,W):
    es = sorted((W[a,b],a,b) for a in range(n) for b in range(a+1,n) if W[a,b]>0)
    p=list(range(n))
    def f(x):
        while p[x]!=x: p[x]=p[p[x]]; x=p[x]
        return x
    tot=0; cnt=0
    for w,a,b in es:
        ra,rb=f(a),f(b)
        if ra!=rb: p[ra]=rb; tot+=w; cnt+=1
    return tot,cnt
bad=0
for it in range(300):
    n=int(rng.integers(2,10))
    W=np.zeros((n,n))
    for a,b in itertools.combinations(range(n),2):
        if rng.random()<.4: W[a,b]=W[b,a]=float(rng.integers(1,9))+ float(rng.random()<.5)*.5
    g=UndirectedGraph(W)
    for s,e in itertools.permutations(range(n),2):
        path,cost = g.find_shortest_path(s,e)
        d = dijkstra(n,W,s,False)[e]
        if np.isinf(d):
            if path!=[] or not np.isinf(cost): bad+=1; print("unreachable mismatch")
            continue
        if path[0]!=s or path[-1]!=e: bad+=1; print("endpoints")
        route_cost = sum(W[a,b] for a,b in zip(path[:-1],path[1:]))
        if any(W[a,b]==0 for a,b in zip(path[:-1],path[1:])): bad+=1; print("non-edge in route")
        if not np.isclose(route_cost,d): bad+=1; print("route not shortest")
        # find_path
        for meth in ["bfs","dfs"]:
            p=g.find_path(s,e,method=meth)
            if (p==[])!=np.isinf(d): print("find_path reachability", meth); bad+=1
            elif p and (p[0]!=s or p[-1]!=e or any(W[a,b]==0 for a,b in zip(p[:-1],p[1:])) or len(set(p))!=len(p)): print("find_path invalid",meth); bad+=1
    # MST
    if not g.has_isolated_vertices():
        from scipy.sparse import csgraph
        ncomp = csgraph.connected_components(W)[0]
        try:
            t = g.minimum_spanning_tree(0)
            tw = t.adjacency_matrix.sum(); kt,kc = kruskal(n,W)
            if ncomp==1 and (not np.isclose(tw,kt) or t.n_edges!=n-1): bad+=1; print("mst weight", tw, kt)
            if ncomp==1 and not t.is_tree(): bad+=1; print("mst not tree")
        except Exception as ex:
            print("MST EXC", type(ex).__name__, ex, "ncomp", ncomp)
print("bad", bad)
