import warnings; warnings.simplefilter("ignore")
import numpy as np, itertools
from menpo.model import *
from menpo.shape import *
rng = np.random.default_rng(3)
def pca_checks(n,d,centre):
    X = rng.normal(size=(n,d)) @ np.diag(np.linspace(1,3,d)) + rng.normal(size=d)*2
    m = PCAVectorModel(X.copy(), centre=centre, inplace=False)
    U, l = m.components, m.eigenvalues
    msgs=[]
    if not np.allclose(U@U.T, np.eye(len(l)), atol=1e-8): msgs.append("not orthonormal")
    if not (np.all(l>0) and np.all(np.diff(l)<=1e-12)): msgs.append("eigs not pos desc")
    mu = X.mean(0) if centre else np.zeros(d)
    if not np.allclose(m.mean(), mu): msgs.append("mean")
    Xc = X-mu
    var_along = ((Xc@U.T)**2).sum(0)/(n-1)
    if not np.allclose(var_along, l): msgs.append(f"eig != variance {np.abs(var_along-l).max()}")
    rec = np.array([m.reconstruct(x) for x in X])
    if not np.allclose(rec, X, atol=1e-8): msgs.append(f"not exact recon {np.abs(rec-X).max()}")
    w = rng.normal(size=len(l))
    if not np.allclose(m.project(m.instance(w)), w): msgs.append("project(instance(w))!=w")
    y = rng.normal(size=d)*3
    r = m.reconstruct(y)
    if not np.allclose(m.reconstruct(r), r): msgs.append("not idempotent")
    po = m.project_out(y).ravel()
    if not np.allclose(U@po, 0, atol=1e-8): msgs.append("residual not orth")
    ov = m.original_variance()
    k = max(1,len(l)//2)
    m.n_active_components = k
    if not np.isclose(m.original_variance(), ov): msgs.append("orig var changed by active")
    if not np.isclose(m.variance()+ (ov - m.variance()), ov): pass
    m2 = PCAVectorModel(X.copy(), centre=centre, inplace=False, max_n_components=k)
    m.trim_components()
    if not np.isclose(m.original_variance(), ov): msgs.append("orig var changed by trim")
    if not (np.allclose(m._components, m2._components) and np.allclose(m._eigenvalues,m2._eigenvalues) and np.isclose(m.noise_variance(), m2.noise_variance())): msgs.append("trim != build-with-k")
    if m.components.shape[0]!=len(m.eigenvalues): msgs.append("count mismatch")
    return msgs, len(l)
for n,d in [(10,4),(4,10),(6,6),(7,6),(6,7),(30,5),(3,20)]:
    for c in [True,False]:
        print(n,d,c,pca_checks(n,d,c))
# incremental
def ipca_check(n,d,centre,splits):
    X = rng.normal(size=(n,d)) @ np.diag(np.linspace(1,3,d)) + rng.normal(size=d)*2
    full = PCAVectorModel(X.copy(), centre=centre, inplace=False)
    idx = np.cumsum(splits)
    m = PCAVectorModel(X[:idx[0]].copy(), centre=centre, inplace=False)
    for a,b in zip(idx[:-1], idx[1:]):
        m.increment(X[a:b].copy())
    msgs=[]
    if m.n_samples!=full.n_samples: msgs.append(f"n_samples {m.n_samples} vs {full.n_samples}")
    if not np.allclose(m.mean(), full.mean()): msgs.append("mean")
    k=min(len(m.eigenvalues),len(full.eigenvalues))
    if len(m.eigenvalues)!=len(full.eigenvalues): msgs.append(f"ncomp {len(m.eigenvalues)} vs {len(full.eigenvalues)}")
    if not np.allclose(m.eigenvalues[:k], full.eigenvalues[:k], rtol=1e-6): msgs.append(f"eig {np.abs(m.eigenvalues[:k]-full.eigenvalues[:k]).max()}")
    P1 = m.components.T@m.components; P2 = full.components.T@full.components
    if not np.allclose(P1,P2,atol=1e-6): msgs.append(f"subspace {np.abs(P1-P2).max()}")
    return msgs
for n,d,splits in [(12,4,[6,6]),(12,4,[5,3,4]),(12,4,[9,1,1,1]),(8,12,[4,4]),(8,12,[3,2,3]),(8,12,[2,1,1,1,1,1,1]),(12,4,[2,5,5]),(12,4,[3,9])]:
    for c in [True,False]:
        print("ipca",n,d,splits,c,ipca_check(n,d,c,splits))
