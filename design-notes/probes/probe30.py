import warnings; warnings.simplefilter("ignore")
import numpy as np
from collections import OrderedDict
from menpo.shape import *
from menpo.landmark import LandmarkManager
from menpo.image import Image
from menpo.transform import *
rng = np.random.default_rng(5)
def mkshape(d):
    n=int(rng.integers(1,6)); pts=rng.normal(size=(n,d))
    k = rng.choice(["pc","pug","lpug","tm"])
    if k=="pc": return PointCloud(pts)
    if k=="pug": return PointUndirectedGraph.init_from_edges(pts, np.array([[0,n-1]]) if n>1 else None)
    if k=="lpug": return LabelledPointUndirectedGraph.init_with_all_label(pts, np.zeros((n,n)))
    if n<3: return PointCloud(pts)
    return TriMesh(pts, np.array([[0,1,2]]))
names = ["a","b","", "ü","a b","0", "zz"]
bad=0; events=0
for hist in range(400):
    d = int(rng.choice([2,3]))
    owner = PointCloud(rng.normal(size=(5,d))) if rng.random()<.5 else (Image(rng.random((1,6,7))) if d==2 else Image(rng.random((1,4,5,3))))
    model = OrderedDict()
    for step in range(int(rng.integers(3,25))):
        events+=1
        lm = owner.landmarks
        op = rng.choice(["set","set_wrongdim","del","getnone","setnone","copy_assign","edit_assigned","transform","iter"])
        try:
            if op=="set":
                nme = str(rng.choice(names)); s = mkshape(d); lm[nme]=s
                model[nme]=s.points.copy()
                s.points[:] = 99  # edit assigned value afterwards
            elif op=="set_wrongdim":
                if len(model)==0: continue
                try: lm["w"]=mkshape(5-d); bad+=1; print("wrong dim accepted")
                except ValueError: pass
            elif op=="del":
                if not model: continue
                nme = list(model)[int(rng.integers(len(model)))]; del lm[nme]; del model[nme]
            elif op=="getnone":
                try:
                    g = lm[None]
                    if len(model)!=1: bad+=1; print("None resolved with", len(model))
                except ValueError:
                    if len(model)==1: bad+=1; print("None refused with 1")
            elif op=="setnone":
                try: lm[None]=mkshape(d); bad+=1; print("set None accepted")
                except ValueError: pass
            elif op=="copy_assign":
                lm2 = lm.copy(); owner.landmarks = lm2
                for k in lm2: lm2[k].points[:] = -5   # edit the assigned manager afterwards
            elif op=="transform":
                if isinstance(owner, PointCloud):
                    t = Translation(rng.normal(size=d)); owner = t.apply(owner)
                    for k in model: model[k] = model[k]+t.translation_component
            elif op=="iter":
                pass
        except Exception as e:
            bad+=1; print("EXC", op, type(e).__name__, e)
        lm = owner.landmarks
        if list(lm)!=list(model) or lm.group_labels!=list(model) or len(lm)!=len(model): bad+=1; print("order/keys mismatch", list(lm), list(model))
        for k in model:
            if not np.allclose(lm[k].points, model[k]): bad+=1; print("content mismatch", op, k); break
print("events", events, "bad", bad)
