import warnings; warnings.simplefilter("ignore")
import numpy as np
import menpo
from menpo.shape import *
from menpo.transform import *
from menpo.transform.piecewiseaffine.base import TriangleContainmentError
rng = np.random.default_rng(0)
def T(name, f):
    try:
        r = f()
        print(f"[{name}] ->", r)
    except Exception as e:
        print(f"[{name}] EXC {type(e).__name__}: {e}")

# C05: Affine wrong length
a = Affine.init_identity(2)
T("affine from_vector wrong len", lambda: (a.from_vector(np.zeros(5)).h_matrix))
T("uniformscale as_vector shape", lambda: UniformScale(2.,2).as_vector().shape)
T("uniformscale from_vector", lambda: UniformScale(2.,2).from_vector(np.array([3.])).h_matrix.tolist())
T("nonuniform from_vector wrong len", lambda: NonUniformScale([1,2]).from_vector(np.array([3.,4,5])).h_matrix.tolist())
T("translation wrong len", lambda: Translation([1,2]).from_vector(np.array([3.,4,5])).h_matrix.tolist())
T("translation obj writable after as_vector", lambda: (lambda t:(t.as_vector(), t.h_matrix.flags.writeable))(Translation([1,2.]))[1])
T("nonuniform as_vector", lambda: NonUniformScale([1,2]).as_vector().flags.writeable)
T("similarity wrong len", lambda: Similarity.init_identity(2).from_vector(np.zeros(5)))
T("rotation2d as_vector", lambda: Rotation.init_identity(2).as_vector())
T("homog from_vector wrong", lambda: Homogeneous(np.eye(3)).from_vector(np.zeros(5)))
pc = PointCloud(rng.random((5,2)))
T("pointcloud wrong len", lambda: pc.from_vector(np.zeros(7)))
T("pointcloud wrong len even", lambda: pc.from_vector(np.zeros(8)).n_points)
# C20 2d angle
for ang in [30, -30, 120, -120, 200, 400]:
    r = Rotation.init_from_2d_ccw_angle(ang)
    ax, th = r.axis_and_angle_of_rotation()
    print("2d angle", ang, np.rad2deg(th))
for ang in [30,-30,120,-120,200,400]:
  for ctor in [Rotation.init_from_3d_ccw_angle_around_x,Rotation.init_from_3d_ccw_angle_around_y,Rotation.init_from_3d_ccw_angle_around_z]:
    r = ctor(ang)
    ax, th = r.axis_and_angle_of_rotation()
    print("3d", ctor.__name__[-1], ang, ax, np.rad2deg(th))
# C08 alignment rotation target
src = PointCloud(rng.random((6,2))); tgt = PointCloud(rng.random((6,2)))
ar = AlignmentRotation(src, tgt)
print("AlignmentRotation target is tgt?", np.allclose(ar.target.points, tgt.points), "err", ar.alignment_error())
asim = AlignmentSimilarity(src, tgt, rotation=False)
t2 = PointCloud(rng.random((6,2)))
asim.set_target(t2)
fresh = AlignmentSimilarity(src, t2, rotation=False)
print("sim rotation=False retarget equal fresh:", np.allclose(asim.h_matrix, fresh.h_matrix))
# TPS pinv
tps = ThinPlateSplines(src, tgt)
inv = tps.pseudoinverse()
print("tps inverse maps tgt->src:", np.abs(inv.apply(tgt.points) - src.points).max())
fresh_inv = ThinPlateSplines(tgt, src)
print("fresh reverse tps maps tgt->src:", np.abs(fresh_inv.apply(tgt.points) - src.points).max())
# PWA cache
sp = np.array([[0,0],[0,1],[1,0],[1,1.]]); tp = sp*2+rng.random((4,2))*.1
pwa = PiecewiseAffine(PointCloud(sp), PointCloud(tp))
x = np.array([[.2,.2],[.7,.6]])
y1 = pwa.apply(x).copy()
x[0] = [.6,.1]
y2 = pwa.apply(x)
py = PiecewiseAffine(PointCloud(sp), PointCloud(tp)).apply(x)
print("pwa stale after inplace edit:", np.abs(y2-py).max())
# batch error mask
xs = np.vstack([rng.random((5,2)), [[2,2.]]])
for bs in [1,2,4,6,7]:
    try:
        pwa.apply(xs, batch_size=bs); print("no err")
    except TriangleContainmentError as e:
        print("bs", bs, e.points_outside_source_domain.shape, e.points_outside_source_domain.astype(int))
xs2 = np.vstack([[[2,2.]], rng.random((5,2))])
for bs in [2,4]:
    try:
        pwa.apply(xs2, batch_size=bs); print("no err")
    except TriangleContainmentError as e:
        print("bs", bs, e.points_outside_source_domain.shape, e.points_outside_source_domain.astype(int))
