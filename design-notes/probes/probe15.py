import warnings; warnings.simplefilter("ignore")
import numpy as np, itertools
from menpo.shape import *
from menpo.image import *
from menpo.transform import *
rng = np.random.default_rng(4)
def coord_image(shape, cls, extra=0):
    idx = np.indices(shape).astype(float)
    px = np.concatenate([idx, rng.random((extra,)+shape)]) if extra else idx
    if cls is Image: im = Image(px)
    elif cls is MaskedImage:
        m = np.ones(shape,bool); m[:2]=False  # mask: first two rows false
        im = MaskedImage(px, mask=m)
    return im
def check(name, im, op, interior=2.0):
    L = im.landmarks['l'].points.copy()
    try:
        res = op(im)
    except Exception as e:
        print(name, "EXC", type(e).__name__, e); return
    T=None
    if isinstance(res, tuple): res, T = res
    if not res.has_landmarks: print(name, "NO LANDMARKS"); return
    Lp = res.landmarks['l'].points
    # keep landmarks well inside result
    ok = np.all((Lp>=interior)&(Lp<=np.array(res.shape)-1-interior),axis=1)
    samp = res.sample(Lp[ok], order=1)[:im.n_dims].T
    err = np.abs(samp-L[ok]).max() if ok.any() else None
    terr = np.abs(T.apply(Lp)-L).max() if T is not None else None
    # pixel consistency with transform at interior grid points
    perr=None
    if T is not None:
        if hasattr(res,'mask') and not isinstance(T, Homogeneous):
            grid = res.mask.true_indices().astype(float)
            vals = res.pixels[:im.n_dims][:, res.mask.mask].T
        else:
            grid = np.indices(res.shape).reshape(len(res.shape),-1).T.astype(float)
            vals = res.pixels[:im.n_dims].reshape(im.n_dims,-1).T
        src = T.apply(grid)
        inside = np.all((src>=interior)&(src<=np.array(im.shape)-1-interior),axis=1)
        if inside.any(): perr = np.abs(vals[inside]-src[inside]).max()
    merr=None
    if isinstance(im, MaskedImage) and T is not None and isinstance(T, Homogeneous):
        # mask: false iff source row <2 ; check away from boundary
        grid = np.indices(res.shape).reshape(len(res.shape),-1).T.astype(float)
        src = T.apply(grid)
        m = res.mask.mask.ravel()
        inside = np.all((src>=0)&(src<=np.array(im.shape)-1),axis=1)
        clear_true = inside & (src[:,0]>2.6); clear_false = inside & (src[:,0]<1.4)
        merr = (int((~m[clear_true]).sum()), int(m[clear_false].sum()))
    print(f"{name:45s} res{res.shape} n_ok={ok.sum()} lm-pixel err={err if err is None else round(err,4)} T-lm err={terr if terr is None else round(terr,6)} T-pixel err={perr if perr is None else round(perr,4)} mask={merr}")
for cls in [Image, MaskedImage]:
    print("=====", cls.__name__)
    im = coord_image((40,50), cls, extra=1)
    im.landmarks['l'] = PointCloud(rng.uniform([8,8],[31,41],size=(12,2)))
    check("crop", im, lambda i: i.crop(np.array([3.3,4.2]),np.array([36.5,46.1]),return_transform=True))
    check("crop_to_landmarks", im, lambda i: i.crop_to_landmarks(boundary=4,return_transform=True))
    check("crop_to_landmarks_proportion", im, lambda i: i.crop_to_landmarks_proportion(0.2,return_transform=True))
    for s in [0.5, 1.7, (0.7,1.3), 2.0]:
        for rnd in ["ceil","round","floor"]:
            check(f"rescale {s} {rnd}", im, lambda i: i.rescale(s, round=rnd, return_transform=True))
    check("rescale_to_diagonal", im, lambda i: i.rescale_to_diagonal(90.,return_transform=True))
    check("rescale_to_pointcloud", im, lambda i: i.rescale_to_pointcloud(PointCloud(i.landmarks['l'].points*1.3), group='l', return_transform=True))
    check("rescale_landmarks_to_diagonal_range", im, lambda i: i.rescale_landmarks_to_diagonal_range(50., group='l', return_transform=True))
    check("resize", im, lambda i: i.resize((63,47),return_transform=True))
    check("zoom 1.5", im, lambda i: i.zoom(1.5,return_transform=True))
    check("zoom 0.7", im, lambda i: i.zoom(0.7,return_transform=True))
    for th in [30,-75,200]:
        for rs in [False, True]:
            check(f"rotate {th} retain={rs}", im, lambda i: i.rotate_ccw_about_centre(th, retain_shape=rs, return_transform=True))
    check("mirror 0", im, lambda i: i.mirror(axis=0,return_transform=True))
    check("mirror 1", im, lambda i: i.mirror(axis=1,return_transform=True))
    A = Affine.init_from_2d_shear(10,5)
    for rs in [False,True]:
        check(f"transform_about_centre shear retain={rs}", im, lambda i: i.transform_about_centre(A, retain_shape=rs, return_transform=True))
    h = np.eye(3); h[:2,:2]+=rng.normal(size=(2,2))*.1; h[:2,2]=[2,-3]
    check("warp_to_shape affine", im, lambda i: i.warp_to_shape((30,35), Affine(h), warp_landmarks=True, return_transform=True))
    check("warp_to_mask affine", im, lambda i: i.warp_to_mask(BooleanImage.init_blank((30,35)), Affine(h), warp_landmarks=True, return_transform=True))
    # pwa / tps warps: template landmarks -> source landmarks
    srcl = np.array([[5,5],[5,44],[34,5],[34,44],[20,25.]]); tmpl = srcl*0.8+rng.normal(size=srcl.shape)*1.0
    pwa = PiecewiseAffine(PointCloud(tmpl), PointCloud(srcl)); tps = ThinPlateSplines(PointCloud(tmpl), PointCloud(srcl))
    tmask = BooleanImage.init_blank((30,38)).constrain_to_pointcloud(PointCloud(tmpl))
    im2 = im.copy(); im2.landmarks['l'] = PointCloud(rng.uniform([10,10],[30,40],size=(8,2)))
    check("warp_to_mask pwa", im2, lambda i: i.warp_to_mask(tmask, pwa, warp_landmarks=True, return_transform=True), interior=1.)
    check("warp_to_mask tps", im2, lambda i: i.warp_to_mask(tmask, tps, warp_landmarks=True, return_transform=True), interior=1.)
    pyr = list(im.pyramid(n_levels=3, downscale=2)); 
    for lv,p in enumerate(pyr): check(f"pyramid level {lv}", im, lambda i: p)
    pyr = list(im.gaussian_pyramid(n_levels=3, downscale=2)); 
    for lv,p in enumerate(pyr): check(f"gaussian_pyramid level {lv}", im, lambda i: p, interior=4.)
