import warnings; warnings.simplefilter("ignore")
import numpy as np, itertools
from menpo.model import *
from menpo.shape import *
rng = np.random.default_rng(41)
def ref_precision(X, graph, k, mode, bias, ncomp):
    V = graph.n_vertices; F = V*k
    Q = np.zeros((F,F))
    def inv(C):
        C = np.atleast_2d(C)
        if ncomp is None: return np.linalg.inv(C)
        u,s,vt = np.linalg.svd(C); return u[:,:ncomp]@np.diag(1/s[:ncomp])@vt[:ncomp]
    if graph.n_edges==0:
        for v in range(V):
            Q[v*k:(v+1)*k, v*k:(v+1)*k] += inv(np.cov(X[:, v*k:(v+1)*k], rowvar=0, bias=bias))
        return Q
    for (a,b) in graph.edges:
        ia = list(range(a*k,(a+1)*k)); ib=list(range(b*k,(b+1)*k))
        if mode=="concatenation":
            P = inv(np.cov(X[:, ia+ib], rowvar=0, bias=bias)); idx=ia+ib; Q[np.ix_(idx,idx)] += P
        else:
            P = inv(np.cov(X[:,ia]-X[:,ib], rowvar=0, bias=bias))
            Q[np.ix_(ia,ia)] += P; Q[np.ix_(ib,ib)] += P; Q[np.ix_(ia,ib)] -= P; Q[np.ix_(ib,ia)] -= P
    return Q
worst = {}
for it in range(150):
    V = int(rng.integers(2,8)); k=int(rng.integers(2,4))
    pairs = list(itertools.combinations(range(V),2)); edges=[p if rng.random()<.5 else p[::-1] for p in pairs if rng.random()<.4]
    kind = rng.choice(["und","dir"])
    if kind=="und": g = UndirectedGraph.init_from_edges(np.array(edges) if edges else None, V)
    else: g = DirectedGraph.init_from_edges(np.array(edges) if edges else None, V)
    F=V*k
    A = np.eye(F)+rng.normal(size=(F,F))*.25
    X = rng.normal(size=(60,F))@A + rng.normal(size=F)
    for mode in ["concatenation","subtraction"]:
      for dtype in [np.float32,np.float64]:
        for ncomp in [None, k if mode=="concatenation" else max(1,k-1)]:
            if g.n_edges==0 and ncomp is not None: ncomp=max(1,k-1)
            try:
                ms = GMRFVectorModel(X, g, mode=mode, sparse=True, dtype=dtype, n_components=ncomp)
                md = GMRFVectorModel(X, g, mode=mode, sparse=False, dtype=dtype, n_components=ncomp)
            except Exception as e:
                print("EXC", kind, mode, dtype.__name__, ncomp, type(e).__name__, e); continue
            Qs = ms.precision.toarray().astype(float); Qd = md.precision.astype(float); R = ref_precision(X,g,k,mode,0,ncomp)
            sc = np.abs(R).max()
            key=(dtype.__name__, ncomp is not None)
            e = max(np.abs(Qs-Qd).max(), np.abs(Qd-R).max())/sc
            worst[key]=max(worst.get(key,0), e)
            ev = np.linalg.eigvalsh((Qd+Qd.T)/2)
            if ev.min() < -1e-4*sc and dtype is np.float64: print("not psd", ev.min(), sc)
            # sparsity
            adj = np.zeros((V,V),bool)
            for a,b in g.edges: adj[a,b]=adj[b,a]=True
            for a in range(V):
                for b in range(V):
                    if a!=b and not adj[a,b] and np.abs(Qd[a*k:(a+1)*k,b*k:(b+1)*k]).max()>0: print("coupling without edge")
print(worst)
