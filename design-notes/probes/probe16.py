import warnings; warnings.simplefilter("ignore")
import numpy as np, itertools
np.in1d = np.isin   # simulate the planned fix
from menpo.shape import *
from menpo.image import Image
from menpo.transform import *
rng = np.random.default_rng(6)
def rand_mesh(d, n=12, nt=14, cls=TriMesh):
    pts = rng.normal(size=(n,d))
    tl = np.array([rng.choice(n,3,replace=False) for _ in range(nt)])
    if cls is TriMesh: return TriMesh(pts, tl)
    if cls is ColouredTriMesh: return ColouredTriMesh(pts, tl, colours=rng.random((n,3)))
    return TexturedTriMesh(pts, rng.random((n,2)), Image(rng.random((3,6,7))), tl)
bad=0
for it in range(300):
    d = rng.choice([2,3]); cls = [TriMesh,ColouredTriMesh,TexturedTriMesh][it%3]
    m = rand_mesh(d, cls=cls)
    mask = rng.random(m.n_points) > rng.choice([0.1,0.3,0.5])
    keep_tri = mask[m.trilist].all(axis=1)
    if not keep_tri.any(): continue
    try:
        r = m.from_mask(mask)
    except Exception as e:
        print("EXC", type(e).__name__, e); bad+=1; continue
    exp_tris = m.points[m.trilist[keep_tri]]  # (t,3,d)
    got_tris = r.points[r.trilist]
    ok = exp_tris.shape==got_tris.shape and np.array_equal(exp_tris, got_tris)
    used = np.unique(m.trilist[keep_tri])
    ok2 = r.n_points==len(used) and np.array_equal(r.points, m.points[used])
    ok3=True
    if cls is ColouredTriMesh: ok3 = np.array_equal(r.colours, m.colours[used])
    if cls is TexturedTriMesh: ok3 = np.array_equal(r.tcoords.points, m.tcoords.points[used])
    if not (ok and ok2 and ok3): bad+=1; print("mask mismatch", cls.__name__, ok, ok2, ok3)
    # tri mask
    tmask = rng.random(m.n_tris)>.5
    if tmask.any():
        r = m.from_tri_mask(tmask)
        # from_tri_mask -> point mask of used vertices -> keeps triangles all of whose vertices survive (may include more triangles than tmask)
        pm = np.zeros(m.n_points,bool); pm[np.unique(m.trilist[tmask])]=True
        kt = pm[m.trilist].all(axis=1)
        if not np.array_equal(m.points[m.trilist[kt]], r.points[r.trilist]): bad+=1; print("trimask mismatch")
print("mask bad", bad)
# geometry
bad=0
for it in range(200):
    d = rng.choice([2,3]); m = rand_mesh(d)
    try:
        A = m.tri_areas()
    except Exception as e:
        print("tri_areas EXC", d, type(e).__name__); bad+=1; continue
    q,_ = np.linalg.qr(rng.normal(size=(d,d))); 
    if np.linalg.det(q)<0: q[:,0]*=-1
    R = Rotation(q); t = Translation(rng.normal(size=d)); s = rng.uniform(.3,3); S = UniformScale(s,d)
    m2 = t.apply(R.apply(m)); m3 = S.apply(m)
    if not (np.all(A>=0) and np.allclose(m2.tri_areas(),A) and np.allclose(m3.tri_areas(), s*s*A)): bad+=1; print("area invariance")
    el = m.edge_lengths()
    if not (np.all(el>=0) and np.allclose(m2.edge_lengths(),el) and np.allclose(m3.edge_lengths(), s*el)): bad+=1; print("edge len")
    if d==3:
        tn = m.tri_normals(); vn = m.vertex_normals()
        if not np.allclose(np.linalg.norm(tn,axis=1),1): bad+=1; print("tn unit")
        usedv = np.unique(m.trilist); 
        vnn = np.linalg.norm(vn,axis=1)
        if not np.allclose(vnn[usedv][vnn[usedv]>1e-6],1): bad+=1; print("vn unit")
        ev = m.points[m.trilist]
        if not (np.allclose(np.einsum('td,td->t', tn, ev[:,1]-ev[:,0]),0,atol=1e-9) and np.allclose(np.einsum('td,td->t', tn, ev[:,2]-ev[:,0]),0,atol=1e-9)): bad+=1; print("perp")
        if not np.allclose(R.apply(m).tri_normals(), tn@q.T, atol=1e-9): bad+=1; print("normals follow rotation")
    # boundary
    from collections import Counter
    cnt = Counter()
    for tri in m.trilist:
        for a,b in [(0,1),(1,2),(2,0)]: cnt[tuple(sorted((tri[a],tri[b])))]+=1
    exp = np.array([any(cnt[tuple(sorted((tri[a],tri[b])))]==1 for a,b in [(0,1),(1,2),(2,0)]) for tri in m.trilist])
    try:
        got = m.boundary_tri_index()
        if not np.array_equal(exp,got): bad+=1; print("boundary mismatch", (exp!=got).sum(), "max edge mult", max(cnt.values()))
    except Exception as e: bad+=1; print("boundary EXC", type(e).__name__, e)
    ue = m.unique_edge_indices()
    if set(map(tuple,ue.tolist()))!=set(cnt.keys()) or len(ue)!=len(cnt): bad+=1; print("unique edges")
print("geom bad", bad)
