import warnings; warnings.simplefilter("ignore")
import numpy as np
from menpo.shape import *
from menpo.transform import *
rng = np.random.default_rng(1)
for d in [2,3]:
    src = PointCloud(rng.normal(size=(8,d))); tgt = PointCloud(rng.normal(size=(8,d))); t2 = PointCloud(rng.normal(size=(8,d)))
    for cls in [AlignmentAffine, AlignmentSimilarity, AlignmentRotation, AlignmentTranslation, AlignmentUniformScale] + ([ThinPlateSplines, PiecewiseAffine] if d==2 else []):
        al = cls(src, tgt)
        keeps = np.allclose(al.target.points, tgt.points)
        is_same_obj = al.target is tgt
        err = al.alignment_error(); true_err = np.linalg.norm(al.apply(src.points)-tgt.points)
        al.set_target(t2)
        fresh = cls(src, t2)
        same_map = np.allclose(al.apply(src.points), fresh.apply(src.points))
        same_target = np.allclose(al.target.points, fresh.target.points)
        print(d, cls.__name__, "ctor keeps target:", keeps, "same obj:", is_same_obj, f"err {err:.3f} true {true_err:.3f}", "retarget==fresh map:", same_map, "target:", same_target, "fresh err", fresh.alignment_error(), "retargeted err", al.alignment_error())
