import warnings; warnings.simplefilter("ignore")
import numpy as np
from menpo.shape import *
from menpo.transform import *
from menpo.feature import *
from menpo.image import *
rng = np.random.default_rng(51)
def rand_rot(d):
    q,_=np.linalg.qr(rng.normal(size=(d,d)))
    if np.linalg.det(q)<0: q[:,0]*=-1
    return q
def small_rot(d, eps):
    A = rng.normal(size=(d,d)); A = A-A.T
    from scipy.linalg import expm
    return expm(eps*A)
bad=0
for it in range(300):
    d=int(rng.choice([2,3])); n=int(rng.integers(3,20))
    S = rng.normal(size=(n,d)); Tg = rng.normal(size=(n,d))
    for mirror in [False,True]:
        al = AlignmentRotation(PointCloud(S), PointCloud(Tg), allow_mirror=mirror)
        R = al.rotation_matrix; best = np.linalg.norm(S@R.T-Tg)
        if not np.allclose(R.T@R, np.eye(d), atol=1e-9): bad+=1; print("not orthogonal")
        if not mirror and np.linalg.det(R)<0: bad+=1; print("reflection")
        for c in range(60):
            Q = rand_rot(d) if c<30 else small_rot(d, 10**rng.uniform(-6,-1))@R
            if mirror and rng.random()<.5 and c<30: Q[:,0]*=-1
            if np.linalg.norm(S@Q.T-Tg) < best-1e-9: bad+=1; print("competitor beats rotation", mirror, best-np.linalg.norm(S@Q.T-Tg))
        # similarity
        for rot in [True,False]:
            sim = AlignmentSimilarity(PointCloud(S), PointCloud(Tg), rotation=rot, allow_mirror=mirror)
            A = sim.apply(S)
            if not (np.allclose(A.mean(0),Tg.mean(0)) and np.isclose(np.linalg.norm(A-A.mean(0)), np.linalg.norm(Tg-Tg.mean(0)))): bad+=1; print("sim centroid/size")
            L = sim.h_matrix[:d,:d]; s = np.linalg.norm(Tg-Tg.mean(0))/np.linalg.norm(S-S.mean(0))
            Rs = L/s
            if rot:
                Sc=(S-S.mean(0)); Tc=(Tg-Tg.mean(0))
                U,D,Vt=np.linalg.svd(Tc.T@Sc); Rk=U@Vt
                if not mirror and np.linalg.det(Rk)<0:
                    E=np.eye(d);E[-1,-1]=-1; Rk=U@E@Vt
                if not np.allclose(Rs,Rk,atol=1e-8): bad+=1; print("sim rotation != kabsch", mirror)
            else:
                if not np.allclose(Rs,np.eye(d),atol=1e-9): bad+=1; print("sim norot has rotation")
    # affine optimality: gradient zero
    if n>=d+2:
        al = AlignmentAffine(PointCloud(S), PointCloud(Tg))
        A = np.hstack([S,np.ones((n,1))]); M = al.h_matrix[:d,:].T
        grad = A.T@(A@M-Tg)
        if np.abs(grad).max()>1e-8: bad+=1; print("affine gradient", np.abs(grad).max())
        ls = np.linalg.lstsq(A,Tg,rcond=None)[0]
        if not np.allclose(ls,M,atol=1e-8): bad+=1; print("affine != lstsq")
    tr = AlignmentTranslation(PointCloud(S), PointCloud(Tg))
    if not np.allclose(tr.translation_component, Tg.mean(0)-S.mean(0)): bad+=1; print("translation")
print("align bad", bad)
# features float32 & composition
im = Image(rng.random((2,30,32)).astype(np.float32)); 
for name,f in [("gradient",gradient),("igo",igo),("es",es),("gauss",lambda x:gaussian_filter(x,1.)),("daisy",lambda x:daisy(x,step=3,radius=4,rings=1)),("nstd",normalize_std),("comp",lambda x: igo(gaussian_filter(x,1.)))]:
    o = f(im); a = f(im.pixels)
    print(name, o.pixels.dtype, a.dtype, np.allclose(o.pixels,a,equal_nan=True), np.isfinite(o.pixels).all())
