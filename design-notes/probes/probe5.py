import warnings; warnings.simplefilter("ignore")
import numpy as np, itertools, sys, os
from menpo.shape import *
from menpo.image import *
from menpo.feature import *
rng = np.random.default_rng(0)
def T(name, f):
    try:
        r = f()
        print(f"[{name}] ->", r)
    except Exception as e:
        print(f"[{name}] EXC {type(e).__name__}: {e}")
const = Image(np.ones((3,5,5)))
mixed = Image(np.stack([np.ones((5,5)), rng.random((5,5)), rng.random((5,5))]))
for f in [normalize_std, normalize_norm, normalize_var]:
    for mode in ["all","per_channel"]:
        T(f"{f.__name__} const {mode} err", lambda: f(const, mode=mode).pixels.max())
        T(f"{f.__name__} const {mode} skip", lambda: np.isfinite(f(const, mode=mode, error_on_divide_by_zero=False).pixels).all())
        T(f"{f.__name__} mixed {mode} skip", lambda: np.isfinite(f(mixed, mode=mode, error_on_divide_by_zero=False).pixels).all())
        T(f"{f.__name__} mixed {mode} err", lambda: np.isfinite(f(mixed, mode=mode).pixels).all())
# single-channel constant, 'all' skip
c1 = Image(np.ones((1,5,5)))
T("std 1ch all skip", lambda: normalize_std(c1, mode='all', error_on_divide_by_zero=False).pixels.max())
# features arrays vs images
im = Image(rng.random((2,40,42))); im.landmarks['a']=PointCloud(rng.random((4,2))*30)
mim = MaskedImage(rng.random((2,40,42)), mask=rng.random((40,42))>.2); mim.landmarks['a']=PointCloud(rng.random((4,2))*30)
for name, f in [("gradient",gradient),("gauss",lambda x: gaussian_filter(x,1.5)),("igo",igo),("digo",double_igo),("es",es),("daisy",lambda x: daisy(x,step=2,radius=5,rings=2)),("noop",no_op),("nstd",normalize_std),("nnorm", lambda x: normalize_norm(x,mode='per_channel'))]:
    for I in [im, mim]:
        before = I.pixels.copy()
        out = f(I)
        arr = f(I.pixels)
        print(name, type(I).__name__, "->", type(out).__name__, out.shape, "same vals:", np.allclose(out.pixels, arr, equal_nan=True), "input untouched:", np.array_equal(before, I.pixels), "lms:", out.has_landmarks, (out.landmarks['a'].points/I.landmarks['a'].points)[0] if out.has_landmarks else None, "mask" , getattr(out,'mask',None) is not None and out.mask.shape)
