import warnings; warnings.simplefilter("ignore")
import numpy as np, itertools
exec(open('/tmp/scratch/probe9.py').read().split("for k,o in objs.items():")[0])
np.in1d = np.isin
bad=0; tot=0
for d in [2,3]:
    sh = shapes(d)
    trs = {n: mk(n,d) for n in names}
    trs['Chain'] = TransformChain([mk("Affine",d), mk("Translation",d)])
    trs['ChainMixed'] = mk("Rotation",d).compose_before(WithDims(list(range(d))))
    if d==2:
        src = PointCloud(rng.normal(size=(6,2))*3); 
        trs['TPS']=ThinPlateSplines(src, PointCloud(src.points+rng.normal(size=(6,2))*.3))
    if d==3:
        trs['WithDims']=WithDims([0,1])
    for (sn,s),(tn,t) in itertools.product(sh.items(), trs.items()):
        tot+=1
        s0 = state(s); t0 = state(t)
        try:
            r = t.apply(s)
        except Exception as e:
            print("EXC", sn, tn, type(e).__name__, e); bad+=1; continue
        msgs=[]
        if type(r) is not type(s): msgs.append("type")
        if not np.allclose(r.points, t.apply(s.points)): msgs.append("points")
        for g in s.landmarks:
            if g not in r.landmarks or not np.allclose(r.landmarks[g].points, t.apply(s.landmarks[g].points)): msgs.append(f"lm {g}")
            elif type(r.landmarks[g]) is not type(s.landmarks[g]): msgs.append("lm type")
        if state(s)!=s0: msgs.append("input mutated")
        if state(t)!=t0: msgs.append("transform mutated")
        for attr in ['adjacency_matrix','trilist','_labels_to_masks','colours','tcoords','texture','root_vertex','predecessors_list']:
            if hasattr(s,attr) and state(getattr(s,attr))!=state(getattr(r,attr)): msgs.append(f"struct {attr}")
        if msgs: bad+=1; print(sn,tn,msgs)
print("tot",tot,"bad",bad)
# PWA on in-domain shape
src = PointCloud(np.array([[0,0],[0,10],[10,0],[10,10],[5,5.]])); tgt = PointCloud(src.points*1.2+rng.normal(size=(5,2))*.3)
pwa = PiecewiseAffine(src,tgt)
for sn,s in shapes(2).items():
    s2 = s.copy(); s2.points = rng.uniform(1,9,size=s.points.shape)
    for g in s2.landmarks: s2.landmarks[g].points[:] = rng.uniform(1,9,size=s2.landmarks[g].points.shape)
    s0=state(s2)
    r = pwa.apply(s2)
    ok = np.allclose(r.points, PiecewiseAffine(src,tgt).apply(s2.points)) and all(np.allclose(r.landmarks[g].points, PiecewiseAffine(src,tgt).apply(s2.landmarks[g].points)) for g in s2.landmarks) and state(s2)==s0
    print("pwa", sn, ok)
