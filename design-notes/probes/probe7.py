import warnings; warnings.simplefilter("ignore")
import numpy as np, itertools, sys, os
exec(open('/tmp/scratch/probe6.py').read().split("bad = {}")[0])
print("--- inverses")
for d in [2,3]:
    for n in names:
        t = mk(n,d); x = rng.normal(size=(6,d))
        inv = t.pseudoinverse()
        e1 = np.abs(inv.apply(t.apply(x))-x).max(); e2 = np.abs(t.apply(inv.apply(x))-x).max()
        ok,why = honest(inv)
        extra = ""
        if isinstance(t, Targetable):
            extra = f"swap: {np.allclose(inv.source.points,t.target.points) and np.allclose(inv.target.points,t.source.points)} type {type(inv).__name__}"
        print(d,n,type(inv).__name__, f"{e1:.1e} {e2:.1e}", ok, why, t.has_true_inverse, extra)
print("--- alignments exact recovery & optimality")
from scipy.optimize import minimize
for d in [2,3]:
    src = PointCloud(rng.normal(size=(8,d)))
    for n in ["Affine","Similarity","Rotation","Translation","UniformScale"]:
        g = mk(n,d)
        tgt = g.apply(src)
        cls = {"Affine":AlignmentAffine,"Similarity":AlignmentSimilarity,"Rotation":AlignmentRotation,"Translation":AlignmentTranslation,"UniformScale":AlignmentUniformScale}[n]
        al = cls(src,tgt)
        print(d,n,"recover", np.abs(al.h_matrix-g.h_matrix).max(), "err", al.alignment_error(), "aligned==apply", np.allclose(al.aligned_source().points, al.apply(src.points)))
    # noisy
    tgt = PointCloud(rng.normal(size=(8,d)))
    al = AlignmentRotation(src,tgt); print("rot det", np.linalg.det(al.rotation_matrix))
    al = AlignmentRotation(src,tgt, allow_mirror=True); print("rot mirror det", np.linalg.det(al.rotation_matrix))
    al = AlignmentSimilarity(src,tgt); a = al.apply(src); print("sim centroid", np.abs(a.centre()-tgt.centre()).max(), "norm", a.norm()-tgt.norm(), "det", np.linalg.det(al.h_matrix[:d,:d]))
    al = AlignmentSimilarity(src,tgt, rotation=False); a = al.apply(src); print("sim norot centroid", np.abs(a.centre()-tgt.centre()).max(), "norm", a.norm()-tgt.norm(), al.h_matrix[:d,:d])
    al = AlignmentUniformScale(src,tgt); a = al.apply(src); print("uscale norm", a.norm()-tgt.norm(), "centre", a.centre(), tgt.centre())
