import warnings; warnings.simplefilter("ignore")
import numpy as np, itertools, tempfile, pathlib, shutil
from menpo.shape import *
from menpo.image import *
from menpo.image.base import ImageBoundaryError
from menpo.transform import *
from menpo.model import *
import menpo.io as mio
rng = np.random.default_rng(31)
print("== n-D crops on all classes")
bad=0; n=0
for it in range(600):
    nd = int(rng.choice([2,3,4])); shape = tuple(int(x) for x in rng.integers(3,9,size=nd)); C=int(rng.integers(1,5))
    kind = rng.choice(["Image","Masked","Boolean"])
    dt = rng.choice([np.uint8,np.uint16,np.int32,np.float32,np.float64])
    if kind=="Image": im = Image((rng.random((C,)+shape)*200).astype(dt))
    elif kind=="Masked": im = MaskedImage((rng.random((C,)+shape)*200).astype(dt), mask=rng.random(shape)>.3)
    else: im = BooleanImage(rng.random(shape)>.5)
    im.landmarks['l']=PointCloud(rng.random((4,nd))*np.array(shape))
    lo = rng.uniform(-2, np.array(shape)-1.5); hi = lo + rng.uniform(1.2, np.array(shape)+2)
    if rng.random()<.5: lo=np.floor(lo); hi=np.ceil(hi)
    constrain = bool(rng.random()<.5)
    fl = np.floor(lo).astype(int); ce = np.ceil(hi).astype(int)
    outside = (fl<0).any() or (ce>np.array(shape)).any()
    n+=1
    try:
        r = im.crop(lo, hi, constrain_to_boundary=constrain)
    except ImageBoundaryError:
        if not outside or constrain: bad+=1; print("unexpected IBE")
        continue
    except Exception as e:
        bad+=1; print("EXC", kind, nd, dt.__name__, type(e).__name__, e); continue
    if outside and not constrain:
        # known defect 10: one-sided accepted. count separately
        both = (fl<0).any() and (ce>np.array(shape)).any()
        if both: print("both-sided accepted?!")
        continue
    a = np.clip(fl,0,shape); b=np.clip(ce,0,shape)
    sl = (slice(None),)+tuple(slice(x,y) for x,y in zip(a,b))
    ok = r.pixels.dtype==im.pixels.dtype and np.array_equal(r.pixels, im.pixels[sl]) and np.allclose(r.landmarks['l'].points, im.landmarks['l'].points - a)
    if kind=="Masked": ok = ok and np.array_equal(r.mask.pixels, im.mask.pixels[sl]) 
    if type(r) is not type(im): ok=False
    if not ok: bad+=1; print("crop mismatch", kind, nd, dt.__name__, r.pixels.shape, im.pixels[sl].shape)
print("crops", n, "bad", bad)
print("== PWA affine-in-triangle & continuity")
bad=0
for it in range(200):
    npts = int(rng.integers(4,12)); src = rng.uniform(0,10,size=(npts,2)); tgt = src + rng.normal(size=(npts,2))*.5
    try: pwa = PiecewiseAffine(PointCloud(src), PointCloud(tgt))
    except Exception as e: print("ctor", e); continue
    tl = pwa.trilist
    # interpolation
    if not np.allclose(pwa.apply(src), tgt, atol=1e-8): bad+=1; print("interp")
    for tri in tl:
        w = rng.dirichlet(np.ones(3), size=4)
        p = w@src[tri]; q = w@tgt[tri]
        if not np.allclose(pwa.apply(p), q, atol=1e-8): bad+=1; print("not affine in tri", np.abs(pwa.apply(p)-q).max())
    # continuity across shared edges
    from collections import defaultdict
    em = defaultdict(list)
    for ti,tri in enumerate(tl):
        for a,b in [(0,1),(1,2),(2,0)]: em[tuple(sorted((tri[a],tri[b])))].append(ti)
    for (a,b),ts in em.items():
        if len(ts)==2:
            mid = (src[a]+src[b])/2
            c0 = src[tl[ts[0]]].mean(0); c1 = src[tl[ts[1]]].mean(0)
            eps=1e-7
            p0 = mid+(c0-mid)*eps; p1 = mid+(c1-mid)*eps
            d = np.abs(pwa.apply(p0[None])-pwa.apply(p1[None])).max()
            if d>1e-5: bad+=1; print("discontinuity", d)
print("pwa bad", bad)
from collections import OrderedDict
print("== pickle every class")
td = pathlib.Path(tempfile.mkdtemp())
exec(open('/tmp/scratch/probe9.py').read().split("objs = OrderedDict()")[0].split("rng = np.random.default_rng(2)")[1])
objs = OrderedDict()
for d in [2,3]:
    for k,v in shapes(d).items(): objs[f"{k}{d}"]=v
for k,v in images().items(): objs[k]=v
for d in [2,3]:
    for nme in names: objs[f"{nme}{d}"]=mk(nme,d)
objs['TPS']=ThinPlateSplines(PointCloud(rng.normal(size=(6,2))),PointCloud(rng.normal(size=(6,2))))
objs['PWA']=PiecewiseAffine(PointCloud(rng.normal(size=(6,2))),PointCloud(rng.normal(size=(6,2))))
objs['Chain']=TransformChain([mk("Affine",2), mk("Rotation",2)])
objs['PCAModel']=PCAModel([PointCloud(rng.normal(size=(4,2))) for _ in range(8)])
objs['GMRF']=GMRFVectorModel(rng.normal(size=(20,6)), UndirectedGraph.init_from_edges(np.array([[0,1],[1,2]]),3), incremental=True)
for ext in [".pkl",".pkl.gz"]:
    for k,o in objs.items():
        p = td/(k+ext)
        try:
            mio.export_pickle(o,p); b = mio.import_pickle(p)
            s1 = state(o); s2 = state(b)
            if s1!=s2:
                # ignore path attr
                print("pickle differs", k, ext)
        except Exception as e: print("pickle EXC", k, ext, type(e).__name__, e)
shutil.rmtree(td)
print("done")
