import warnings; warnings.simplefilter("ignore")
import numpy as np, itertools, sys
sys.setrecursionlimit(10000)
from menpo.shape import *
rng = np.random.default_rng(3)
def ref_has_cycle_undirected(n, edges):
    parent = list(range(n))
    def find(x):
        while parent[x]!=x: parent[x]=parent[parent[x]]; x=parent[x]
        return x
    for a,b in edges:
        ra,rb=find(a),find(b)
        if ra==rb: return True
        parent[ra]=rb
    return False
def ref_has_cycle_directed(n, edges):
    adj=[[] for _ in range(n)]
    for a,b in edges: adj[a].append(b)
    color=[0]*n
    def dfs(u):
        color[u]=1
        for v in adj[u]:
            if color[v]==1: return True
            if color[v]==0 and dfs(v): return True
        color[u]=2; return False
    return any(color[u]==0 and dfs(u) for u in range(n))
bad=0; tot=0
for n in range(1,6):
    pairs = list(itertools.combinations(range(n),2))
    for mask in range(2**len(pairs)):
        edges=[p for i,p in enumerate(pairs) if mask>>i&1]
        g = UndirectedGraph.init_from_edges(np.array(edges) if edges else None, n)
        tot+=1
        r = ref_has_cycle_undirected(n,edges)
        if g.has_cycles()!=r: bad+=1; print("undirected mismatch", n, edges, g.has_cycles(), r) if bad<5 else None
        es = set(map(tuple, g.edges.tolist()))
        if es != set(edges): print("edge set mismatch", edges, es)
        # is_tree: textbook: connected & acyclic => n-1 edges & acyclic
        if g.is_tree() != ((not r) and len(edges)==n-1): print("is_tree mismatch", n, edges)
print("undirected", tot, "bad", bad)
bad=0; tot=0
for n in range(1,5):
    pairs = [(a,b) for a in range(n) for b in range(n) if a!=b]
    for mask in range(2**len(pairs)):
        edges=[p for i,p in enumerate(pairs) if mask>>i&1]
        g = DirectedGraph.init_from_edges(np.array(edges) if edges else None, n)
        tot+=1
        r = ref_has_cycle_directed(n,edges)
        if g.has_cycles()!=r:
            bad+=1
            if bad<8: print("directed mismatch", n, edges, g.has_cycles(), r)
print("directed", tot, "bad", bad)
