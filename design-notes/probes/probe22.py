import warnings; warnings.simplefilter("ignore")
import numpy as np, itertools, heapq
from menpo.shape import *
rng = np.random.default_rng(11)
def rand_tree_edges(n):
    return [(int(rng.integers(0,i)), i) for i in range(1,n)]
bad=0
for it in range(300):
    n = int(rng.integers(2,12)); pts = rng.normal(size=(n,2))
    # undirected
    pairs = list(itertools.combinations(range(n),2))
    edges = [p for p in pairs if rng.random()<0.3]
    g = PointUndirectedGraph.init_from_edges(pts, np.array(edges) if edges else None)
    mask = rng.random(n)>.3
    if mask.any():
        try:
            r = g.from_mask(mask)
            keep = np.nonzero(mask)[0]; remap = {int(v):i for i,v in enumerate(keep)}
            exp = {(remap[a],remap[b]) for a,b in edges if mask[a] and mask[b]}
            got = set(map(tuple, r.edges.tolist()))
            if exp!=got or not np.array_equal(r.points, pts[mask]): bad+=1; print("PUG mask mismatch")
        except Exception as e: print("PUG EXC", type(e).__name__, e, mask.sum()); bad+=1
    # directed no antiparallel
    dedges = [(a,b) if rng.random()<.5 else (b,a) for a,b in edges]
    dg = PointDirectedGraph.init_from_edges(pts, np.array(dedges) if dedges else None)
    if mask.any():
        try:
            r = dg.from_mask(mask)
            exp = {(remap[a],remap[b]) for a,b in dedges if mask[a] and mask[b]}
            got = set(map(tuple, r.edges.tolist()))
            if exp!=got or not np.array_equal(r.points, pts[mask]): bad+=1; print("PDG mask mismatch")
        except Exception as e: print("PDG EXC", type(e).__name__, e); bad+=1
    # tree
    te = rand_tree_edges(n)
    t = PointTree.init_from_edges(pts, np.array(te), 0)
    m2 = rng.random(n)>.3; m2[0]=True
    try:
        r = t.from_mask(m2)
        # expected: vertices reachable from root via kept vertices
        ch = {i:[] for i in range(n)}
        for a,b in te: ch[a].append(b)
        reach=[]; stack=[0]
        while stack:
            u=stack.pop(); reach.append(u)
            for v in ch[u]:
                if m2[v]: stack.append(v)
        reach=sorted(reach); rm={v:i for i,v in enumerate(reach)}
        exp={(rm[a],rm[b]) for a,b in te if a in rm and b in rm}
        got=set(map(tuple,r.edges.tolist()))
        if exp!=got or not np.array_equal(r.points, pts[reach]) or r.root_vertex!=0: bad+=1; print("tree mask mismatch", exp, got)
    except Exception as e: print("Tree EXC", type(e).__name__, e, m2.astype(int), te); bad+=1
    # tree consistency
    for v in range(n):
        p = t.parent(v)
        if v==0:
            if p is not None: print("root parent", p)
        else:
            if v not in t.children(p): print("parent/children inconsistent")
            if t.depth_of_vertex(v)!=t.depth_of_vertex(p)+1: print("depth inconsistent")
        if t.is_leaf(v)!=(len(t.children(v))==0): print("leaf")
print("bad",bad)
