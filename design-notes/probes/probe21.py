import warnings; warnings.simplefilter("ignore")
import numpy as np, inspect, re
import menpo.landmark.labels as L
from menpo.landmark import LabellingError
from menpo.shape import *
from menpo.transform import *
rng = np.random.default_rng(9)
funcs = {n:f for n,f in vars(L).items() if callable(f) and hasattr(f,'group_label') or (callable(f) and '_to_' in n)}
print(len(funcs))
def expected_n(name, f):
    # discover expected size by trying sizes
    for n in range(1,120):
        for d in ([3] if 'bu3dfe' in name or 'human36M' in name else [2]):
            try:
                f(np.zeros((n,d))+np.arange(n)[:,None]); return n,d
            except LabellingError: pass
            except Exception as e: return ('EXC', n, type(e).__name__, str(e)[:80])
    return None
for name,f in sorted(funcs.items()):
    if 'bounding_box' in name: continue
    e = expected_n(name,f)
    if not isinstance(e, tuple) or e[0]=='EXC': print(name, "size discovery:", e); continue
    n,d = e
    pts = rng.normal(size=(n,d))*10
    msgs=[]
    for kind in ['array','pc','lpug']:
        if kind=='array': x = pts.copy()
        elif kind=='pc': x = PointCloud(pts)
        else: x = LabelledPointUndirectedGraph.init_with_all_label(pts, np.zeros((n,n)))
        x0 = pts.copy()
        out = f(x)
        op = out.points
        # each output point equals some input point; distinct
        idx = [np.nonzero((pts==p).all(axis=1))[0] for p in op]
        if any(len(i)!=1 for i in idx): msgs.append(f"{kind}: output not input points")
        else:
            ii = [int(i[0]) for i in idx]
            if len(set(ii))!=len(ii): msgs.append(f"{kind}: duplicates")
        if hasattr(out,'_labels_to_masks'):
            cov = np.sum(list(out._labels_to_masks.values()),axis=0)
            if (cov==0).any(): msgs.append("unlabelled")
        xin = x if kind=='array' else x.points
        if not np.array_equal(xin, x0): msgs.append("input mutated")
        # commute with transform
        t = Affine(np.vstack([np.hstack([rng.normal(size=(d,d)), rng.normal(size=(d,1))]), [0]*d+[1]]))
        a = f(t.apply(pts) if kind=='array' else t.apply(x)).points
        b = t.apply(out.points)
        if not np.allclose(a,b): msgs.append(f"{kind}: not commuting")
    for wrong in [n-1,n+1]:
        try: f(np.zeros((wrong,d))); msgs.append(f"wrong size {wrong} accepted")
        except LabellingError: pass
        except Exception as ex: msgs.append(f"wrong size -> {type(ex).__name__}")
    print(name, n, d, type(out).__name__, msgs if msgs else "ok")
