import warnings; warnings.simplefilter("ignore")
import numpy as np, itertools, sys
from collections import OrderedDict
from menpo.shape import *
from menpo.shape.graph import *
rng = np.random.default_rng(0)
def T(name, f):
    try:
        r = f()
        print(f"[{name}] ->", r)
    except Exception as e:
        print(f"[{name}] EXC {type(e).__name__}: {e}")
# shortest path cost on weighted graph
W = np.zeros((5,5))
def add(i,j,w): W[i,j]=w; W[j,i]=w
add(0,1,1.); add(1,2,2.); add(2,3,3.); add(3,4,4.); add(0,4,20.)
g = UndirectedGraph(W)
T("shortest 0->4", lambda: g.find_shortest_path(0,4))
T("shortest 0->3", lambda: g.find_shortest_path(0,3))
T("shortest 0->2", lambda: g.find_shortest_path(0,2))
T("shortest 0->0", lambda: g.find_shortest_path(0,0))
# exhaustively check has_cycles on undirected graphs up to 5 vertices
import networkx as nx
