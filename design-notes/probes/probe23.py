import warnings; warnings.simplefilter("ignore")
import numpy as np, itertools
from menpo.shape import *
from scipy.sparse import csgraph
rng = np.random.default_rng(11)
cnt=0; fails=0
for it in range(2000):
    n = int(rng.integers(2,9))
    te = [(int(rng.integers(0,i)), i) for i in range(1,n)]
    cnt+=1
    try:
        t = Tree.init_from_edges(np.array(te), n, 0)
    except ValueError as e:
        fails+=1
        if fails<4:
            from menpo.shape.graph import _convert_edges_to_adjacency_matrix
            A = _convert_edges_to_adjacency_matrix(np.array(te), n)
            B = csgraph.breadth_first_tree(A, 0, directed=True)
            print(te, str(e)[:50]); print(" A nonzero", A.nonzero()); print(" B nonzero", B.nonzero())
print(cnt, fails)
# permuted labels: child index may be less than parent index
fails2=0
for it in range(2000):
    n = int(rng.integers(2,9))
    te = [(int(rng.integers(0,i)), i) for i in range(1,n)]
    perm = rng.permutation(n); te2=[(int(perm[a]),int(perm[b])) for a,b in te]; root=int(perm[0])
    try: Tree.init_from_edges(np.array(te2), n, root)
    except ValueError: fails2+=1
print("permuted fails", fails2)
