import warnings; warnings.simplefilter("ignore")
import numpy as np, itertools
exec(open('/tmp/scratch/probe9.py').read().split("for k,o in objs.items():")[0])
import scipy.sparse as sp
from menpo.model import *
from menpo.base import LazyList
from menpo.landmark import LandmarkManager
def buffers(o, path="", seen=None, out=None):
    if seen is None: seen=set(); out=[]
    if id(o) in seen: return out
    seen.add(id(o))
    if isinstance(o, np.ndarray): out.append((path,o))
    elif sp.issparse(o):
        for a in ['data','indices','indptr']: out.append((path+"."+a, getattr(o,a)))
    elif isinstance(o,(dict,OrderedDict)):
        for k,v in o.items(): buffers(v, f"{path}[{k!r}]", seen, out)
    elif isinstance(o,(list,tuple)):
        for i,v in enumerate(o): buffers(v, f"{path}[{i}]", seen, out)
    elif hasattr(o,'__dict__'):
        for k,v in o.__dict__.items(): buffers(v, f"{path}.{k}", seen, out)
    return out
# models
X = rng.normal(size=(10,6))
objs['PCAVector']=PCAVectorModel(X.copy())
objs['PCAModel']=PCAModel([PointCloud(rng.normal(size=(4,2))) for _ in range(8)])
g = UndirectedGraph.init_from_edges(np.array([[0,1],[1,2]]),3)
objs['GMRFVector']=GMRFVectorModel(rng.normal(size=(20,6)), g, incremental=True)
objs['Chain']=TransformChain([mk("Affine",2), mk("Rotation",2)])
objs['TPS']=ThinPlateSplines(PointCloud(rng.normal(size=(6,2))),PointCloud(rng.normal(size=(6,2))))
objs['PWA']=PiecewiseAffine(PointCloud(rng.normal(size=(6,2))),PointCloud(rng.normal(size=(6,2))))
objs['PWA'].apply(objs['PWA'].source.points)
lm = LandmarkManager(); lm['a']=PointCloud(rng.normal(size=(3,2))); lm['b']=objs['LPUG2']
objs['LandmarkManager']=lm
objs['LazyList']=LazyList.init_from_iterable([1,2,3])
for k,o in objs.items():
    if not hasattr(o,'copy'): print(k,'no copy'); continue
    c = o.copy()
    shared=[]
    bo = buffers(o); bc = buffers(c)
    for (p1,a1) in bo:
        for (p2,a2) in bc:
            if a1.size and a2.size and np.shares_memory(a1,a2): shared.append((p1,p2))
    eq = state(o)==state(c)
    print(k, "| equal:", eq, "| shared:", shared[:6])
