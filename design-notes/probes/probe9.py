import warnings; warnings.simplefilter("ignore")
import numpy as np, itertools
from collections import OrderedDict
from menpo.shape import *
from menpo.image import *
from menpo.transform import *
from menpo.base import Vectorizable
rng = np.random.default_rng(2)
exec(open('/tmp/scratch/probe6.py').read().split("bad = {}")[0].split("rng = np.random.default_rng(1)")[1])

def shapes(d):
    n=7
    pts = rng.normal(size=(n,d))
    tl = np.array([[0,1,2],[1,2,3],[3,4,5],[4,5,6]])
    out = OrderedDict()
    out['PointCloud']=PointCloud(pts)
    out['TriMesh']=TriMesh(pts, tl)
    out['ColouredTriMesh']=ColouredTriMesh(pts, tl, colours=rng.random((n,3)))
    out['TexturedTriMesh']=TexturedTriMesh(pts, rng.random((n,2)), Image(rng.random((3,5,6))), tl)
    e = np.array([[0,1],[1,2],[2,3],[4,5]])
    out['PUG']=PointUndirectedGraph.init_from_edges(pts, e)
    out['PDG']=PointDirectedGraph.init_from_edges(pts, e)
    te = np.array([[0,1],[0,2],[1,3],[1,4],[2,5],[5,6]])
    out['PointTree']=PointTree.init_from_edges(pts, te, 0)
    masks = OrderedDict([("a", np.array([1,1,1,0,0,0,0],bool)),("b",np.array([0,0,1,1,1,1,1],bool))])
    out['LPUG']=LabelledPointUndirectedGraph.init_from_edges(pts, e, masks)
    for k,s in out.items():
        s.landmarks['g1']=PointCloud(rng.normal(size=(3,d)))
        s.landmarks['g2']=PointUndirectedGraph.init_from_edges(rng.normal(size=(3,d)), np.array([[0,1]]))
    return out
def images():
    out=OrderedDict()
    out['Image']=Image(rng.random((2,5,6)))
    out['ImageU8']=Image((rng.random((3,5,6))*255).astype(np.uint8))
    out['Image3D']=Image(rng.random((2,4,5,3)))
    out['MaskedAll']=MaskedImage(rng.random((2,5,6)))
    out['MaskedSparse']=MaskedImage(rng.random((2,5,6)), mask=rng.random((5,6))>.5)
    out['Boolean']=BooleanImage(rng.random((5,6))>.5)
    for k,s in out.items():
        s.landmarks['g1']=PointCloud(rng.normal(size=(3,s.n_dims)))
    return out
def state(o, depth=0):
    # deep digest as nested tuples
    import scipy.sparse as sp
    if isinstance(o, np.ndarray): return ('nd', o.shape, str(o.dtype), o.tobytes())
    if sp.issparse(o): return ('sp', o.shape, state(o.toarray()))
    if isinstance(o, (dict, OrderedDict)): return ('dict', tuple((k, state(v)) for k,v in o.items()))
    if isinstance(o, (list,tuple)): return ('seq', tuple(state(v) for v in o))
    if hasattr(o, '__dict__'): return (type(o).__name__, tuple((k, state(v)) for k,v in sorted(o.__dict__.items()) if k not in ('_applied_points','_iab')))
    return ('val', repr(o))
objs = OrderedDict()
for d in [2,3]:
    for k,v in shapes(d).items(): objs[f"{k}{d}"]=v
for k,v in images().items(): objs[k]=v
for d in [2,3]:
    for n in names: objs[f"{n}{d}"]=mk(n,d)
for k,o in objs.items():
    if not isinstance(o, Vectorizable): print(k,"not vectorizable"); continue
    msgs=[]
    try:
        s0 = state(o)
        v = o.as_vector()
        if v.ndim!=1: msgs.append(f"as_vector ndim {v.ndim}")
        try:
            if v.size != o.n_parameters: msgs.append(f"n_parameters {o.n_parameters} != size {v.size}")
        except Exception as e: msgs.append(f"n_parameters EXC {type(e).__name__}")
        if v.flags.writeable: msgs.append("vector writable")
        if state(o)!=s0: msgs.append("as_vector mutated obj")
        # object still writable?
        for attr in ['points','pixels','_h_matrix']:
            if hasattr(o,attr) and not getattr(o,attr).flags.writeable: msgs.append(f"{attr} not writable after as_vector")
        o2 = o.from_vector(v.copy())
        if state(o)!=s0: msgs.append("from_vector mutated self")
        if type(o2) is not type(o): msgs.append(f"type {type(o2).__name__}")
        s2 = state(o2)
        if s2!=s0:
            # find which attrs differ
            da = [a for (a,sv),(b,sv2) in zip(s0[1], s2[1]) if sv!=sv2] if len(s0[1])==len(s2[1]) else ['<attr set differs>', [a for a,_ in s0[1]], [a for a,_ in s2[1]]]
            msgs.append(f"roundtrip state differs: {da}")
        w = v.copy()+0.0 if v.dtype!=bool else ~v
        if v.dtype.kind=='f' and not k.startswith(('Rotation','AlignmentRotation')): w = v + rng.normal(size=v.shape)*0.1
        o3 = o.from_vector(w)
        v3 = o3.as_vector()
        if not np.allclose(v3, w): msgs.append(f"from_vector(w).as_vector()!=w maxdiff {np.abs(v3-w).max()}")
        if hasattr(o3,'target') and hasattr(o3,'source'):
            if not np.allclose(o3.target.points, o3.apply(o3.source.points)): msgs.append("target!=aligned source after from_vector")
        for L in [v.size-1, v.size+1, v.size+3]:
            try:
                ob = o.from_vector(np.zeros(L, dtype=v.dtype))
                try:
                    ob.as_vector(); 
                    if hasattr(ob,'h_matrix'): ob.apply(np.zeros((2,ob.n_dims)))
                    msgs.append(f"wrong len {L} accepted->wellformed")
                except Exception as e: msgs.append(f"wrong len {L} -> MALFORMED ({type(e).__name__})")
            except Exception as e: pass
    except NotImplementedError as e: msgs.append("NotImplemented")
    except Exception as e: msgs.append(f"EXC {type(e).__name__}: {e}")
    print(k, "|", "; ".join(msgs) if msgs else "ok")
