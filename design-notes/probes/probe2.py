import warnings; warnings.simplefilter("ignore")
import numpy as np, itertools
from menpo.shape import *
from menpo.image import *
from menpo.image.base import ImageBoundaryError
from menpo.transform import *
rng = np.random.default_rng(0)
def T(name, f):
    try:
        r = f()
        print(f"[{name}] ->", r)
    except Exception as e:
        print(f"[{name}] EXC {type(e).__name__}: {e}")

im = Image(np.arange(2*6*7, dtype=float).reshape(2,6,7))
T("crop one side out, no constrain", lambda: im.crop(np.array([1,2]), np.array([4,9])).shape)
T("crop both side out, no constrain", lambda: im.crop(np.array([-1,2]), np.array([4,9])).shape)
T("crop min side out, no constrain", lambda: im.crop(np.array([-1,2]), np.array([4,5])).shape)
T("crop wholly outside constrain", lambda: im.crop(np.array([10,10]), np.array([12,12]), constrain_to_boundary=True).shape)
T("crop uint8", lambda: Image(np.arange(42,dtype=np.uint8).reshape(1,6,7)).crop(np.array([1,2]), np.array([4,5])).pixels.dtype)
T("crop 3D", lambda: Image(np.arange(2*4*5*6,dtype=float).reshape(2,4,5,6)).crop(np.array([1,1,1]), np.array([3,4,5])).shape)
T("crop frac", lambda: im.crop(np.array([0.5,1.2]), np.array([3.2,4.9])).shape)
b = BooleanImage(rng.random((6,7))>.5)
T("bool crop", lambda: (b.crop(np.array([1,2]), np.array([4,5])).pixels.dtype, type(b.crop(np.array([1,2]), np.array([4,5]))).__name__))
mi = MaskedImage(np.arange(2*6*7, dtype=float).reshape(2,6,7), mask=rng.random((6,7))>.3)
c = mi.crop(np.array([1,2]), np.array([4,5]))
print("masked crop mask ok", np.array_equal(c.mask.mask, mi.mask.mask[1:4,2:5]), np.array_equal(c.pixels, mi.pixels[:,1:4,2:5]))
# patches
for C in [1,2,3,4,5]:
    imc = Image(rng.random((C,12,13)))
    centres = PointCloud(np.array([[5.,5.],[0,0],[11,12],[6,3]]))
    T(f"patches slice C={C}", lambda: imc.extract_patches(centres, patch_shape=(4,3)).shape)
    T(f"patches sampling C={C}", lambda: imc.extract_patches(centres, patch_shape=(4,3), order=1).shape)
imc = Image(rng.random((3,12,13)))
centres = PointCloud(np.array([[5.,5.],[0,0],[11,12],[6,3],[-3,4],[14,20]]))
for ps in [(4,3),(3,3),(5,4),(2,2)]:
    offs = np.array([[0,0],[1,-2],[3,3]])
    a = imc.extract_patches(centres, patch_shape=ps, sample_offsets=offs, cval=7.)
    from menpo.image.patches import extract_patches_by_sampling
    bb = extract_patches_by_sampling(imc.pixels, centres.points, ps, offsets=offs, order=0, mode='constant', cval=7.)
    print("path equiv", ps, a.shape, bb.shape, np.array_equal(a,bb), np.abs(a-bb).max())
# set_patches roundtrip
centres = PointCloud(np.array([[5.,5.],[3,9],[8,3]]))
for ps in [(4,3),(3,3),(2,5)]:
    p = imc.extract_patches(centres, patch_shape=ps)
    blank = Image(np.zeros_like(imc.pixels))
    out = blank.set_patches(p, centres)
    back = out.extract_patches(centres, patch_shape=ps)
    # compare: writing extracted patches back into the image restores the image
    out2 = imc.set_patches(p, centres)
    print("set_patches restore", ps, np.array_equal(out2.pixels, imc.pixels), np.array_equal(back,p))
