import warnings; warnings.simplefilter("ignore")
import numpy as np, random
from menpo.base import LazyList
random.seed(5)
log=[]
def base(n, tag):
    def mkc(i):
        def c():
            log.append((tag,i)); return (tag,i)
        return c
    return LazyList([mkc(i) for i in range(n)]), [(tag,i) for i in range(n)]
def rand_prog(depth, cnt=[0]):
    cnt[0]+=1
    if depth==0 or random.random()<.2:
        n=random.randint(0,5); return base(n, f"b{cnt[0]}")
    ll, ref = rand_prog(depth-1)
    op = random.choice(["map","mapl","slice","fancy","repeat","add","addlist","copy"])
    if op=="map":
        t=cnt[0]; f=lambda x,t=t:("m",t,x); return ll.map(f), [f(x) for x in ref]
    if op=="mapl":
        t=cnt[0]; fs=[(lambda x,t=t,i=i:("ml",t,i,x)) for i in range(len(ref))]
        if len(ref)==0: return ll, ref
        return ll.map(fs), [f(x) for f,x in zip(fs,ref)]
    if op=="slice":
        a=random.choice([None]+list(range(-6,7))); b=random.choice([None]+list(range(-6,7))); s=random.choice([None,1,2,3,-1,-2])
        return ll[a:b:s], ref[a:b:s]
    if op=="fancy":
        if not ref: return ll,ref
        idx=[random.randrange(-len(ref),len(ref)) for _ in range(random.randint(0,6))]
        kind=random.choice(["list","nd","tuple"])
        i2 = idx if kind=="list" else (np.array(idx,dtype=int) if kind=="nd" else tuple(idx))
        return ll[i2], [ref[i] for i in idx]
    if op=="repeat":
        n=random.randint(0,3); return ll.repeat(n), [x for x in ref for _ in range(n)]
    if op=="add":
        l2,r2=rand_prog(depth-1); return ll+l2, ref+r2
    if op=="addlist":
        t=cnt[0]; extra=[("pl",t,i) for i in range(random.randint(0,3))]; return ll+extra, ref+extra
    if op=="copy": return ll.copy(), list(ref)
bad=0
for it in range(3000):
    log.clear()
    try:
        ll, ref = rand_prog(random.randint(1,6))
    except Exception as e:
        print("EXC build", type(e).__name__, e); bad+=1; continue
    if log: print("evaluated during build", log[:3]); bad+=1
    if len(ll)!=len(ref): print("len mismatch"); bad+=1; continue
    for i in range(-len(ref), len(ref)):
        log.clear()
        v = ll[i]
        if v!=ref[i]: print("value mismatch", v, ref[i]); bad+=1; break
        # laziness: evaluated base elements should be exactly those appearing in ref[i]
        def leaves(x):
            if isinstance(x,tuple) and x and isinstance(x[0],str) and x[0].startswith("b"): return [x]
            if isinstance(x,tuple): 
                out=[]
                for y in x: out+=leaves(y)
                return out
            return []
        if sorted(log)!=sorted(leaves(ref[i])): print("lazy mismatch", log, ref[i]); bad+=1; break
    if list(ll)!=ref: print("iter mismatch"); bad+=1
print("bad", bad)
