import warnings; warnings.simplefilter("ignore")
import numpy as np, tempfile, os, pathlib
from collections import OrderedDict
import menpo.io as mio
from menpo.shape import *
from menpo.image import *
from menpo.landmark import LandmarkManager
rng = np.random.default_rng(7)
td = pathlib.Path(tempfile.mkdtemp(prefix="menpoprobe"))
def T(name, f):
    try:
        r = f(); print(f"[{name}] ->", r)
    except Exception as e:
        print(f"[{name}] EXC {type(e).__name__}: {e}")
pts = rng.normal(size=(6,2)); pts[2,1]=np.nan
masks = OrderedDict([("zeta", np.array([1,1,1,0,0,0],bool)),("ålpha ü", np.array([0,0,1,1,1,1],bool)),("mid", np.array([0,1,0,0,1,0],bool))])
lg = LabelledPointUndirectedGraph.init_from_edges(pts, np.array([[0,1],[1,2],[4,5]]), masks)
lm = LandmarkManager(); lm['zz']=lg; lm['aa']=PointCloud(rng.normal(size=(4,2))); lm['pug']=PointUndirectedGraph.init_from_edges(rng.normal(size=(4,2)), np.array([[0,3]])); lm['empty_edges']=PointUndirectedGraph.init_from_edges(rng.normal(size=(3,2)), None)
lm3 = LandmarkManager(); lm3['m']=PointCloud(rng.normal(size=(4,3))); 
def rt(obj, name):
    p = td/name
    mio.export_landmark_file(obj, p, overwrite=True)
    return mio.import_landmark_file(p)
back = rt(lm, "a.b.ljson")
for k in lm:
    o, b = lm[k], back[k]
    print(k, type(b).__name__, "pts", np.array_equal(o.points, b.points, equal_nan=True), "edges", (set(map(tuple, np.sort(o.edges,axis=1).tolist())) if hasattr(o,'edges') else set())==(set(map(tuple,np.sort(b.edges,axis=1).tolist())) if hasattr(b,'edges') else set()), "labels", getattr(o,'labels',None), getattr(b,'labels',None))
    if hasattr(o,'labels'):
        print("  masks equal", all(np.array_equal(o._labels_to_masks[l], b._labels_to_masks[l]) for l in o.labels))
print("group names", list(lm), list(back))
b3 = rt(lm3, "three.ljson"); print("3d", np.array_equal(lm3['m'].points, b3['m'].points))
single = rt(lg, "single.ljson"); print("single keys", list(single))
# pts
pc = PointCloud(rng.normal(size=(5,2))*100)
p = td/"x.pts"; mio.export_landmark_file(pc, p, overwrite=True); b = mio.import_landmark_file(p)
print("pts", list(b), np.abs(b['PTS'].points-pc.points).max())
# pickle
for name in ["o.pkl","o.pkl.gz", "multi.dot.name.pkl"]:
    mio.export_pickle(lm, td/name, overwrite=True); b = mio.import_pickle(td/name)
    print("pickle", name, type(b).__name__, list(b))
# overwrite
for exporter, obj, fname in [(mio.export_landmark_file, lg, "ow.ljson"), (mio.export_landmark_file, pc, "ow.pts"), (mio.export_pickle, lg, "ow.pkl"), (mio.export_pickle, lg, "ow.pkl.gz"), (mio.export_image, Image(rng.random((3,5,5))), "ow.png")]:
    for spelling in ["path","str","rel"]:
        p = td/fname
        p.write_bytes(b"SENTINEL")
        arg = p if spelling=="path" else str(p)
        if spelling=="rel":
            os.chdir(td); arg = fname
        try:
            exporter(obj, arg)
            print("overwrite NOT refused", fname, spelling)
        except mio.OverwriteError: 
            print("refused", fname, spelling, "intact:", p.read_bytes()==b"SENTINEL")
        except Exception as e:
            print("other exc", fname, spelling, type(e).__name__, e, "intact:", p.read_bytes()==b"SENTINEL")
# images
u8 = (rng.random((3,7,8))*255).astype(np.uint8)
from PIL import Image as PI
PI.fromarray(np.moveaxis(u8,0,-1)).save(td/"src.png")
im = mio.import_image(td/"src.png")
print("import", im.pixels.dtype, np.array_equal((im.pixels*255).round().astype(np.uint8), u8))
T("export float image", lambda: mio.export_image(im, td/"out.png", overwrite=True))
import shutil; os.chdir("/"); shutil.rmtree(td)
