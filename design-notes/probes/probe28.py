import warnings; warnings.simplefilter("ignore")
import numpy as np, tempfile, pathlib, shutil
import menpo.io as mio
from menpo.shape import PointCloud
td = pathlib.Path(tempfile.mkdtemp())
pc = PointCloud(np.random.default_rng(0).normal(size=(4,2)))
mio.export_pickle(pc, td/"a.pkl"); b = mio.import_pickle(td/"a.pkl")
print(sorted(pc.__dict__), sorted(b.__dict__))
print({k:(type(v).__name__) for k,v in b.__dict__.items()})
shutil.rmtree(td)
