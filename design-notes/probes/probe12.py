import warnings; warnings.simplefilter("ignore")
import numpy as np, itertools
from menpo.model import *
from menpo.shape import *
rng = np.random.default_rng(3)
def ref_precision(X, graph, k, mode, bias, edgeless):
    V = graph.n_vertices; F = V*k
    Q = np.zeros((F,F))
    if edgeless:
        for v in range(V):
            C = np.cov(X[:, v*k:(v+1)*k], rowvar=0, bias=bias).reshape(k,k)
            Q[v*k:(v+1)*k, v*k:(v+1)*k] += np.linalg.inv(C)
        return Q
    for (a,b) in graph.edges:
        ia = list(range(a*k,(a+1)*k)); ib=list(range(b*k,(b+1)*k))
        if mode=="concatenation":
            C = np.cov(X[:, ia+ib], rowvar=0, bias=bias); P = np.linalg.inv(C)
            idx = ia+ib
            Q[np.ix_(idx,idx)] += P
        else:
            C = np.cov(X[:,ia]-X[:,ib], rowvar=0, bias=bias).reshape(k,k); P = np.linalg.inv(C)
            Q[np.ix_(ia,ia)] += P; Q[np.ix_(ib,ib)] += P; Q[np.ix_(ia,ib)] -= P; Q[np.ix_(ib,ia)] -= P
    return Q
graphs = {
 "chain4": UndirectedGraph.init_from_edges(np.array([[0,1],[1,2],[2,3]]),4),
 "cycle4": UndirectedGraph.init_from_edges(np.array([[0,1],[1,2],[2,3],[3,0]]),4),
 "edgeless3": UndirectedGraph.init_from_edges(None,3),
 "isolated": UndirectedGraph.init_from_edges(np.array([[0,2]]),4),
 "isolated0": UndirectedGraph.init_from_edges(np.array([[1,2],[2,3]]),4),
 "tree": Tree.init_from_edges(np.array([[0,1],[0,2],[2,3]]),4,0),
 "digraph": DirectedGraph.init_from_edges(np.array([[0,1],[2,1],[2,3],[0,3]]),4),
 "star_unordered": UndirectedGraph.init_from_edges(np.array([[3,0],[3,1],[2,3]]),4),
}
for gname,g in graphs.items():
  for k in [1,2,3]:
    for mode in ["concatenation","subtraction"]:
      for bias in [0,1]:
        X = rng.normal(size=(40, g.n_vertices*k)) @ (np.eye(g.n_vertices*k)+rng.normal(size=(g.n_vertices*k,)*2)*.2) + rng.normal(size=g.n_vertices*k)
        msgs=[]
        try:
            ms = GMRFVectorModel(X, g, mode=mode, sparse=True, bias=bias)
            md = GMRFVectorModel(X, g, mode=mode, sparse=False, bias=bias)
            Qs = ms.precision.toarray(); Qd = md.precision
            R = ref_precision(X,g,k,mode,bias,g.n_edges==0)
            if not np.allclose(Qs,Qd): msgs.append(f"sparse!=dense {np.abs(Qs-Qd).max():.2e}")
            if not np.allclose(Qd,R): msgs.append(f"dense!=ref {np.abs(Qd-R).max():.2e}")
            if not np.allclose(Qs,R): msgs.append(f"sparse!=ref {np.abs(Qs-R).max():.2e}")
            if not np.allclose(Qd,Qd.T): msgs.append("asym")
            ev = np.linalg.eigvalsh((Qd+Qd.T)/2)
            if ev.min() < -1e-8*abs(ev).max(): msgs.append(f"not psd {ev.min()}")
            q = rng.normal(size=(5,X.shape[1]))
            a = ms.mahalanobis_distance(q); b = md.mahalanobis_distance(q)
            if not np.allclose(a,b): msgs.append("maha sparse!=dense")
            one = np.array([md.mahalanobis_distance(x) for x in q])
            if not np.allclose(one,b): msgs.append("maha single!=batch")
            if not np.isclose(md.mahalanobis_distance(md.mean()),0): msgs.append("maha(mean)!=0")
            # incremental
            for sparse in [True,False]:
                mi = GMRFVectorModel(X[:15], g, mode=mode, sparse=sparse, bias=bias, incremental=True)
                mi.increment(X[15:22]); mi.increment(X[22:])
                Qi = mi.precision.toarray() if sparse else mi.precision
                if not np.allclose(Qi, R, rtol=1e-6, atol=1e-8): msgs.append(f"incr(sparse={sparse})!=batch {np.abs(Qi-R).max():.2e}")
                if not np.allclose(mi.mean(), X.mean(0)): msgs.append("incr mean")
                if mi.n_samples!=40: msgs.append("incr n")
        except Exception as e:
            msgs.append(f"EXC {type(e).__name__}: {e}")
        if msgs: print(gname,k,mode,bias,msgs)
print("done")
