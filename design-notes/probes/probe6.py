import warnings; warnings.simplefilter("ignore")
import numpy as np, itertools, sys, os
from menpo.shape import *
from menpo.transform import *
from menpo.transform.homogeneous.base import HomogFamilyAlignment
from menpo.base import Targetable
rng = np.random.default_rng(1)
def rand_rot(d):
    q,_ = np.linalg.qr(rng.normal(size=(d,d)))
    if np.linalg.det(q)<0: q[:,0]*=-1
    return q
def mk(name,d):
    src = PointCloud(rng.normal(size=(7,d))); tgt = PointCloud(rng.normal(size=(7,d)))
    if name=="Homogeneous":
        h = np.eye(d+1)+rng.normal(size=(d+1,d+1))*.2; return Homogeneous(h)
    if name=="Affine":
        h = np.eye(d+1); h[:d,:]+=rng.normal(size=(d,d+1))*.3; return Affine(h)
    if name=="Similarity":
        h = np.eye(d+1); h[:d,:d]=rand_rot(d)*rng.uniform(.5,2); h[:d,d]=rng.normal(size=d); return Similarity(h)
    if name=="Rotation": return Rotation(rand_rot(d))
    if name=="Translation": return Translation(rng.normal(size=d))
    if name=="UniformScale": return UniformScale(rng.uniform(.5,2), d)
    if name=="NonUniformScale": return NonUniformScale(rng.uniform(.5,2,size=d))
    if name=="AlignmentAffine": return AlignmentAffine(src,tgt)
    if name=="AlignmentSimilarity": return AlignmentSimilarity(src,tgt)
    if name=="AlignmentRotation": return AlignmentRotation(src,tgt)
    if name=="AlignmentTranslation": return AlignmentTranslation(src,tgt)
    if name=="AlignmentUniformScale": return AlignmentUniformScale(src,tgt)
names = ["Homogeneous","Affine","Similarity","Rotation","Translation","UniformScale","NonUniformScale","AlignmentAffine","AlignmentSimilarity","AlignmentRotation","AlignmentTranslation","AlignmentUniformScale"]
def honest(t):
    h = t.h_matrix; d = t.n_dims
    ok = True; why=[]
    if isinstance(t, Affine):
        if not (np.allclose(h[-1,:-1],0) and np.isclose(h[-1,-1],1)): ok=False; why.append("affine-bottom-row")
    L = h[:d,:d]
    if isinstance(t, Similarity):
        s2 = (L.T@L)[0,0]
        if not np.allclose(L.T@L, s2*np.eye(d), atol=1e-8): ok=False; why.append("similarity")
    if isinstance(t, Rotation):
        if not (np.allclose(L.T@L, np.eye(d),atol=1e-8) and np.allclose(h[:d,d],0)): ok=False; why.append("rotation")
    if isinstance(t, Translation):
        if not np.allclose(L, np.eye(d)): ok=False; why.append("translation")
    if isinstance(t, UniformScale):
        if not (np.allclose(L, L[0,0]*np.eye(d)) and np.allclose(h[:d,d],0)): ok=False; why.append("uscale")
    if isinstance(t, NonUniformScale):
        if not (np.allclose(L, np.diag(np.diag(L))) and np.allclose(h[:d,d],0)): ok=False; why.append("nuscale")
    return ok, why
bad = {}
for d in [2,3]:
  for an, bn in itertools.product(names,names):
    for rep in range(3):
        a = mk(an,d); b = mk(bn,d)
        x = rng.normal(size=(5,d))
        ha, hb = a.h_matrix.copy(), b.h_matrix.copy()
        for kind in ["before","after"]:
            try:
                c = a.compose_before(b) if kind=="before" else a.compose_after(b)
            except Exception as e:
                bad.setdefault((kind,an,bn,"EXC "+type(e).__name__),0); bad[(kind,an,bn,"EXC "+type(e).__name__)]+=1; continue
            exp = b.apply(a.apply(x)) if kind=="before" else a.apply(b.apply(x))
            if not np.allclose(c.apply(x), exp, atol=1e-8): bad.setdefault((kind,an,bn,"law"),0); bad[(kind,an,bn,"law")]+=1
            if not isinstance(c, Homogeneous) or isinstance(c, (TransformChain,)) or isinstance(c, Targetable):
                bad.setdefault((kind,an,bn,"type "+type(c).__name__),0); bad[(kind,an,bn,"type "+type(c).__name__)]+=1
            else:
                ok, why = honest(c)
                if not ok: bad.setdefault((kind,an,bn,"dishonest "+type(c).__name__+str(why)),0); bad[(kind,an,bn,"dishonest "+type(c).__name__+str(why))]+=1
            if not (np.array_equal(ha,a.h_matrix) and np.array_equal(hb,b.h_matrix)):
                bad.setdefault((kind,an,bn,"mutated"),0); bad[(kind,an,bn,"mutated")]+=1
for k,v in sorted(bad.items()): print(k,v)
print("n bad kinds", len(bad))
print("---- inplace")
bad = {}
for d in [2,3]:
  for an, bn in itertools.product(names,names):
    for kind in ["before","after"]:
        a = mk(an,d); b = mk(bn,d)
        x = rng.normal(size=(5,d))
        a0 = a.copy(); hb = b.h_matrix.copy()
        try:
            (a.compose_before_inplace if kind=="before" else a.compose_after_inplace)(b)
        except ValueError as e:
            continue
        except Exception as e:
            bad[(kind,an,bn,"EXC "+type(e).__name__+str(e)[:40])]=1; continue
        exp = b.apply(a0.apply(x)) if kind=="before" else a0.apply(b.apply(x))
        if not np.allclose(a.apply(x), exp, atol=1e-8): bad[(kind,an,bn,"law")]=1
        ok, why = honest(a)
        if not ok: bad[(kind,an,bn,"dishonest "+str(why))]=1
        if not np.array_equal(hb,b.h_matrix): bad[(kind,an,bn,"b mutated")]=1
        if isinstance(a, Targetable):
            if not np.allclose(a.target.points, a.apply(a.source.points)): bad[(kind,an,bn,"target!=aligned source")]=1
for k,v in sorted(bad.items()): print(k,v)
