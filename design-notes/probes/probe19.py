import warnings; warnings.simplefilter("ignore")
import numpy as np
from menpo.shape import *
from menpo.image import *
from menpo.transform import *
rng = np.random.default_rng(8)
def T(name, f):
    try:
        r = f(); print(f"[{name}] ->", r)
    except Exception as e:
        print(f"[{name}] EXC {type(e).__name__}: {e}")
# ccw conventions
for ang in [30,-30,135,-200,400]:
    r = Rotation.init_from_2d_ccw_angle(ang); th=np.deg2rad(ang)
    print("2d", ang, np.allclose(r.apply(np.array([[1.,0]])), [[np.cos(th), np.sin(th)]]))
    rr = Rotation.init_from_2d_ccw_angle(th, degrees=False); print(" rad", np.allclose(rr.h_matrix, r.h_matrix))
    for ax,ctor in enumerate([Rotation.init_from_3d_ccw_angle_around_x,Rotation.init_from_3d_ccw_angle_around_y,Rotation.init_from_3d_ccw_angle_around_z]):
        r = ctor(ang)
        e = np.eye(3); a=e[ax]; u=e[(ax+1)%3]; v=e[(ax+2)%3]
        # right-handed ccw about axis: u -> cos u + sin v
        ok = np.allclose(r.apply(u[None]), [np.cos(th)*u+np.sin(th)*v]) and np.allclose(r.apply(a[None]), [a])
        print(" 3d axis", ax, ok)
# axis-angle reconstruct
def rodrigues(axis, th):
    K = np.array([[0,-axis[2],axis[1]],[axis[2],0,-axis[0]],[-axis[1],axis[0],0]])
    return np.eye(3)+np.sin(th)*K+(1-np.cos(th))*K@K
bad=0
for it in range(300):
    q = rng.normal(size=4); q/=np.linalg.norm(q)
    if q[0]<0: q=-q
    r = Rotation.init_3d_from_quaternion(q)
    if not np.allclose(r.as_vector(), q, atol=1e-8): bad+=1; print("quat rt", q, r.as_vector())
    ax, th = r.axis_and_angle_of_rotation()
    if ax is None: print("none axis"); continue
    if not np.allclose(rodrigues(ax, th), r.rotation_matrix, atol=1e-7): bad+=1; print("axis-angle recon fail", th)
print("3d bad", bad)
bad=0
for it in range(200):
    th = rng.uniform(-np.pi, np.pi)
    r = Rotation.init_from_2d_ccw_angle(th, degrees=False)
    ax, a = r.axis_and_angle_of_rotation()
    rec = Rotation.init_from_2d_ccw_angle(a, degrees=False)
    if not np.allclose(rec.h_matrix, r.h_matrix, atol=1e-8): bad+=1
print("2d axis-angle recon bad", bad, "/200")
# about centre
pc = PointCloud(rng.normal(size=(6,2))+5); im = Image(rng.random((1,7,9))); tm = TriMesh(rng.normal(size=(6,2)))
for obj in [pc, im, tm]:
    c = obj.centre()
    for nm,t,plain in [("scale", scale_about_centre(obj, 2.5), UniformScale(2.5,2)), ("rot", rotate_ccw_about_centre(obj, 33), Rotation.init_from_2d_ccw_angle(33)), ("shear", shear_about_centre(obj, 10, 20), Affine.init_from_2d_shear(10,20))]:
        x = rng.normal(size=(4,2))
        print(type(obj).__name__, nm, "fixes centre", np.allclose(t.apply(c[None]), c[None]), "offsets", np.allclose(t.apply(c+x)-c, plain.apply(x)), type(t).__name__)
pc3 = PointCloud(rng.normal(size=(6,3)))
T("scale about centre 3d", lambda: np.allclose(scale_about_centre(pc3, 2).apply(pc3.centre()[None]), pc3.centre()))
# Scale factory
T("Scale equal", lambda: type(Scale(np.array([2.,2.]))).__name__)
T("Scale diff", lambda: type(Scale(np.array([2.,3.]))).__name__)
T("Scale scalar ndims", lambda: type(Scale(2., n_dims=3)).__name__)
T("Scale zero", lambda: Scale(np.array([2.,0.])))
T("Scale zero scalar", lambda: Scale(0., n_dims=2))
T("Scale list", lambda: type(Scale([2.,3.,4.])).__name__)
T("Scale negative equal", lambda: (type(Scale(np.array([-2.,-2.]))).__name__, Scale(np.array([-2.,-2.])).h_matrix.tolist()))
# tcoords
for shape in [(5,7),(10,3),(2,2),(1,4)]:
    t = tcoords_to_image_coords(shape); ti = image_coords_to_tcoords(shape)
    corners = np.array([[0,0],[1,0],[0,1],[1,1.]])
    out = t.apply(corners); H,W = shape
    exp = np.array([[H-1,0],[H-1,W-1],[0,0],[0,W-1.]])
    x = rng.random((5,2))
    print(shape, "corners", np.allclose(out,exp), "inverse", np.allclose(ti.apply(t.apply(x)),x), np.allclose(t.apply(ti.apply(x*3)),x*3))
