import warnings; warnings.simplefilter("ignore")
import numpy as np
np.in1d = np.isin
from menpo.shape import *
rng = np.random.default_rng(6)
for it in range(400):
    n=12; d=2
    pts = rng.normal(size=(n,d)); tl = np.array([rng.choice(n,3,replace=False) for _ in range(14)])
    m = TriMesh(pts, tl)
    mask = rng.random(n) > 0.3
    keep_tri = mask[tl].all(axis=1)
    if not keep_tri.any(): continue
    r = m.from_mask(mask)
    used = np.unique(tl[keep_tri])
    if r.n_points!=len(used):
        print("n_points", r.n_points, "expected", len(used), "mask", np.nonzero(mask)[0], "used", used)
        print("trilist", tl.tolist()); print("result trilist", r.trilist.tolist(), "max idx", r.trilist.max())
        break
