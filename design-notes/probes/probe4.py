import warnings; warnings.simplefilter("ignore")
import numpy as np, itertools, sys, os
from collections import OrderedDict
from menpo.shape import *
from menpo.image import *
from menpo.image.base import denormalize_pixels_range, normalize_pixels_range
rng = np.random.default_rng(0)
def T(name, f):
    try:
        r = f()
        print(f"[{name}] ->", r)
    except Exception as e:
        print(f"[{name}] EXC {type(e).__name__}: {e}")

# labels order
pts = rng.random((6,2))
masks = OrderedDict([("zeta", np.array([1,1,0,0,0,0],bool)),("alpha", np.array([0,1,1,0,0,0],bool)),("mid", np.array([0,0,0,1,1,0],bool)),("beta", np.array([0,0,0,0,1,1],bool)),("q", np.array([1,0,0,0,0,1],bool))])
g = LabelledPointUndirectedGraph.init_from_edges(pts, np.array([[0,1],[1,2],[3,4],[4,5]]), masks)
print("HASHSEED", os.environ.get("PYTHONHASHSEED"), g.without_labels("mid").labels, g.without_labels(["q"]).labels)
print("with_labels order", g.with_labels(["beta","zeta"]).labels)
T("remove_label uncovered", lambda: g.remove_label("mid").labels)
T("remove_label q", lambda: g.remove_label("q").labels)
T("add_label", lambda: g.add_label("new",[0,1]).labels)
# 8bit
v = np.arange(256, dtype=np.uint8)
f = normalize_pixels_range(v)
try:
    back = denormalize_pixels_range(f, np.uint8)
    print("8bit roundtrip mismatches:", np.nonzero(back!=v)[0][:20], (back!=v).sum())
except Exception as e:
    print("denorm EXC", type(e).__name__, e)
    back = (f*255.0).astype(np.uint8)
    print("8bit roundtrip (manual formula) mismatches:", np.nonzero(back!=v)[0][:20], (back!=v).sum())
