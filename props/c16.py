"""C16  Export then import returns the same data; files are never clobbered unasked.

Sensors: sys.addaudithook recording every `open` event (path, mode) while an export call is in flight; SHA-256 of
the target before and after.  Workloads (in a private temporary directory per case, removed afterwards): ljson / pts
/ pickle / gzip-pickle / image round trips compared with state digests, and random histories of exports to the same
path with overwrite on/off under every spelling of the path.
"""
import hashlib
import os
import shutil
import sys
import tempfile
from collections import OrderedDict
from pathlib import Path

import numpy as np

from vf.core import Workload
from vf import gen, tx
from vf.digest import digest, diff

ID = "C16"
TECHNIQUE = "runtime monitoring: audit-hook monitor on file opens + before/after content hashes around every export; round-trip state comparison"
LEVEL_TEXT = ("Every export in generated round trips (ljson for managers and all shape classes incl. NaN coordinates and unicode labels, pts, plain and gzipped pickles of shapes, images, "
              "managers, transforms and models, 8-bit and float images in several formats) is followed by an import and a full state comparison; every export to an existing path is watched "
              "by an audit hook (no write-mode open when overwriting was not requested) and by content hashes, across str/Path, relative/absolute and multi-dot spellings; held-on-what-was-observed")
LEVEL_NOTE = "trusted: CPython's audit events for open(), SHA-256, vf/digest.py; Pillow is used to write the seed images"
DESIGN_REF = "DESIGN.md section 7, C16"
RULE = ("objects: every shape class and landmark managers 2D/3D with NaNs, unicode/ordered labels, empty edge sets; images 1/3 channels, sizes incl. 1-pixel-wide, uint8 and float, png/bmp/tif/ppm/pgm; "
        "picklable objects incl. transforms and PCA/GMRF models; histories of 2-8 exports to one path with overwrite on/off, spelled str/Path x relative/absolute, names with several dots, "
        "in per-case directories entered with chdir; non-trivial = data has structure beyond bare points or the history hits an existing file; distinct = (format, class, dims, spelling, history shape)")
ASSUMPTIONS = ["the native JSON format sorts group names: group names are compared as a set, labels in order", "pts is 2D with three decimals",
               "video export and formats needing absent optional dependencies are not exercised"]
DECIDING_TAPS = ["audit_open_events", "export_watch"]
SHARDS = {"quick": 8, "thorough": 16}

EVENTS = []
ARMED = [False]
_HOOKED = [False]
_CTX = [None]


def _hook(event, args):
    if ARMED[0] and event == "open":
        try:
            EVENTS.append((str(args[0]), str(args[1])))
        except Exception:
            pass


def setup(ctx):
    _CTX[0] = ctx
    if not _HOOKED[0]:
        sys.addaudithook(_hook)
        _HOOKED[0] = True


def sha(p):
    try:
        return hashlib.sha256(Path(p).read_bytes()).hexdigest()
    except FileNotFoundError:
        return None


def watched_export(ctx, fn, obj, arg, abspath, overwrite, kind, **kw):
    """Run one export under the audit hook; judges the no-clobber clause.  Returns True if the file was written."""
    import menpo.io as mio
    before = sha(abspath)
    del EVENTS[:]
    ARMED[0] = True
    exc = None
    try:
        if overwrite is None:
            fn(obj, arg, **kw)
        else:
            fn(obj, arg, overwrite=overwrite, **kw)
    except Exception as e:
        exc = e
    finally:
        ARMED[0] = False
    after = sha(abspath)
    ctx.tap("export_watch", "calls"); ctx.tap("export_watch", "checked")
    ctx.tap("audit_open_events", "calls", len(EVENTS)); ctx.tap("audit_open_events", "checked", len(EVENTS))
    real = os.path.realpath(abspath)
    writes = [(p, m) for p, m in EVENTS if os.path.realpath(p) == real and any(c in m for c in "wax+")]
    existed = before is not None
    if existed and not overwrite:
        if not isinstance(exc, mio.OverwriteError):
            ctx.fail("export_over_an_existing_file_without_overwrite_not_refused", cls=kind[0], mech=kind[1] + ":" + ("accepted" if exc is None else type(exc).__name__),
                     path=str(arg))
        if after != before:
            ctx.fail("existing_file_clobbered_although_overwrite_was_not_requested", cls=kind[0], mech=kind[1], path=str(arg))
        if writes:
            ctx.fail("existing_file_opened_for_writing_although_overwrite_was_not_requested", cls=kind[0], mech=kind[1], opens=writes[:3])
        return False
    if exc is not None:
        ctx.fail("export_raised", cls=kind[0], mech=kind[1] + ":" + type(exc).__name__, error=repr(exc)[:300])
        return False
    if after is None:
        ctx.fail("export_did_not_create_the_file_where_it_was_asked_to", cls=kind[0], mech=kind[1], path=str(arg), cwd=os.getcwd())
        return False
    return True


class Sandbox(object):
    def __enter__(self):
        self.old = os.getcwd()
        self.dir = tempfile.mkdtemp(prefix="vf-c16-")
        self.env = {k: os.environ.get(k) for k in ("HOME", "VFC16DIR")}
        os.environ["HOME"] = self.dir
        os.environ["VFC16DIR"] = self.dir
        return self

    def __exit__(self, *a):
        os.chdir(self.old)
        for k, v in self.env.items():
            if v is None:
                os.environ.pop(k, None)
            else:
                os.environ[k] = v
        shutil.rmtree(self.dir, ignore_errors=True)

    def spell(self, rng, name, how=None, expanding=False):
        """(argument to pass, absolute path) for one of the spellings of the same file.  expanding: the exporter documents
        user / environment-variable expansion and normalisation of its path (export_pickle), so those spellings count too."""
        how = how if how is not None else int(rng.integers(0, 11 if expanding else 6))
        ab = os.path.join(self.dir, name)
        os.makedirs(os.path.join(self.dir, "sub"), exist_ok=True)
        if how in (4, 5):
            # through an existing directory and back: an ordinary relative / absolute spelling
            if how == 4:
                return os.path.join(self.dir, "sub", "..", name), ab, "str_abs_via_subdir"
            os.chdir(self.dir)
            return Path("sub") / ".." / name, ab, "path_rel_via_subdir"
        how = how - 2 if how > 5 else how
        if how == 4:
            return "~/" + name, ab, "str_home"
        if how == 5:
            return Path("~") / name, ab, "path_home"
        if how == 6:
            return "$VFC16DIR/" + name, ab, "str_envvar"
        if how == 7:
            return os.path.join(self.dir, "no_such_dir", "..", name), ab, "str_abs_dotdot"
        if how == 8:
            os.chdir(self.dir)
            return Path("no_such_dir") / ".." / name, ab, "path_rel_dotdot"
        if how == 0:
            return ab, ab, "str_abs"
        if how == 1:
            return Path(ab), ab, "path_abs"
        os.chdir(self.dir)
        if how == 2:
            return name, ab, "str_rel"
        return Path(name), ab, "path_rel"


NAMES = ["out", "a.b", "x.y.z", "with space", "ünï", "frame_{id}", "scan{}", "sub{0}.take.1"]


def undirected_edges(s):
    if not hasattr(s, "edges"):
        if hasattr(s, "trilist"):
            tl = np.asarray(s.trilist)
            e = set()
            for a, b, c in tl.tolist():
                e.update([tuple(sorted((a, b))), tuple(sorted((b, c))), tuple(sorted((c, a)))])
            return e
        return set()
    return set(tuple(sorted((int(a), int(b)))) for a, b in np.asarray(s.edges).reshape(-1, 2))


def compare_ljson(ctx, orig, back, cls, where):
    if not np.array_equal(orig.points, back.points, equal_nan=True):
        ctx.fail("ljson_coordinates_changed", cls=cls, mech=where, has_nan=bool(np.isnan(orig.points).any()))
    if undirected_edges(orig) != undirected_edges(back):
        ctx.fail("ljson_edges_changed", cls=cls, mech=where, n_before=len(undirected_edges(orig)), n_after=len(undirected_edges(back)))
    ol = list(getattr(orig, "_labels_to_masks", {}).keys())
    bl = list(getattr(back, "_labels_to_masks", {}).keys())
    if ol != bl:
        ctx.fail("ljson_labels_changed_or_reordered", cls=cls, mech=where, before=ol, after=bl)
    else:
        for l in ol:
            if not np.array_equal(orig._labels_to_masks[l], back._labels_to_masks[l]):
                ctx.fail("ljson_label_mask_changed", cls=cls, mech=where, label=l)


def with_empty_label(rng, g):
    """The same labelled group with one more label that has no member yet (legal: only the union of the labels must cover the points)."""
    import menpo.shape as ms
    items = list(g._labels_to_masks.items())
    items.insert(int(rng.integers(0, len(items) + 1)), ("no_members", np.zeros(g.n_points, dtype=bool)))
    return ms.LabelledPointUndirectedGraph(g.points, g.adjacency_matrix, OrderedDict(items))


def w_landmarks(ctx, rng, i):
    import menpo.io as mio
    import menpo.shape as ms
    from menpo.landmark import LandmarkManager
    d = 2 + i % 2
    with Sandbox() as sb:
        name = NAMES[rng.integers(0, len(NAMES))] + ".ljson"
        arg, ab, sp = sb.spell(rng, name)
        single = bool((i // 2) % 3 == 0)
        if single:
            cls = gen.SHAPE_CLASSES[(i // 6) % 8]
            # (the shape may carry landmark groups of its own - marked sub-points: it is the shape that is written, not they)
            obj = gen.shape(rng, cls, d=d, with_landmarks=int(rng.integers(0, 3)) if rng.random() < 0.3 else 0)
            if rng.random() < 0.4:
                obj.points[rng.integers(0, obj.n_points), rng.integers(0, d)] = np.nan
            if rng.random() < 0.5:
                # exact zeros, negative zero and whole numbers (corners at the origin, grid points)
                obj.points[rng.integers(0, obj.n_points), rng.integers(0, d)] = 0.0
                obj.points[rng.integers(0, obj.n_points), rng.integers(0, d)] = -0.0 if rng.random() < 0.5 else float(rng.integers(-3, 4))
            if cls == "LabelledPointUndirectedGraph" and rng.random() < 0.5:
                masks = OrderedDict((k2, obj._labels_to_masks[k]) for k, k2 in zip(obj._labels_to_masks, [["zeta", "ålpha ü", "mid", "點", "0", "b b"], ["e\u0301", "\u00e9", "A\u030a", "\u2126", "\u03a9", "\ufb01x"]][int(rng.random() < 0.4)]))
                obj = ms.LabelledPointUndirectedGraph(obj.points, obj.adjacency_matrix, masks)
            if cls == "LabelledPointUndirectedGraph" and rng.random() < 0.4:
                obj = with_empty_label(rng, obj)
            special = rng.random()
            if special < 0.12:
                # a vertex joined to itself (a closed one-point contour) is an edge like any other
                n_ = int(rng.integers(3, 9))
                E_ = gen.random_undirected_edges(rng, n_) + [(int(v), int(v)) for v in rng.choice(n_, int(rng.integers(1, 3)), replace=False)]
                obj = ms.PointUndirectedGraph(gen.points(rng, n_, d), gen.adjacency(n_, E_, True))
            elif special < 0.24 and d == 2:
                # a grid mesh whose triangle list is stored compactly (the narrowest integer type that holds the vertex indices)
                if rng.random() < 0.6:
                    shp_, dt_ = (int(rng.integers(5, 9)), int(rng.integers(5, 9))), np.uint8
                else:
                    shp_, dt_ = (int(rng.integers(17, 21)), int(rng.integers(17, 21))), np.uint16
                gm = ms.TriMesh.init_2d_grid(shp_)
                obj = ms.TriMesh(gm.points + rng.normal(scale=0.05, size=gm.points.shape), trilist=np.asarray(gm.trilist).astype(dt_), copy=False)
            elif special < 0.32 and cls == "TriMesh" and obj.n_points >= 4:
                # a mesh with a collapsed triangle (two of its corners are the same vertex)
                tl_ = np.vstack([np.asarray(obj.trilist), [[2, 2, 3]]])
                obj = ms.TriMesh(obj.points, trilist=tl_)
            groups = {"LJSON": obj}
        else:
            lm = LandmarkManager()
            for g in range(int(rng.integers(1, 5))):
                cls = gen.SHAPE_CLASSES[rng.integers(0, 8)]
                s = gen.shape(rng, cls, d=d)
                if rng.random() < 0.3:
                    s.points[rng.integers(0, s.n_points), rng.integers(0, d)] = np.nan
                if rng.random() < 0.4:
                    s.points[rng.integers(0, s.n_points), rng.integers(0, d)] = 0.0
                if cls == "LabelledPointUndirectedGraph" and rng.random() < 0.4:
                    s = with_empty_label(rng, s)
                # (names are kept code point by code point: a decomposed accent and the precomposed letter are two names)
                # (a name taken from a file name that is not valid UTF-8 carries a lone surrogate - os.fsdecode: a name like any other)
                lm[[["zz", "aa", "Ünï", "g 1", "0"], ["e\u0301", "\u00e9", "A\u030a", "\u2126", "\u03a9"], ["caf\udce9", "x\udcff y", "\udc80", "plain", "Ünï\udce9"]][int(rng.integers(0, 3)) if rng.random() < 0.45 else 0][g] if rng.random() < 0.7 else "k%d" % g] = s
            if rng.random() < 0.3:
                lm["empty_edges"] = ms.PointUndirectedGraph.init_from_edges(gen.points(rng, 3, d), None)
            obj = lm
            groups = dict(lm.items())
        dg = digest(obj)
        ok = watched_export(ctx, mio.export_landmark_file, obj, arg, ab, None if rng.random() < 0.5 else False, ("ljson", sp))
        if digest(obj) != dg:
            ctx.fail("export_modified_the_object", cls="ljson", mech=sp)
        if ok:
            try:
                back = mio.import_landmark_file(arg if rng.random() < 0.5 else ab)
            except Exception as e:
                ctx.fail("exported_file_cannot_be_imported", cls="ljson", mech=type(e).__name__, error=repr(e)[:200])
                back = None
            if back is not None and i % 25 == 3 and any(ord(c_) > 127 for k_ in groups for c_ in k_):
                # the file is read back by another process whose default text encoding is not UTF-8 (a cron job, a minimal
                # container: the C locale): the same names
                import subprocess, sys as _sys, json as _json, menpo as _menpo, shutil as _shutil, tempfile as _tempfile
                # (a byte-for-byte copy under a plain ASCII name: the question is the content, not whether that process can spell the path)
                adir_ = _tempfile.mkdtemp(prefix="vf_c16_")
                ascii_copy = os.path.join(adir_, "copy.ljson")
                _shutil.copyfile(ab, ascii_copy)
                code = ("import sys, json, warnings; warnings.simplefilter('ignore'); sys.path.insert(0, %r); import menpo.io as mio; "
                        "print('NAMES=' + json.dumps(sorted(mio.import_landmark_file(%r).keys())))") % (os.path.dirname(os.path.dirname(_menpo.__file__)), ascii_copy)
                env_ = dict(os.environ, LC_ALL="C", LANG="C", PYTHONUTF8="0", PYTHONCOERCECLOCALE="0")
                env_.pop("MENPO_VERIF", None)
                ctx.tap("import_in_a_process_with_another_default_encoding", "calls")
                try:
                    pr_ = subprocess.run([_sys.executable, "-c", code], capture_output=True, text=True, timeout=120, env=env_, encoding="ascii", errors="backslashreplace")
                    line_ = [l_ for l_ in pr_.stdout.splitlines() if l_.startswith("NAMES=")]
                    ctx.tap("import_in_a_process_with_another_default_encoding", "checked")
                    if pr_.returncode != 0 or not line_:
                        ctx.fail("exported_file_cannot_be_imported", cls="ljson", mech="default_encoding_not_utf8:" + (pr_.stderr.strip().splitlines() or ["?"])[-1].split(":")[0][:40])
                    elif _json.loads(line_[0][6:]) != sorted(groups):
                        ctx.fail("ljson_group_names_changed", cls="ljson", mech="default_encoding_not_utf8")
                except subprocess.TimeoutExpired:
                    ctx.bump("other_locale_import_timed_out")
                finally:
                    _shutil.rmtree(adir_, ignore_errors=True)
            if back is not None:
                if set(back.keys()) != set(groups.keys()):
                    ctx.fail("ljson_group_names_changed", cls="ljson", before=sorted(groups), after=sorted(back))
                else:
                    for k, o in groups.items():
                        compare_ljson(ctx, o, back[k], type(o).__name__, "single" if single else "manager")
        # pts (2D)
        if d == 2:
            pc = ms.PointCloud(gen.points(rng, int(rng.integers(1, 20)), 2, scale=[2.0, 200.0, 3000.0, 60000.0][rng.integers(0, 4)]))
            parg, pab, psp = sb.spell(rng, NAMES[rng.integers(0, len(NAMES))] + ".pts")
            if watched_export(ctx, mio.export_landmark_file, pc, parg, pab, False, ("pts", psp)):
                b = mio.import_landmark_file(pab)
                if list(b.keys()) != ["PTS"] or b["PTS"].points.shape != pc.points.shape:
                    ctx.fail("pts_round_trip_changed_the_shape", cls="pts")
                else:
                    e = float(np.abs(b["PTS"].points - pc.points).max())
                    ctx.err("pts_round_trip", e)
                    if not (e <= 5e-4 + 1e-9):
                        ctx.fail("pts_round_trip_exceeds_three_decimals", cls="pts", err=e)
    ctx.count_case(("ljson", "single" if single else "manager", d, sp), nontrivial=True,
                   sample={"format": "ljson", "spelling": sp, "groups": {k: type(v).__name__ for k, v in groups.items()}} if i < 4 else None)


def picklable(rng, i):
    import menpo.shape as ms
    from menpo.model import PCAVectorModel, PCAModel, GMRFVectorModel
    k = i % 7
    d = 2 + (i // 7) % 2
    if k == 0:
        return gen.shape(rng, None, d=d, with_landmarks=int(rng.integers(0, 3))), "shape"
    if k == 1:
        o = gen.image(rng, ["Image", "MaskedImage", "BooleanImage"][rng.integers(0, 3)], shape=tuple(int(v) for v in rng.integers(3, 9, d)))
        o.landmarks["g"] = gen.shape(rng, None, d=d, n=4)
        o.path = Path("/somewhere/else/img.png")
        return o, "image"
    if k == 2:
        return gen.shape(rng, None, d=d, with_landmarks=int(rng.integers(1, 4))).landmarks, "manager"
    if k == 3:
        K = tx.kinds(d)
        if d == 2 and rng.random() < 0.25:
            # a spline whose documented regulariser really truncates (near-coincident landmarks / a large floor)
            import menpo.transform as mt
            s_, t_ = tx.tps_pair(rng)
            sp_ = s_.points.copy()
            sp_[1] = sp_[0] + 1e-7
            return mt.ThinPlateSplines(ms.PointCloud(sp_), t_, min_singular_val=[1e-12, 5.0, 1e-2][rng.integers(0, 3)]), "transform"
        return tx.make(rng, K[rng.integers(0, len(K))], d)[0], "transform"
    if k == 4:
        m_ = PCAVectorModel(rng.normal(size=(8, 5)), max_n_components=int(rng.integers(2, 5)) if rng.random() < 0.3 else None)
        if rng.random() < 0.5:
            # a model with a history: fewer active components, trimmed (the discarded variance is part of its state)
            m_.n_active_components = int(rng.integers(1, m_.n_components + 1))
            if rng.random() < 0.6 and m_.n_components > 1:
                m_.trim_components(int(rng.integers(1, m_.n_components)))
        return m_, "pca"
    if k == 5:
        m_ = PCAModel([ms.PointCloud(rng.normal(size=(4, 2))) for _ in range(7)])
        if rng.random() < 0.5 and m_.n_components > 1:
            m_.trim_components(int(rng.integers(1, m_.n_components)))
        return m_, "pcamodel"
    from vf import gmrfmon
    g = gmrfmon.make_graph(rng, 4, ["chain", "tree", "random"][rng.integers(0, 3)])
    return GMRFVectorModel(gmrfmon.make_data(rng, 30, 4, 2), g, sparse=bool(rng.random() < 0.5)), "gmrf"


def w_pickle(ctx, rng, i):
    import menpo.io as mio
    obj, kind = picklable(rng, i)
    with Sandbox() as sb:
        ext = [".pkl", ".pkl.gz"][(i // 14) % 2]
        arg, ab, sp = sb.spell(rng, NAMES[rng.integers(0, len(NAMES))] + ext, expanding=True)
        dg = digest(obj)
        ok = watched_export(ctx, mio.export_pickle, obj, arg, ab, None if rng.random() < 0.5 else False, ("pickle" + ext, sp))
        if digest(obj) != dg:
            ctx.fail("export_modified_the_object", cls="pickle", mech=kind)
        if ok:
            try:
                back = mio.import_pickle(ab if rng.random() < 0.5 else arg)
            except Exception as e:
                ctx.fail("exported_file_cannot_be_imported", cls="pickle" + ext, mech=kind + ":" + type(e).__name__, error=repr(e)[:200])
                back = None
            if back is not None:
                why = diff(obj, back)
                if why:
                    ctx.fail("pickle_round_trip_changed_the_object", cls=type(obj).__name__, mech=ext, why=why)
                else:
                    # equal state means equal behaviour: what it answers, where it sends points
                    from vf import warm
                    ch = warm.changed(warm.snapshot(obj), warm.snapshot(back))
                    if kind == "transform":
                        try:
                            P_ = tx.probe(np.random.default_rng(5), getattr(obj, "n_dims", None) or 2, 6)
                            a_, b_ = tx.safe_apply(obj, P_), tx.safe_apply(back, P_)
                            if tx.maxdiff(a_[0][a_[1] & b_[1]], b_[0][a_[1] & b_[1]]) > 1e-9 * tx.BOX or (a_[1] != b_[1]).any():
                                ch.append("apply(probe)")
                        except Exception:
                            pass
                    if ch:
                        ctx.fail("pickle_round_trip_changed_the_object", cls=type(obj).__name__, mech=ext + ":answers_changed:" + ",".join(ch[:3]))
                if ext == ".pkl.gz" and Path(ab).read_bytes()[:2] != b"\x1f\x8b":
                    ctx.fail("gzipped_pickle_is_not_gzip", cls="pickle.gz")
    ctx.count_case(("pickle", ext, kind, type(obj).__name__, sp), nontrivial=True,
                   sample={"format": "pickle" + ext, "object": type(obj).__name__, "spelling": sp} if i < 4 else None)


def w_images(ctx, rng, i):
    import menpo.io as mio
    import menpo.image as mi
    from PIL import Image as PI
    C = [1, 3][i % 2]
    # every lossless raster format the exporter lists, whatever the extension is conventionally used for
    fmt = [".png", ".bmp", ".tif", ".ppm" if C == 3 else ".pgm", ".png", ".pgm", ".pbm", ".ppm", ".dib", ".tiff", ".im"][(i // 2) % 11]     # (not .pcx: Pillow's own PCX codec does not round-trip odd widths)
    H, W = [(int(rng.integers(2, 12)), int(rng.integers(2, 12))), (1, int(rng.integers(2, 9))), (int(rng.integers(2, 9)), 1), (1, 1), (7, 5)][(i // 10) % 5]
    u8 = rng.integers(0, 256, (C, H, W)).astype(np.uint8)
    if rng.random() < 0.3:
        u8[...] = rng.choice(np.array([0, 1, 127, 128, 254, 255], dtype=np.uint8), u8.shape)
    with Sandbox() as sb:
        src = os.path.join(sb.dir, "seed.png")
        PI.fromarray(u8[0] if C == 1 else np.moveaxis(u8, 0, -1)).save(src)
        for normalize in (True, False):
            im = mio.import_image(src, normalize=normalize)
            if im.pixels.shape != u8.shape:
                ctx.fail("imported_image_has_the_wrong_shape", cls="import", mech="%dch" % C, got=list(im.pixels.shape), expected=list(u8.shape))
                continue
            as8 = np.round(im.pixels * 255).astype(np.uint8) if normalize else im.pixels
            if not np.array_equal(as8, u8):
                ctx.fail("imported_image_differs_from_the_file", cls="import", mech="normalize=%s" % normalize)
            # (file names with dots in them - also ones whose inner part looks like another image extension: the last suffix decides)
            arg, ab, sp = sb.spell(rng, "%s_%d%s" % (["out", "a.b", "x.y.z", "shot.jpg", "scan.jpeg.v2", "old.gif"][rng.integers(0, 6)], int(normalize), fmt) if rng.random() < 0.7
                                   else "%s.%d%s" % (["shot.jpg", "scan.jpeg", "old.jpe"][rng.integers(0, 3)], int(normalize), fmt) if rng.random() < 0.5
                                   else "%d_%s%s" % (int(normalize), ["shot.jpg", "scan.jpeg", "take.2.jpg"][rng.integers(0, 3)], fmt))
            dg = digest(im)
            if not watched_export(ctx, mio.export_image, im, arg, ab, False, ("image" + fmt, sp)):
                continue
            if digest(im) != dg:
                ctx.fail("export_modified_the_object", cls="image", mech=fmt)
            back = mio.import_image(ab, normalize=False)
            if back.pixels.shape != u8.shape or not np.array_equal(back.pixels, u8):
                mech = "%s:%dch:%s:%s" % (fmt, C, "1px" if min(H, W) == 1 else "wide", "float_in" if normalize else "uint8_in")
                ctx.fail("eight_bit_image_changed_by_import_export_import", cls="image", mech=mech, shape=[C, H, W],
                         got_shape=list(back.pixels.shape), max_diff=int(np.abs(back.pixels.astype(int) - u8.astype(int)).max()) if back.pixels.shape == u8.shape else None)
        # a file with an alpha channel (a cut-out): the colour values in the file are the 8-bit data, transparent or not
        if i % 4 == 1:
            a8 = rng.integers(0, 256, (4, H, W)).astype(np.uint8)
            a8[3] = rng.choice(np.array([0, 0, 1, 90, 200, 255, 255], dtype=np.uint8), (H, W))
            srca = os.path.join(sb.dir, "seed_rgba.png")
            PI.fromarray(np.moveaxis(a8, 0, -1), "RGBA").save(srca)
            ctx.tap("alpha_channel_import", "calls"); ctx.tap("alpha_channel_import", "checked")
            raw = mio.import_image(srca, normalize=False)
            if raw.pixels.shape != a8.shape or not np.array_equal(raw.pixels, a8):
                ctx.fail("imported_image_differs_from_the_file", cls="import", mech="rgba:normalize=False")
            nrm = mio.import_image(srca, normalize=True)
            if nrm.pixels.shape != a8[:3].shape or not np.array_equal(np.round(nrm.pixels * 255).astype(np.uint8), a8[:3]):
                ctx.fail("imported_image_differs_from_the_file", cls="import", mech="rgba:normalize=True:colour_channels")
            elif hasattr(nrm, "mask") and not np.array_equal(np.asarray(nrm.mask.pixels[0]), a8[3] > 0):
                ctx.fail("imported_image_differs_from_the_file", cls="import", mech="rgba:normalize=True:mask_is_not_alpha")
            else:
                arg, ab, sp = sb.spell(rng, "cutout" + fmt)
                if watched_export(ctx, mio.export_image, nrm, arg, ab, False, ("image" + fmt, sp)):
                    back = mio.import_image(ab, normalize=False)
                    if back.pixels.shape != a8[:3].shape or not np.array_equal(back.pixels, a8[:3]):
                        ctx.fail("eight_bit_image_changed_by_import_export_import", cls="image", mech="%s:rgba_source" % fmt)
        # float data: less than one quantisation level
        f = mi.Image(rng.random((C, H, W)))
        arg, ab, sp = sb.spell(rng, "float" + fmt)
        if watched_export(ctx, mio.export_image, f, arg, ab, None, ("image" + fmt, sp)):
            b = mio.import_image(ab, normalize=True)
            if b.pixels.shape == f.pixels.shape:
                e = float(np.abs(b.pixels - f.pixels).max())
                ctx.err("float_image_round_trip", e)
                if e >= 1.0 / 255:
                    ctx.fail("float_image_changed_by_a_quantisation_level_or_more", cls="image", mech=fmt, err=e)
            else:
                ctx.fail("float_image_round_trip_changed_the_shape", cls="image", mech=fmt + (":1px" if min(H, W) == 1 else ""))
        # annotated images on disk: landmarks exported next to an image come back with *that* image - also when several files
        # share the beginning of their names (subject.01.png / subject.02.png)
        if i % 3 == 0 and min(H, W) > 1:
            import menpo.shape as ms
            stems = [["subject.01", "subject.02", "subject.10"], ["face", "face_b", "face.b"], ["a.b.c", "a.b.d", "a"]][rng.integers(0, 3)]
            want = {}
            for st in stems:
                im2 = mi.Image(rng.random((C, H, W)))
                mio.export_image(im2, os.path.join(sb.dir, st + ".png"))
                pc = ms.PointCloud(np.round(rng.uniform(0, 1, (4, 2)) * (np.array([H, W]) - 1), 3))
                mio.export_landmark_file(pc, os.path.join(sb.dir, st + ".pts"))
                lj = ms.PointCloud(rng.uniform(0, 1, (3, 2)) * (np.array([H, W]) - 1))
                if rng.random() < 0.35:
                    # the landmarks of the 3D mesh this texture belongs to, exported under the same name: not landmarks of a 2D
                    # image - they are left out, the 2D ones come in as ever
                    lj = ms.PointCloud(rng.uniform(0, 1, (3, 3)))
                mio.export_landmark_file(lj, os.path.join(sb.dir, st + ".ljson"))
                want[st] = (pc.points.copy(), lj.points.copy())
            for st in stems:
                got = mio.import_image(os.path.join(sb.dir, st + ".png"))
                ctx.tap("landmarks_next_to_images", "calls"); ctx.tap("landmarks_next_to_images", "checked")
                ok_pts = "PTS" in got.landmarks and got.landmarks["PTS"].points.shape == want[st][0].shape and np.abs(got.landmarks["PTS"].points - want[st][0]).max() <= 5.1e-4
                ok_lj = "LJSON" in got.landmarks and got.landmarks["LJSON"].points.shape == want[st][1].shape and np.array_equal(got.landmarks["LJSON"].points, want[st][1])
                if want[st][1].shape[1] == 3:
                    ok_lj = "LJSON" not in got.landmarks
                if not ok_pts:
                    ctx.fail("pts_coordinates_changed_beyond_three_decimals", cls="PointCloud", mech="imported_next_to_an_image:" + ("multi_dot_name" if "." in st else "plain_name"))
                if not ok_lj:
                    ctx.fail("ljson_coordinates_changed", cls="PointCloud", mech="imported_next_to_an_image:" + ("multi_dot_name" if "." in st else "plain_name"))
        # the usual one-folder-per-subject layout: the same file names in several folders, imported in one go - every image comes
        # back with the landmarks exported next to *it*
        if i % 3 == 1 and min(H, W) > 1:
            import menpo.shape as ms
            folders = ["subject_a", "subject_b", "subject_c"][: int(rng.integers(2, 4))]
            want2 = {}
            for fo in folders:
                os.makedirs(os.path.join(sb.dir, fo))
                for st in ("001", "002"):
                    mio.export_image(mi.Image(rng.random((C, H, W))), os.path.join(sb.dir, fo, st + ".png"))
                    lj = ms.PointCloud(rng.uniform(0, 1, (3, 2)) * (np.array([H, W]) - 1))
                    mio.export_landmark_file(lj, os.path.join(sb.dir, fo, st + ".ljson"))
                    want2[(fo, st)] = lj.points.copy()
            got_all = list(mio.import_images(os.path.join(sb.dir, "*", "*.png")))
            ctx.tap("same_names_in_several_folders", "calls"); ctx.tap("same_names_in_several_folders", "checked")
            if len(got_all) != len(want2):
                ctx.fail("ljson_coordinates_changed", cls="PointCloud", mech="several_folders:wrong_number_of_images", got=len(got_all), expected=len(want2))
            for im_ in got_all:
                key_ = (os.path.basename(os.path.dirname(str(im_.path))), os.path.splitext(os.path.basename(str(im_.path)))[0])
                names_ = sorted(im_.landmarks.keys()) if im_.has_landmarks else []
                if names_ != ["LJSON"]:
                    ctx.fail("ljson_group_names_changed", cls="ljson", mech="several_folders", before=["LJSON"], after=names_)
                elif key_ not in want2 or not np.array_equal(im_.landmarks["LJSON"].points, want2[key_]):
                    ctx.fail("ljson_coordinates_changed", cls="PointCloud", mech="imported_next_to_an_image:same_name_in_another_folder")
    ctx.count_case(("image", fmt, C, (min(H, 2), min(W, 2))), nontrivial=True, sample={"format": fmt, "channels": C, "shape": [H, W]} if i < 4 else None)


def w_overwrite(ctx, rng, i):
    """Histories of exports to one path, overwrite on/off, all spellings; per-case directory with a fixed file name."""
    import menpo.io as mio
    import menpo.shape as ms
    import menpo.image as mi
    which = i % 6
    exporter, ext, mk = [
        (mio.export_landmark_file, ".ljson", lambda: gen.shape(rng, "LabelledPointUndirectedGraph", d=2)),
        (mio.export_landmark_file, ".pts", lambda: ms.PointCloud(gen.points(rng, 5, 2))),
        (mio.export_pickle, ".pkl", lambda: gen.shape(rng, None, d=2)),
        (mio.export_pickle, ".pkl.gz", lambda: gen.shape(rng, None, d=3)),
        (mio.export_image, ".png", lambda: mi.Image(rng.random((3, 5, 6)))),
        (mio.export_video, [".avi", ".mp4", ".gif"][(i // 6) % 3], lambda: [mi.Image(rng.random((3, 8, 8))) for _ in range(3)]),
    ][which]
    video = which == 5          # no encoder here: only the refusal to touch an existing file is driven (it comes before any encoding)
    shape_of_history = []
    with Sandbox() as sb:
        name = "out" + ext if (i // 5) % 2 == 0 else NAMES[rng.integers(0, len(NAMES))] + ext       # a fixed name recurs across cases and directories
        for step in range(int(rng.integers(2, 9))):
            arg, ab, sp = sb.spell(rng, name, expanding=which in (2, 3))
            ow = [None, False, True][rng.integers(0, 3)]
            if video:
                ow = [None, False][rng.integers(0, 2)]
            existed = os.path.exists(ab)
            if (step == 0 and rng.random() < 0.5) or (video and not existed):
                # (also an empty file - a placeholder, a lock, the leftover of an interrupted run - is an existing file)
                Path(ab).write_bytes(b"SENTINEL not a real file" if rng.random() < 0.6 else b"")
                existed = True
            xkw = {}
            if which in (0, 1, 4) and rng.random() < 0.3:
                # the documented extension keyword given together with a path (with or without the dot, any case)
                xkw = {"extension": [ext, ext.lstrip("."), ext.upper()][rng.integers(0, 3)]}
            watched_export(ctx, exporter, mk(), arg, ab, ow, (ext, sp), **xkw)
            shape_of_history.append("%s:%s:%s" % (sp, ow, "exists" if existed else "new"))
            if rng.random() < 0.2 and os.path.exists(ab):
                os.remove(ab)
        # a directory under that name is not written into either
    hit = any(h.endswith("exists") and not h.split(":")[1] == "True" for h in shape_of_history)
    ctx.count_case(("overwrite", ext, tuple(sorted(set(shape_of_history)))), nontrivial=hit,
                   sample={"exporter": ext, "history": shape_of_history} if i < 5 else None)


WORKLOADS = [Workload("landmarks", w_landmarks, quick=700, thorough=30000), Workload("pickle", w_pickle, quick=420, thorough=15000),
             Workload("images", w_images, quick=300, thorough=10000), Workload("overwrite", w_overwrite, quick=600, thorough=30000)]
