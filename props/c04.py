"""C04  Pseudoinverse really inverts; alignment inverses swap source and target.

Taps on every pseudoinverse implementation; oracle = two-sided inversion on probe points of the domain, class
honesty of the inverse, source/target exchange, exact landmark return for the interpolating warps.
"""
import numpy as np

from vf.tx import amax as _amax

from vf.core import Workload
from vf import taps, gen, tx, align
from vf.digest import digest

ID = "C04"
TECHNIQUE = "runtime monitoring: post-condition taps on every pseudoinverse with two-sided inversion on domain probe points and class-honesty predicate"
LEVEL_TEXT = ("Every pseudoinverse computed for all invertible transform classes (homogeneous family incl. alignments, PWA, TPS with each kernel, the texture-coordinate "
              "transforms) in 2D/3D is judged from both sides on probe points of the domain, for honesty of its class, exchange of source and target and exact return of the "
              "landmarks; held-on-what-was-observed")
LEVEL_NOTE = "trusted: probe-point evaluation with tolerance 1e-8 relative (1e-6 for the spline landmarks); condition numbers of generated linear parts <= ~6"
DESIGN_REF = "DESIGN.md section 7, C04"
RULE = ("each invertible class x dims with random well-conditioned parameters; PWA with PointCloud and TriMesh targets (own triangulation); TPS with R2LogR2 / R2LogR kernels and three "
        "singular-value floors; double inversion; non-trivial = non-identity transform; distinct = (class, dims, options, target kind)")
ASSUMPTIONS = ["probe points for PWA lie strictly inside source (resp. target) triangles", "TPS declares no true inverse: only the reverse-fit clause is judged for it"]
DECIDING_TAPS = ["pseudoinverse"]
REPLAY_PATHS = ['menpo/transform/test', 'menpo/image/test']      # suite replay (thorough tier): the repository's own tests under these monitors
SHARDS = {"quick": 8, "thorough": 16}


def tri_points(rng_seed, pts, tl, n=12):
    return gen.points_inside_mesh(np.random.default_rng(rng_seed), pts, tl, n, margin=0.08)


class PinvMonitor(taps.Monitor):
    name = "pseudoinverse"

    def pre(self, ctx, args, kw):
        import menpo.transform as mt
        t = args[0]
        if not taps.is_menpo(t):
            return None
        if isinstance(t, mt.Homogeneous):
            h = np.asarray(t.h_matrix)
            if not np.isfinite(h).all() or np.linalg.cond(h) > 1e6:
                return None
        return {"d": digest(t), "clone": t.copy()}

    def post(self, ctx, st, args, kw, inv, exc):
        import menpo.transform as mt
        from menpo.transform.base import Alignment
        from menpo.transform.piecewiseaffine.base import AbstractPWA
        t = args[0]
        cls = type(t).__name__
        t0 = st["clone"]
        ctx.see("classes", cls)
        if exc is not None:
            ctx.fail("pseudoinverse_raised", cls=cls, mech=type(exc).__name__, error=repr(exc)[:200])
            return
        if digest(t) != st["d"]:
            ctx.fail("pseudoinverse_modified_the_transform", cls=cls)
        d = tx.in_dim(t0, 2)
        if isinstance(t, mt.Homogeneous):
            if not isinstance(inv, mt.Homogeneous):
                ctx.fail("inverse_not_in_homogeneous_family", cls=cls, got=type(inv).__name__)
                return
            probs = tx.honest(inv) if not tx.honest(t0) else []
            if probs:
                ctx.fail("inverse_class_is_not_honest", cls=type(inv).__name__, mech=cls, problems=probs)
            if not isinstance(inv, type(t)) and not isinstance(t, Alignment):
                ctx.see("inverse_class_generalised", "%s -> %s" % (cls, type(inv).__name__))
            x = tx.probe(np.random.default_rng(7), d, 9)
            y = tx.probe(np.random.default_rng(8), d, 9)
            e1 = tx.maxdiff(inv.apply(t0.apply(x)), x)
            e2 = tx.maxdiff(t0.apply(inv.apply(y)), y)
            ctx.err("homog_left", e1); ctx.err("homog_right", e2)
            if not (e1 <= 1e-8 * tx.BOX):
                ctx.fail("inverse_does_not_undo_from_the_left", cls=cls, err=e1)
            if not (e2 <= 1e-8 * tx.BOX):
                ctx.fail("inverse_does_not_undo_from_the_right", cls=cls, err=e2)
            if isinstance(t, Alignment):
                prod = np.asarray(inv.h_matrix) @ np.asarray(t0.h_matrix)
                prod = prod / prod[-1, -1]
                if _amax(prod - np.eye(d + 1)) > 1e-8:
                    ctx.fail("alignment_inverse_matrix_is_not_the_exact_inverse", cls=cls)
        elif isinstance(t, AbstractPWA):
            if type(inv) is not type(t):
                ctx.fail("inverse_not_of_the_same_warp_class", cls=cls, got=type(inv).__name__)
                return
            if t.has_true_inverse:
                tl = np.asarray(t0.source.trilist)
                x = tri_points(11, t0.source.points, tl)
                y = tri_points(12, t0.target.points, tl)
                try:
                    e1 = tx.maxdiff(inv.apply(t0.apply(x)), x)
                    e2 = tx.maxdiff(t0.apply(inv.apply(y)), y)
                except Exception as e:
                    ctx.fail("inverse_rejects_points_of_its_domain", cls=cls, mech=type(e).__name__)
                    return
                ctx.err("pwa_left", e1); ctx.err("pwa_right", e2)
                if not (e1 <= 1e-7 * tx.BOX):
                    ctx.fail("inverse_does_not_undo_from_the_left", cls=cls, err=e1, target_cls=type(t.target).__name__)
                if not (e2 <= 1e-7 * tx.BOX):
                    ctx.fail("inverse_does_not_undo_from_the_right", cls=cls, err=e2, target_cls=type(t.target).__name__)
        elif isinstance(t, mt.ThinPlateSplines):
            if type(inv) is not type(t):
                ctx.fail("inverse_not_of_the_same_warp_class", cls=cls, got=type(inv).__name__)
                return
        else:
            return
        if isinstance(t, Alignment):
            if not (isinstance(inv, Alignment)):
                ctx.fail("alignment_inverse_is_not_an_alignment", cls=cls)
                return
            es = tx.maxdiff(inv.source.points, t0.target.points)
            et = tx.maxdiff(inv.target.points, t0.source.points)
            if not (es <= 0):
                ctx.fail("inverse_source_is_not_the_target", cls=cls, err=es)
            if not (et <= 0):
                ctx.fail("inverse_target_is_not_the_source", cls=cls, err=et)
            well_posed = True
            if isinstance(t, mt.ThinPlateSplines):
                # the singular-value floor is a documented regulariser: exact interpolation is only promised when no
                # singular value of the system matrix is near or below it
                # (system matrix rebuilt here from the landmarks the inverse must interpolate, not taken from the object)
                q = t0.target.points
                kk = type(t0.kernel)(q.copy()).apply(q.copy())
                pp = np.hstack([np.ones((len(q), 1)), q])
                sv = np.linalg.svd(np.block([[kk, pp], [pp.T, np.zeros((3, 3))]]), compute_uv=False)
                well_posed = sv.min() > 3 * max(inv.min_singular_val, 1e-12)
                if not well_posed:
                    ctx.bump("tps_inverse_near_singular_floor_not_judged")
            if isinstance(t, (AbstractPWA, mt.ThinPlateSplines)) and well_posed:
                try:
                    back = inv.apply(t0.target.points.copy())
                except Exception as ex:
                    # (the landmarks are points of the inverse's domain - vertices of its mesh, centres of its kernel)
                    ctx.fail("inverse_rejects_points_of_its_domain", cls=cls, mech="its_own_landmarks:" + type(ex).__name__, error=repr(ex)[:160])
                    return
                e = tx.maxdiff(back, t0.source.points)
                ctx.err("warp_landmark_return", e)
                if not (e <= 1e-6 * tx.BOX):
                    ctx.fail("inverse_warp_does_not_return_landmarks", cls=cls, err=e,
                             kernel=type(getattr(t, "kernel", None)).__name__)
                if isinstance(t, mt.ThinPlateSplines):
                    if type(inv.kernel) is not type(t.kernel):
                        ctx.fail("inverse_spline_uses_another_kernel", cls=cls)
                    if inv.min_singular_val != t.min_singular_val:
                        ctx.fail("inverse_spline_drops_options", cls=cls, mech="min_singular_val")


def setup(ctx):
    owners = taps.tap_definers(ctx, "pseudoinverse", lambda c: PinvMonitor())
    ctx.see("tapped_pseudoinverse_definers", sorted(c.__name__ for c in owners))


KINDS2 = tx.HOMOG + tx.EXTRA_HOMOG + ["ThinPlateSplines", "PiecewiseAffine", "PythonPWA", "tcoords", "PWA_trimesh_target", "PWA_mirrored_target", "TPS_large_unit", "TPS_small_unit", "TPS_pixel_integers", "PWA_integer_source"]
KINDS3 = tx.HOMOG + tx.EXTRA_HOMOG + ["tcoords3"]


def w_inverse(ctx, rng, i):
    import menpo.transform as mt
    import menpo.shape as ms
    from scipy.spatial import Delaunay
    d = 2 + i % 2
    K = KINDS2 if d == 2 else KINDS3
    kind = K[(i // 2) % len(K)]
    opt = ""
    if kind.startswith("tcoords"):
        d = 2
        shp = tuple(int(v) for v in rng.integers(2, 60, 2))
        t = mt.tcoords_to_image_coords(shp)
        inv = mt.image_coords_to_tcoords(shp)          # goes through pseudoinverse internally
        t.pseudoinverse()
        opt = "shape"
    elif kind == "PWA_mirrored_target":
        # the target is a reflected copy of a fold-free deformation: every triangle changes orientation, the map stays one-to-one
        s, tg = tx.pwa_pair(rng)
        refl = np.eye(2)
        refl[rng.integers(0, 2), rng.integers(0, 2)] *= -1.0
        if abs(np.linalg.det(refl)) < 0.5 or np.linalg.det(refl) > 0:
            refl = np.diag([1.0, -1.0])
        from menpo.transform.piecewiseaffine.base import PythonPWA, CachedPWA
        cls = [PythonPWA, CachedPWA][rng.integers(0, 2)]
        t = cls(s, ms.PointCloud(tg.points @ refl.T + rng.uniform(-2, 2, 2)))
        inv = t.pseudoinverse()
        opt = cls.__name__
    elif kind == "TPS_large_unit":
        # landmarks in map metres / whole-slide pixel coordinates: coordinates of 1e4..1e5 with a non-rigid residual of a few units
        from menpo.transform.rbf import R2LogR2RBF, R2LogRRBF
        s, tg = tx.tps_pair(rng)
        unit = 10.0 ** rng.uniform(3.5, 5.2)
        sp = s.points * unit / tx.BOX
        vk = int(rng.integers(0, 3))
        if vk == 0:
            tp = tg.points * unit / tx.BOX
        elif vk == 1:
            tp = sp @ (np.eye(2) + rng.uniform(-0.1, 0.1, (2, 2))).T + rng.uniform(-3, 3, 2) * unit + rng.normal(scale=10.0 ** rng.uniform(-3.5, 0.5), size=sp.shape)
        else:
            # two surveys of the same site: far from the origin, a few units apart, a small non-rigid residual
            if rng.random() < 0.5:
                sp = sp + rng.uniform(1, 5, 2) * unit
            tp = sp + rng.uniform(-8, 8, 2) + rng.normal(scale=10.0 ** rng.uniform(-2.5, 0.0), size=sp.shape)
        kcls = [None, R2LogR2RBF, R2LogRRBF][rng.integers(0, 3)]
        t = mt.ThinPlateSplines(ms.PointCloud(sp), ms.PointCloud(tp), kernel=None if kcls is None else kcls(sp.copy()), min_singular_val=1e-4)
        inv = t.pseudoinverse()
        back = inv.apply(tp.copy())
        e = tx.maxdiff(back, sp)
        ctx.tap("large_unit_spline_inverse", "calls"); ctx.tap("large_unit_spline_inverse", "checked")
        ctx.err("large_unit_warp_landmark_return_rel", e / unit)
        # (seen on the unchanged tree: <= 5e-13 x unit)
        from vf import refmap

        def excused(tr_, pts_, got_):
            # (far from the origin the system has a singular value below the documented floor: if the warp equals the reference
            # solution that applies the same cut, a residual at the landmarks is the documented regulariser's, not a defect)
            r_ = refmap.reference_apply(tr_, pts_)
            ok_ = r_ is not None and tx.maxdiff(got_, r_[0]) <= 1e-9 * unit
            if ok_:
                ctx.bump("large_unit_residual_explained_by_the_documented_floor")
            return ok_
        if not (e <= 1e-9 * unit) and not excused(inv, tp, back):
            ctx.fail("inverse_warp_does_not_return_landmarks", cls="ThinPlateSplines", mech="large_unit", err=e, unit=unit)
        fwd = t.apply(sp.copy())
        ctx.err("large_unit_warp_landmark_forward_rel", tx.maxdiff(fwd, tp) / unit)
        if not (tx.maxdiff(fwd, tp) <= 1e-9 * unit) and not excused(t, sp, fwd):
            ctx.fail("inverse_warp_does_not_return_landmarks", cls="ThinPlateSplines", mech="large_unit:forward", err=tx.maxdiff(fwd, tp), unit=unit)
        opt = "unit"
    elif kind in ("TPS_small_unit", "TPS_pixel_integers"):
        from menpo.transform.rbf import R2LogR2RBF, R2LogRRBF
        s, tg = tx.tps_pair(rng)
        kcls = [None, R2LogR2RBF, R2LogRRBF][rng.integers(0, 3)]
        if kind == "TPS_small_unit":
            # normalised coordinates (fractions of the image size): the caller lowers the documented singular-value floor so that
            # the spline keeps interpolating
            unit = 10.0 ** rng.uniform(-1.6, -0.3)
            sp, tp = s.points * unit / tx.BOX, tg.points * unit / tx.BOX
            msv = 10.0 ** rng.uniform(-12, -9)
            dt = "float64"
        else:
            # pixel positions kept in the compact integer type of the annotation file
            dt = ["uint16", "int16", "uint8", "int32"][rng.integers(0, 4)]
            unit = 100.0 if dt == "uint8" else 10.0 ** rng.uniform(2.5, 3.6)
            lo = np.minimum(s.points.min(0), tg.points.min(0))
            sp = np.round((s.points - lo) * unit / (2 * tx.BOX) + 3).astype(dt)
            tp = np.round((tg.points - lo) * unit / (2 * tx.BOX) + 3).astype(dt)
            msv = 1e-4
            if len(np.unique(sp, axis=0)) < len(sp) or len(np.unique(tp, axis=0)) < len(tp):
                ctx.count_case((kind, d, "coincident_after_rounding"), nontrivial=False)
                return
        kw_ = {} if kind == "TPS_pixel_integers" else {"min_singular_val": msv}
        t = mt.ThinPlateSplines(ms.PointCloud(sp.copy()), ms.PointCloud(tp.copy()), kernel=None if kcls is None else kcls(sp.copy()), **kw_)
        inv = t.pseudoinverse()
        spf, tpf = np.asarray(sp, dtype=float), np.asarray(tp, dtype=float)

        def floor_ok(q):
            kk_ = (R2LogR2RBF if kcls is None else kcls)(q.copy()).apply(q.copy())
            pp_ = np.hstack([np.ones((len(q), 1)), q])
            sv_ = np.linalg.svd(np.block([[kk_, pp_], [pp_.T, np.zeros((3, 3))]]), compute_uv=False)
            return sv_.min() > 100 * msv
        ctx.tap("spline_inverse_in_other_units", "calls")
        if floor_ok(tpf) and floor_ok(spf):
            ctx.tap("spline_inverse_in_other_units", "checked")
            try:
                back = inv.apply(tpf.copy() if rng.random() < 0.7 else tp.copy())
                fwd = t.apply(spf.copy())
            except Exception as ex:
                ctx.fail("inverse_rejects_points_of_its_domain", cls="ThinPlateSplines", mech=kind + ":" + type(ex).__name__, error=repr(ex)[:160])
                return
            e, ef = tx.maxdiff(back, spf), tx.maxdiff(fwd, tpf)
            ctx.err(kind + "_landmark_return_rel", e / unit)
            if not (e <= 1e-7 * unit):
                ctx.fail("inverse_warp_does_not_return_landmarks", cls="ThinPlateSplines", mech=kind + ":" + dt, err=e, unit=unit)
            if not (ef <= 1e-7 * unit):
                ctx.fail("inverse_warp_does_not_return_landmarks", cls="ThinPlateSplines", mech=kind + ":forward:" + dt, err=ef, unit=unit)
        else:
            ctx.bump("tps_inverse_near_singular_floor_not_judged")
        opt = dt
    elif kind == "PWA_integer_source":
        # the source landmarks are pixel positions in a compact integer type (the inverse warp has them as its target)
        from menpo.transform.piecewiseaffine.base import PythonPWA, CachedPWA
        s, tg = tx.pwa_pair(rng)
        udt = [np.uint16, np.int16, np.int32, np.uint8][rng.integers(0, 4)]
        span_ = float(np.ptp(s.points, axis=0).max())
        kk_ = (200.0 if udt is np.uint8 else float(rng.uniform(300, 3000))) / max(span_, 1e-9)
        pu_ = np.round((s.points - s.points.min(0)) * kk_ + 3)
        tl_ = np.asarray(s.trilist)
        a2_, b2_ = gen.tri_area2(s.points, tl_), gen.tri_area2(pu_, tl_)
        if not (pu_.max() < np.iinfo(udt).max and (np.sign(a2_) == np.sign(b2_)).all() and np.abs(b2_).min() > 4.0):
            ctx.count_case((kind, d, "rounding_folds_the_mesh"), nontrivial=False)
            return
        cls = [PythonPWA, CachedPWA][rng.integers(0, 2)]
        t = cls(ms.TriMesh(pu_.astype(udt), trilist=tl_), tg)
        inv = t.pseudoinverse()
        opt = np.dtype(udt).name
    elif kind == "PWA_trimesh_target":
        s, tg = tx.pwa_pair(rng)
        # the target handed over as a TriMesh that carries its own (different) triangulation
        tl2 = Delaunay(tg.points).simplices.astype(np.int64)
        tmesh = ms.TriMesh(tg.points, trilist=tl2)
        from menpo.transform.piecewiseaffine.base import PythonPWA, CachedPWA
        cls = [PythonPWA, CachedPWA][rng.integers(0, 2)]
        if rng.random() < 0.5:
            t = cls(s, tmesh)
        else:
            t = cls(s, ms.PointCloud(s.points.copy()))
            t.set_target(tmesh)
        inv = t.pseudoinverse()
        opt = "own_trilist_differs=%s" % (not np.array_equal(np.sort(tl2, axis=None), np.sort(s.trilist, axis=None)))
    else:
        t, _ = tx.make(rng, kind, d)
        from menpo.transform.piecewiseaffine.base import AbstractPWA as _APWA
        if isinstance(t, _APWA) and rng.random() < 0.5:
            # earlier in the same process the reverse warp was fitted directly (the target points as a source of their own, with
            # their own triangulation): nothing of that may reach the inverse taken now
            import menpo.shape as _ms4
            try:
                with taps.quiet():
                    rev_ = type(t)(_ms4.PointCloud(np.asarray(t.target.points, dtype=float).copy()), _ms4.PointCloud(np.asarray(t.source.points, dtype=float).copy()))
                    rev_.apply(np.asarray(t.target.points, dtype=float)[:3].copy())
                ctx.bump("reverse_warp_fitted_directly_before")
            except Exception:
                pass
        how = None
        if isinstance(t, mt.Homogeneous) and rng.random() < 0.25 and not kind.startswith("Int"):
            # the "try in place, fall back to a new object" idiom with a partner of a foreign class: refused, or - whatever
            # is accepted - the object that results is the one that gets inverted
            foreign, _ = tx.make(rng, ["Affine", "Translation", "Rotation", "NonUniformScale", "Similarity", "Homogeneous"][rng.integers(0, 6)], d)
            try:
                with taps.quiet():
                    getattr(t, ["compose_before_inplace", "compose_after_inplace"][rng.integers(0, 2)])(foreign)
                ctx.bump("inplace_composition_accepted")
            except ValueError:
                ctx.bump("inplace_composition_with_a_foreign_class_refused")
        if isinstance(t, mt.Homogeneous) and rng.random() < 0.35 and not kind.startswith("Int"):
            # the transform to invert is itself a product (a scale accumulated over several steps, a pose updated in place)
            with taps.quiet():
                t, how = tx.composed(rng, t, kind, d)
        inv = t.pseudoinverse()
        if how:
            opt = "product:" + how
        if isinstance(t, mt.ThinPlateSplines):
            opt = "%s/%g" % (type(t.kernel).__name__, t.min_singular_val)
        if hasattr(t, "allow_mirror"):
            opt = "mirror=%s" % t.allow_mirror
    if d == 3 and kind == "Affine" and rng.random() < 0.5:
        # "wrap in the narrowest class that accepts the matrix": a matrix with a perspective entry anywhere in its bottom row is
        # not affine - refused by Affine, or, if accepted, invertible like anything else that declares a true inverse
        hp = np.array(t.h_matrix, dtype=float, copy=True)
        hp[3, int(rng.integers(0, 3))] = float(rng.uniform(0.01, 0.05)) * rng.choice([-1.0, 1.0])
        try:
            tp_ = mt.Affine(hp)
            ctx.bump("perspective_matrix_accepted_as_affine")
            tp_.pseudoinverse()
        except ValueError:
            ctx.bump("perspective_matrix_refused_by_affine")
    # a work buffer refilled in place between two round trips through the warp and its inverse (same array object, new contents)
    from menpo.transform.piecewiseaffine.base import AbstractPWA as _PWA
    if isinstance(t, _PWA) and t.has_true_inverse and rng.random() < 0.5:
        tl_ = np.asarray(t.source.trilist)
        buf = gen.points_inside_mesh(rng, t.source.points, tl_, 8, margin=0.08)
        for rnd in range(2):
            want = buf.copy()
            try:
                back = inv.apply(t.apply(buf))
            except Exception as e:
                ctx.fail("inverse_rejects_points_of_its_domain", cls=type(t).__name__, mech="reused_buffer:" + type(e).__name__)
                break
            ctx.tap("round_trip_through_a_reused_buffer", "calls"); ctx.tap("round_trip_through_a_reused_buffer", "checked")
            if tx.maxdiff(back, want) > 1e-7 * tx.BOX:
                ctx.fail("inverse_does_not_undo_from_the_left", cls=type(t).__name__, mech="buffer_refilled_in_place" if rnd else "first_use", err=tx.maxdiff(back, want))
            buf[...] = gen.points_inside_mesh(rng, t.source.points, tl_, 8, margin=0.08)
    # histories: inverse of the inverse restores the map (and for alignments source/target)
    if rng.random() < 0.5:
        inv2 = inv.pseudoinverse()
        try:
            if isinstance(t, mt.Homogeneous):
                x = tx.probe(rng, d, 7)
                if tx.maxdiff(inv2.apply(x), t.apply(x)) > 1e-7 * tx.BOX:
                    ctx.fail("double_inverse_is_not_the_original_map", cls=type(t).__name__)
            from menpo.transform.base import Alignment
            if isinstance(t, Alignment) and isinstance(inv2, Alignment):
                if tx.maxdiff(inv2.source.points, t.source.points) > 0 or tx.maxdiff(inv2.target.points, t.target.points) > 0:
                    ctx.fail("double_inverse_does_not_restore_source_and_target", cls=type(t).__name__)
        except Exception as e:
            ctx.fail("double_inverse_unusable", cls=type(t).__name__, mech=type(e).__name__)
    # the inverse is an object of its own: retargeting the alignment afterwards does not change the inverse taken before
    # (it still undoes the map it was taken from), nor the other way round
    from menpo.transform.base import Alignment as _Al
    if isinstance(t, _Al) and isinstance(t, mt.Homogeneous) and isinstance(inv, mt.Homogeneous) and rng.random() < 0.5:
        with taps.quiet():
            t_before = t.copy()
            h_inv_before = np.array(inv.h_matrix, dtype=float, copy=True)
            t.set_target(ms.PointCloud(t.target.points + rng.normal(scale=0.8, size=t.target.points.shape)))
        ctx.tap("inverse_independent_of_its_origin", "calls"); ctx.tap("inverse_independent_of_its_origin", "checked")
        x = tx.probe(rng, d, 6)
        if tx.maxdiff(np.asarray(inv.h_matrix, dtype=float), h_inv_before) > 0 or tx.maxdiff(inv.apply(t_before.apply(x)), x) > 1e-8 * tx.BOX:
            ctx.fail("retargeting_the_alignment_changed_the_inverse_taken_before", cls=type(t).__name__)
        if isinstance(inv, _Al):
            with taps.quiet():
                h_t = np.array(t.h_matrix, dtype=float, copy=True)
                inv.set_target(ms.PointCloud(inv.target.points + rng.normal(scale=0.8, size=inv.target.points.shape)))
            if tx.maxdiff(np.asarray(t.h_matrix, dtype=float), h_t) > 0:
                ctx.fail("retargeting_the_inverse_changed_the_alignment_it_was_taken_from", cls=type(t).__name__)
        inv = t.pseudoinverse()
    # the vector form: the parameters of the inverse of the transform *with the given parameters*
    if isinstance(t, mt.Homogeneous) and hasattr(t, "pseudoinverse_vector") and rng.random() < 0.4:
        try:
            v0 = np.array(t.as_vector(), dtype=float)
        except Exception:
            v0 = None
        if v0 is not None and v0.size and not kind.startswith("Int"):
            # the forward transform and its inverse both built from the one template: two transforms in their own right - the one
            # undoes the other, and the template (and an inverse taken from it before) is as it was
            h_tpl = np.array(t.h_matrix, dtype=float)
            tgt_tpl = np.array(t.target.points, copy=True) if isinstance(t, _Al) else None
            try:
                with taps.quiet():
                    v1 = v0 * 1.07 + 0.013
                    inv_before = t.pseudoinverse()
                    fwd_ = t.from_vector(v1)
                    h_fwd = np.array(fwd_.h_matrix, dtype=float)
                    inv_ = t.from_vector(np.asarray(t.pseudoinverse_vector(v1)))
                    xs_ = tx.probe(rng, d, 5)
                    back_ = np.asarray(inv_.apply(np.asarray(fwd_.apply(xs_.copy()))), dtype=float)
                    back0_ = np.asarray(inv_before.apply(np.asarray(t.apply(xs_.copy()))), dtype=float)
                    cnd_ = float(np.linalg.cond(h_fwd))
                ctx.tap("forward_and_inverse_from_one_template", "calls")
                if cnd_ < 1e6 and np.isfinite(back_).all():
                    ctx.tap("forward_and_inverse_from_one_template", "checked")
                    if tgt_tpl is not None and (tx.maxdiff(t.target.points, tgt_tpl) > 0 or tx.maxdiff(inv_before.source.points, tgt_tpl) > 0):
                        # (the alignment's target - the source of the inverse taken before - is the point set it was fitted to)
                        ctx.fail("pseudoinverse_modified_the_transform", cls=type(t).__name__, mech="from_vector_or_pseudoinverse_vector_moved_the_target_of_the_template")
                    if tx.maxdiff(np.asarray(t.h_matrix, dtype=float), h_tpl) > 0:
                        ctx.fail("pseudoinverse_modified_the_transform", cls=type(t).__name__, mech="from_vector_or_pseudoinverse_vector_changed_the_template")
                    elif tx.maxdiff(np.asarray(fwd_.h_matrix, dtype=float), h_fwd) > 0:
                        ctx.fail("pseudoinverse_modified_the_transform", cls=type(t).__name__, mech="building_the_inverse_from_the_template_changed_the_forward_transform")
                    elif not (tx.maxdiff(back_, xs_) <= 1e-8 * cnd_ * tx.BOX):
                        ctx.fail("inverse_does_not_undo_from_the_left", cls=type(t).__name__, mech="vector_form:two_transforms_from_one_template", err=tx.maxdiff(back_, xs_))
                    if np.isfinite(back0_).all() and not (tx.maxdiff(back0_, xs_) <= 1e-7 * max(1.0, float(np.linalg.cond(h_tpl))) * tx.BOX):
                        ctx.fail("inverse_does_not_undo_from_the_left", cls=type(t).__name__, mech="inverse_taken_before_the_vector_calls", err=tx.maxdiff(back0_, xs_))
            except (ValueError, NotImplementedError, np.linalg.LinAlgError):
                pass
            for rel in (0.0, 1e-7, 3e-6, 0.05):
                v = v0 * (1.0 + rel) + rel * 1e-3
                try:
                    with taps.quiet():
                        expect = np.asarray(t.from_vector(v).pseudoinverse().as_vector(), dtype=float)
                    got = np.asarray(t.pseudoinverse_vector(v), dtype=float)
                except Exception:
                    break
                ctx.tap("pseudoinverse_vector", "calls"); ctx.tap("pseudoinverse_vector", "checked")
                if got.shape != expect.shape or tx.maxdiff(got, expect) > 1e-9 * max(1.0, float(np.abs(expect).max())):
                    ctx.fail("pseudoinverse_vector_is_not_the_inverse_of_the_given_parameters", cls=type(t).__name__, mech="nearby_vector" if 0 < rel < 1e-4 else "other", err=tx.maxdiff(got, expect))
    # rotations in their quaternion form: the inverse of the unit quaternion (w, x, y, z) is its conjugate - also for half turns
    # (w = 0), where q and -q name the same rotation
    if d == 3 and isinstance(t, mt.Rotation) and not isinstance(t, _Al) and hasattr(t, "pseudoinverse_vector") and rng.random() < 0.5:
        from props.c05 import unit_quaternion
        hv = rng.normal(size=3); hv /= np.linalg.norm(hv)
        for q in (unit_quaternion(rng), np.concatenate([[0.0], hv]), np.array([0.0, 1.0, 0.0, 0.0]), np.array([0.0, 0.0, 0.6, 0.8])):
            try:
                got = np.asarray(t.pseudoinverse_vector(q.copy()), dtype=float)
            except Exception as ex:
                ctx.fail("pseudoinverse_vector_is_not_the_inverse_of_the_given_parameters", cls="Rotation", mech="raised:" + type(ex).__name__)
                continue
            conj = q * np.array([1.0, -1.0, -1.0, -1.0])
            ctx.tap("pseudoinverse_vector", "calls"); ctx.tap("pseudoinverse_vector", "checked")
            e_ = min(tx.maxdiff(got, conj), tx.maxdiff(got, -conj)) if got.shape == conj.shape else float("inf")
            if not (e_ <= 1e-7):
                ctx.fail("pseudoinverse_vector_is_not_the_inverse_of_the_given_parameters", cls="Rotation", mech="quaternion:" + ("half_turn" if q[0] == 0 else "generic"), err=e_)
    # the inverse of a homogeneous alignment is a working alignment of its own: retargeted, it is the fit from *its* source
    from menpo.transform.base import Alignment
    if isinstance(inv, Alignment) and isinstance(inv, mt.Homogeneous) and rng.random() < 0.5:
        newt = ms.PointCloud(inv.target.points + rng.normal(scale=0.7, size=inv.target.points.shape) + rng.uniform(-2, 2, d))
        isrc = inv.source.points.copy()
        inv.set_target(newt)
        ctx.tap("inverse_alignment_retargeted", "calls"); ctx.tap("inverse_alignment_retargeted", "checked")
        align.judge_family(ctx, inv, isrc, newt.points.copy(),
                           {"allow_mirror": getattr(inv, "allow_mirror", False), "rotation": getattr(inv, "rotation", True)}, "inverse_retargeted")
        if tx.maxdiff(inv.aligned_source().points, inv.apply(isrc)) > 1e-9 * tx.BOX:
            ctx.fail("retargeted_inverse_reports_an_aligned_source_that_is_not_its_map_of_its_source", cls=type(inv).__name__)
    # retargeted alignments invert like fresh ones (state after set_target)
    if isinstance(t, Alignment) and rng.random() < 0.4 and not kind.startswith("PWA_trimesh"):
        newt = t.target.copy()
        newt.points = newt.points + rng.normal(scale=0.05, size=newt.points.shape)
        ok = True
        from menpo.transform.piecewiseaffine.base import AbstractPWA
        if isinstance(t, AbstractPWA):   # stay fold-free: every triangle keeps its orientation and a decent area
            tl = np.asarray(t.source.trilist)
            a2, b2 = gen.tri_area2(t.source.points, tl), gen.tri_area2(newt.points, tl)
            ok = bool((np.sign(a2) == np.sign(b2)).all() and np.abs(b2).min() > 1.5)
        if ok:
            t.set_target(newt)
            t.pseudoinverse()
    ident = False
    try:
        x = tx.probe(rng, d, 5)
        ident = tx.maxdiff(t.apply(x), x) < 1e-12
    except Exception:
        pass
    ctx.count_case((kind, d, opt), nontrivial=not ident, sample={"kind": kind, "dims": d, "options": opt} if i < 6 else None)


WORKLOADS = [Workload("inverse", w_inverse, quick=3000, thorough=150000)]
