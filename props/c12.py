"""C12  GMRF precision is storage-independent, graph-sparse, symmetric PSD, exact.

Taps at the end of GMRFVectorModel.__init__ / _increment (vf/gmrfmon.py) compare the model state with an independent
scatter-add assembly of inverted per-edge / per-vertex covariances on all the data the model has been fed; a tap on
mahalanobis_distance judges the distances.  Every case is built sparse and dense and the two are compared.
"""
import numpy as np

from vf.tx import amax as _amax

from vf.core import Workload
from vf import taps, gen, gmrfmon, ref

ID = "C12"
TECHNIQUE = "runtime monitoring: taps at the end of GMRF construction/increment against an independent reference assembly; sparse-vs-dense differential; distance post-conditions"
LEVEL_TEXT = ("Every GMRF model built over all undirected graphs on 2-5 vertices (thorough) and random graphs/trees/directed graphs up to 12 vertices, 1-4 features per vertex, both modes, both "
              "bias conventions, float32/float64, optional rank truncation, sparse and dense, is compared with an independent assembly, with its other-storage twin, and judged for symmetry, "
              "positive semi-definiteness, graph sparsity and distance properties; held-on-what-was-observed")
LEVEL_NOTE = "trusted: the 30-line reference assembly in vf/gmrfmon.py (numpy only); tolerance 1e-7 relative (float64), 2e-5 (float32)"
DESIGN_REF = "DESIGN.md section 7, C12"
RULE = ("graphs: every labelled undirected graph on 2-5 vertices (thorough; sampled in quick), random undirected incl. isolated vertices and unsorted edge lists, chains, cycles, trees, directed graphs "
        "without antiparallel pairs (2-12 vertices); 1-4 features per vertex; mode x bias x dtype x n_components (None / below block size / above); non-trivial = graph has >=1 edge or >=2 vertices "
        "with >=2 features; distinct = (graph kind, n_vertices, n_edges, features per vertex, mode, bias, dtype, truncation)")
ASSUMPTIONS = ["directed graphs carry no antiparallel edge pairs", "per-block covariances are well conditioned (n_samples >= 6 x block size)"]
DECIDING_TAPS = ["GMRF.__init__", "mahalanobis_distance"]
REPLAY_PATHS = ['menpo/model/test']      # suite replay (thorough tier): the repository's own tests under these monitors
SHARDS = {"quick": 8, "thorough": 16}


class DistanceMonitor(taps.Monitor):
    name = "mahalanobis_distance"

    def pre(self, ctx, args, kw):
        m = args[0]
        s = args[1] if len(args) > 1 else kw.get("samples")
        if id(m) not in gmrfmon.DATA or not isinstance(s, np.ndarray) or not np.isfinite(s).all():
            return None
        sub = args[2] if len(args) > 2 else kw.get("subtract_mean", True)
        sq = args[3] if len(args) > 3 else kw.get("square_root", False)
        return {"s": np.atleast_2d(s.copy()), "sub": sub, "sq": sq, "single": s.ndim == 1}

    def post(self, ctx, st, args, kw, r, exc):
        m = args[0]
        cls = type(m).__name__
        mech = ("sparse" if m.sparse else "dense") + (":single" if st["single"] else ":batch")
        if exc is not None:
            ctx.fail("mahalanobis_distance_raised", cls=cls, mech=mech + ":" + type(exc).__name__, error=repr(exc)[:200])
            return
        Q = gmrfmon.dense(m.precision).astype(np.float64)
        X = st["s"].astype(np.float64) - (np.asarray(m.mean_vector, dtype=float) if st["sub"] else 0)
        exp = np.einsum("ij,jk,ik->i", X, Q, X)
        got = np.atleast_1d(np.asarray(r, dtype=float))
        if st["sq"]:
            got = got ** 2
        nrm = max(1.0, float(np.abs(exp).max()))
        tol = (1e-8 if np.dtype(m.dtype) == np.float64 else 1e-3) * nrm
        if got.shape != exp.shape or _amax(got - exp) > tol:
            ctx.fail("mahalanobis_distance_is_not_the_quadratic_form_of_the_precision", cls=cls, mech=mech)
        if (got < -tol).any():
            ctx.fail("negative_mahalanobis_distance", cls=cls, mech=mech)


def replay_case_begin():
    gmrfmon.clear()


def setup(ctx):
    gmrfmon.install(ctx)
    taps.tap(ctx, taps.mod("menpo.model.gmrf").GMRFVectorModel, "mahalanobis_distance", DistanceMonitor())
    taps.tap(ctx, taps.mod("menpo.model.gmrf").GMRFModel, "mahalanobis_distance", DistanceMonitor())


def small_graph(i):
    """Labelled undirected graph number i over n = 2..5 vertices."""
    off = 0
    for n in range(2, 6):
        cnt = ref.n_graphs(n, False)
        if i < off + cnt:
            return n, ref.graph_by_index(n, False, i - off)
        off += cnt
    return None


N_SMALL = sum(ref.n_graphs(n, False) for n in range(2, 6))    # 2 + 8 + 64 + 1024


def run_case(ctx, rng, graph, gkind, i):
    from menpo.model import GMRFVectorModel, GMRFModel
    import menpo.shape as ms
    V = graph.n_vertices
    k = 1 + (i % 4)
    mode = ["concatenation", "subtraction"][(i // 4) % 2]
    bias = (i // 8) % 2
    dtype = [np.float64, np.float32][(i // 16) % 2 if (i // 16) % 4 == 1 else 0]
    block = (2 * k if mode == "concatenation" else k) if graph.n_edges else k
    trunc = [None, None, max(1, block - 1), block + 3][(i // 3) % 4]
    n = 6 * max(block, 2) + int(rng.integers(4, 20))
    X = gmrfmon.make_data(rng, n, V, k)
    # the same data in another unit / another frame of reference: a covariance does not care where the origin is, and every
    # documented cut-off is relative
    variant = ["plain", "plain", "small_unit", "far_offset"][(i // 7) % 4]
    if variant == "far_offset" and (dtype != np.float64 or i % 3 == 0 or i % 5 == 0):
        variant = "plain"          # (models that keep learning accumulate raw moments: driven near the origin only)
    unit = 1.0
    if variant == "small_unit":
        unit = 10.0 ** rng.uniform(-7, -3)
        X = X * unit
    elif variant == "far_offset":
        X = X + rng.choice([-1.0, 1.0], X.shape[1]) * 10.0 ** rng.uniform(3, 6)     # map coordinates, time stamps
    idt = None
    if variant == "plain" and dtype == np.float64 and rng.random() < 0.15:
        # pixel intensities / integer pixel positions handed over in the compact integer type they are stored in (the data are
        # whole numbers: the model is the one of those numbers)
        X = np.round((X - X.min()) / max(1e-300, float(np.ptp(X))) * 240.0 + 5.0)
        idt = [np.uint8, np.int16, np.uint16, np.int64][rng.integers(0, 4)]
        ctx.bump("integer_typed_data_matrices")
    gmrfmon.clear()
    gmrfmon.UNIT[0] = unit
    models = {}
    for sparse in (True, False):
        Xin = X.copy() if rng.random() < 0.5 else [row.copy() for row in X]
        if idt is not None:
            Xin = X.astype(idt) if rng.random() < 0.5 else [row.astype(idt) for row in X]
        nkw = {}
        if isinstance(Xin, list) and rng.random() < 0.4:
            # the documented n_samples argument: "this many of the samples of this sequence" (which holds a few more)
            Xin = Xin + [(row + 3.0 * unit).copy() for row in X[: int(rng.integers(1, 4))]]
            nkw = {"n_samples": n}
        models[sparse] = GMRFVectorModel(Xin, graph, mode=mode, n_components=trunc, dtype=dtype, sparse=sparse, bias=bias, **nkw)
    try:
        Qs, Qd = gmrfmon.dense(models[True].precision), gmrfmon.dense(models[False].precision)
    except Exception:
        ctx.count_case((gkind, V, "malformed"), nontrivial=False)
        return      # already reported by the construction monitor
    nrm = max(1e-300, float(np.abs(Qd).max()))
    e = float(np.abs(Qs - Qd).max())
    ctx.err("sparse_vs_dense", e / nrm)
    ctx.tap("sparse_vs_dense", "calls"); ctx.tap("sparse_vs_dense", "checked")
    iso = bool(graph.n_edges and graph.has_isolated_vertices())
    if Qs.shape != Qd.shape or not (e <= (1e-9 if dtype == np.float64 else 1e-5) * nrm):
        ctx.fail("sparse_and_dense_precision_differ", cls="GMRFVectorModel", mech="%s:%s" % (gkind, "isolated_vertices" if iso else "no_isolated"), rel_err=e / nrm)
    # distances: zero at the mean, non-negative, single == batch, sparse == dense
    q = X[:7] + rng.normal(scale=0.5 * unit, size=(7, X.shape[1]))
    ds = {}
    for sparse, m in models.items():
        d0 = m.mahalanobis_distance(np.asarray(m.mean_vector, dtype=float).copy())
        if abs(float(d0)) > 1e-6 * max(1.0, nrm):
            ctx.fail("distance_at_the_mean_is_not_zero", cls="GMRFVectorModel", mech="sparse" if sparse else "dense", got=float(d0))
        batch = np.asarray(m.mahalanobis_distance(q), dtype=float)
        single = np.array([float(m.mahalanobis_distance(row)) for row in q])
        if batch.shape != single.shape or _amax(batch - single) > 1e-6 * max(1.0, np.abs(batch).max()):
            ctx.fail("batched_and_single_distances_differ", cls="GMRFVectorModel", mech="sparse" if sparse else "dense")
        root = np.asarray(m.mahalanobis_distance(q, square_root=True), dtype=float)
        ok = batch >= 0
        if _amax(root[ok] ** 2 - batch[ok]) > 1e-6 * max(1.0, np.abs(batch).max()):
            ctx.fail("square_root_distance_inconsistent", cls="GMRFVectorModel")
        # ... the same with the documented square root, for one query given alone (a vector, a one-row matrix) as for the batch
        r1 = np.array([float(m.mahalanobis_distance(row, square_root=True)) for row in q[:3]])
        r2 = np.array([float(np.asarray(m.mahalanobis_distance(row[None, :].copy(), square_root=True)).ravel()[0]) for row in q[:3]])
        ctx.tap("square_root_single_vs_batch", "calls"); ctx.tap("square_root_single_vs_batch", "checked")
        if _amax(r1 - root[:3]) > 1e-6 * max(1.0, np.abs(root).max()) or _amax(r2 - root[:3]) > 1e-6 * max(1.0, np.abs(root).max()):
            ctx.fail("batched_and_single_distances_differ", cls="GMRFVectorModel", mech=("sparse" if sparse else "dense") + ":square_root")
        ds[sparse] = batch
    if _amax(ds[True] - ds[False]) > (1e-8 if dtype == np.float64 else 1e-3) * max(1.0, np.abs(ds[False]).max()):
        ctx.fail("sparse_and_dense_distances_differ", cls="GMRFVectorModel", mech=gkind)
    if i % 23 == 5:
        # a large batch of queries (several hundred, not a round number): every entry is the single-query distance
        nq = int(rng.integers(513, 1400))
        Q = X[rng.integers(0, len(X), nq)] + rng.normal(scale=0.5 * unit, size=(nq, X.shape[1]))
        big = {sp_: np.asarray(m_.mahalanobis_distance(Q), dtype=float) for sp_, m_ in models.items()}
        ctx.tap("large_query_batches", "calls"); ctx.tap("large_query_batches", "checked")
        tail = np.array([float(models[True].mahalanobis_distance(row)) for row in Q[-5:]])
        if big[True].shape != (nq,) or _amax(big[True] - big[False]) > (1e-8 if dtype == np.float64 else 1e-3) * max(1.0, np.abs(big[False]).max()) \
                or _amax(big[True][-5:] - tail) > 1e-6 * max(1.0, np.abs(tail).max()):
            ctx.fail("batched_and_single_distances_differ", cls="GMRFVectorModel", mech="large_batch_sparse_vs_dense_or_single", n_queries=nq)
    # a model that keeps learning is still "the" model of everything it has seen: unequal batches, judged by the increment tap
    if i % 3 == 0:
        vm = GMRFVectorModel(X.copy(), graph, mode=mode, n_components=trunc, dtype=dtype, sparse=bool(i % 2), bias=bias, incremental=True)
        seen = X
        for _k in range(int(rng.integers(1, 4))):
            more = gmrfmon.make_data(rng, int(rng.integers(1, 9)) + (0 if _k else 3), V, k) * unit
            if rng.random() < 0.4:
                import io, contextlib
                with contextlib.redirect_stdout(io.StringIO()):
                    vm.increment(more.copy(), verbose=True)        # the progress flag changes what is printed, nothing else
            else:
                vm.increment(more.copy())
            seen = np.vstack([seen, more])
            ctx.tap("vector_model_increment", "calls"); ctx.tap("vector_model_increment", "checked")
            if vm.n_samples != len(seen) or _amax(np.asarray(vm.mean_vector, dtype=float) - seen.mean(0)) > (1e-9 if dtype == np.float64 else 1e-4) * max(unit, float(np.abs(seen).max())):
                ctx.fail("model_mean_is_not_the_sample_mean", cls="GMRFVectorModel", mech="after_increment:" + ("sample_count" if vm.n_samples != len(seen) else "mean"))
            d0 = float(vm.mahalanobis_distance(seen.mean(0)))
            if not (abs(d0) <= 1e-5 * max(1.0, nrm)):
                ctx.fail("distance_at_the_mean_is_not_zero", cls="GMRFVectorModel", mech="after_increment", got=d0)
    # a model that was not built to keep learning refuses an increment (documented) - and is afterwards the model it was
    if i % 4 == 1:
        m_ = models[bool(i % 8 == 1)]
        d_before = np.asarray(m_.mahalanobis_distance(q), dtype=float)
        try:
            m_.increment(gmrfmon.make_data(rng, 4, V, k) * unit)
            ctx.fail("increment_accepted_by_a_model_built_without_incremental", cls="GMRFVectorModel")
        except ValueError:
            pass
        ctx.tap("refused_increment_leaves_the_model_alone", "calls"); ctx.tap("refused_increment_leaves_the_model_alone", "checked")
        try:
            d_after = np.asarray(m_.mahalanobis_distance(q), dtype=float)
            if _amax(d_after - d_before) > 0:
                ctx.fail("refused_increment_changed_the_model", cls="GMRFVectorModel", mech="distances")
        except Exception as ex:
            ctx.fail("refused_increment_changed_the_model", cls="GMRFVectorModel", mech="query_raises_" + type(ex).__name__)
    # the PCA of the model has orthonormal components (only meaningful for a positive definite precision)
    if not iso and trunc is None and dtype == np.float64 and rng.random() < 0.3:
        try:
            pm = models[False].principal_components_analysis()
            g = pm.components @ pm.components.T
            if _amax(g - np.eye(len(g))) > 1e-6:
                ctx.fail("pca_of_the_gmrf_is_not_orthonormal", cls="GMRFVectorModel")
        except Exception as ex:
            ctx.bump("pca_of_gmrf_raised:" + type(ex).__name__)
    # object-backed model agrees with the vector model
    if i % 5 == 0 and k in (2, 3) and dtype == np.float64:
        samples = [ms.PointCloud(row.reshape(V, k)) for row in X]
        if variant == "plain" and rng.random() < 0.4:
            # the first annotation of the set was stored as integer pixel positions (an integer-typed point cloud)
            X = X.copy()
            X[0] = np.round(X[0])
            samples[0] = ms.PointCloud(X[0].reshape(V, k).astype(np.int64))
            Qs = gmrfmon.dense(GMRFVectorModel(X.copy(), graph, mode=mode, n_components=trunc, dtype=dtype, sparse=True, bias=bias).precision)
            nrm = max(1e-300, float(np.abs(Qs).max()))
        om = GMRFModel(samples, graph, mode=mode, n_components=trunc, sparse=True, bias=bias)
        if _amax(gmrfmon.dense(om.precision) - Qs) > 1e-9 * nrm:
            ctx.fail("object_backed_model_differs_from_vector_model", cls="GMRFModel")
        om.mahalanobis_distance(samples[0]); om.mahalanobis_distance(samples[:3])
        # the object-level mean is the sample mean - also after the model has been fed more data
        im = GMRFModel(samples, graph, mode=mode, n_components=trunc, sparse=bool(i % 2), bias=bias, incremental=True)
        fed = X
        for step in range(int(rng.integers(1, 3))):
            mv = im.mean().as_vector()
            ctx.tap("object_mean_is_sample_mean", "calls"); ctx.tap("object_mean_is_sample_mean", "checked")
            if _amax(mv - fed.mean(0)) > 1e-9 * max(unit, float(np.abs(fed).max())):
                ctx.fail("model_mean_is_not_the_sample_mean", cls="GMRFModel", mech="object_mean:" + ("after_increment" if step else "init"))
            d0 = float(im.mahalanobis_distance(im.mean()))
            if not (abs(d0) <= 1e-6 * max(1.0, nrm)):
                ctx.fail("distance_at_the_mean_is_not_zero", cls="GMRFModel", mech="object_mean:" + ("after_increment" if step else "init"), got=d0)
            more = (gmrfmon.make_data(rng, int(rng.integers(2, 6)), V, k) + rng.normal(size=V * k)) * unit
            if variant == "plain" and rng.random() < 0.4:
                # the new annotations come as whole pixel positions in a compact integer type
                more = np.round((more - more.min()) / max(1e-300, float(np.ptp(more))) * 240.0 + 5.0)
                idt_ = [np.uint8, np.int16, np.uint16][rng.integers(0, 3)]
                im.increment([ms.PointCloud(row.reshape(V, k).astype(idt_)) for row in more])
                ctx.bump("integer_typed_object_increments")
            else:
                im.increment([ms.PointCloud(row.reshape(V, k)) for row in more])
            fed = np.vstack([fed, more])
        mv = im.mean().as_vector()
        if _amax(mv - fed.mean(0)) > 1e-9 * max(unit, float(np.abs(fed).max())):
            ctx.fail("model_mean_is_not_the_sample_mean", cls="GMRFModel", mech="object_mean:after_increment")
    ctx.count_case((gkind, V, int(graph.n_edges), k, mode, bias, np.dtype(dtype).name, "none" if trunc is None else ("below" if trunc < block else "above"), iso, variant),
                   nontrivial=graph.n_edges >= 1 or (V >= 2 and k >= 2),
                   sample={"graph": gkind, "n_vertices": V, "edges": np.asarray(graph.edges).tolist()[:8], "features_per_vertex": k, "mode": mode, "bias": bias,
                           "dtype": np.dtype(dtype).name, "n_components": trunc, "n_samples": n} if i < 6 else None)


def w_small(ctx, rng, i):
    import menpo.shape as ms
    j = i % N_SMALL if ctx.tier == "thorough" else (i * 7) % N_SMALL
    V, edges = small_graph(j)
    e = [edges[t] for t in rng.permutation(len(edges))] if edges else []
    g = ms.UndirectedGraph(gen.adjacency(V, e, True))
    run_case(ctx, rng, g, "small_undirected", i)


def w_random(ctx, rng, i):
    kind = ["random", "chain", "cycle", "tree", "directed", "edgeless", "stored_zeros"][i % 7]
    V = int(rng.integers(2, 13))
    g = gmrfmon.make_graph(rng, V, kind)
    run_case(ctx, rng, g, kind, i // 6 + i)


WORKLOADS = [Workload("small_graphs", w_small, quick=700, thorough=N_SMALL * 4), Workload("random_graphs", w_random, quick=1400, thorough=25000)]
