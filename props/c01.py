"""C01  Image geometry ops keep landmarks and mask registered to pixel content.

Workload: coordinate images - the first n_dims channels of the test image hold the pixel coordinates themselves
(+100), further channels random affine functionals of them - so every pixel of a result image carries the source
coordinate it was sampled from.  Decoding the result at a returned landmark must give the original landmark;
the returned transform must agree with the decoded coordinates; the mask (a half-plane) must be carried by the
same map.  Monitor: taps on the warp_to_shape / warp_to_mask funnel of the three image classes judge every warp
(also the internal ones) for landmark registration against the transform that was actually used.
"""
import inspect

import numpy as np

from vf.tx import amax as _amax

from vf.core import Workload
from vf import taps, gen, tx
from vf.digest import digest

ID = "C01"
TECHNIQUE = "runtime monitoring: funnel taps on warp_to_shape/warp_to_mask + coordinate-image oracle (pixels carry their source coordinates) over generated ops and parameters"
LEVEL_TEXT = ("Every re-framing/resampling op (crop family, rescale/resize family, zoom, rotate, mirror, transform about centre, warp to shape/mask with affine, chained, PWA and TPS "
              "warps, pyramids) on Image / MaskedImage / BooleanImage, 2D and 3D, is judged by decoding source coordinates out of the result pixels at the returned landmarks, by "
              "consistency of the returned transform with pixels and landmarks, and by the half-plane mask; every underlying warp is judged at the funnel; held-on-what-was-observed")
LEVEL_NOTE = "trusted: order-1 interpolation of an affine function is exact in the interior (judged only where the 2^d neighbours decode strictly inside the source); tolerance 1e-6 affine; for PWA/TPS warps exactness is judged through T(L') = L (1e-6) and T(p) = decoded source coordinate of pixel p, the bilinear decode keeps a 0.5 / 1.5 px sanity bound"
DESIGN_REF = "DESIGN.md section 7, C01"
RULE = ("op x parameters (scales 0.3-3 scalar/per-axis, 3 rounding modes, any angle, retain_shape on/off, integer/fractional crop bounds, well-conditioned affines, PWA/TPS) x image class x "
        "dims x channels (1-4) x dtype x landmark classes, each with and without return_transform; non-trivial = the op changes the frame or resamples and >=3 landmarks could be judged; "
        "distinct = (image class, dims, dtype, op, option tuple, landmark class)")
ASSUMPTIONS = ["landmarks whose interpolation neighbourhood in the result touches pixels sampled outside the source are not judged",
               "BooleanImage carries no grey levels: it is judged through the returned transform (itself tied to the landmarks) and a half-plane content",
               "integer dtypes are used with the order-0 ops (crop family, mirror) where decoding is exact"]
DECIDING_TAPS = ["warp_funnel", "decode_at_landmarks"]
REPLAY_PATHS = ['menpo/image/test']      # suite replay (thorough tier): the repository's own tests under these monitors
SHARDS = {"quick": 8, "thorough": 16}
OFF = 100.0


# ----------------------------------------------------------------------------------- funnel monitor
class WarpMonitor(taps.Monitor):
    name = "warp_funnel"

    def __init__(self, owner, method, sig):
        self.owner, self.method, self.sig = owner, method, sig

    def pre(self, ctx, args, kw):
        im = args[0]
        if not taps.is_menpo(im):
            return None
        try:
            ba = self.sig.bind(*args, **kw)
            ba.apply_defaults()
        except TypeError:
            return None
        a = ba.arguments
        t = a["transform"]
        if not taps.is_menpo(t):
            return None
        outer = next(c for c in type(im).__mro__ if self.method in c.__dict__) is self.owner
        lms = {}
        if im.has_landmarks:
            lms = {k: (type(v), v.points.copy()) for k, v in im.landmarks.items()}
        return {"warp_landmarks": bool(a["warp_landmarks"]), "rt": bool(a["return_transform"]), "t": t, "outer": outer, "lms": lms,
                "d": digest(im), "template": a.get("template_shape", None)}

    def post(self, ctx, st, args, kw, res, exc):
        import menpo.transform as mt
        from menpo.transform.piecewiseaffine.base import AbstractPWA
        im = args[0]
        cls = type(im).__name__
        t = st["t"]
        tk = type(t).__name__
        if exc is not None:
            return          # whether the refusal is legitimate is the workload's business
        if digest(im) != st["d"]:
            ctx.fail("warp_modified_the_image", cls=cls, mech=self.method)
        ret_t = None
        if st["rt"]:
            try:
                res, ret_t = res
            except Exception:
                ctx.fail("return_transform_did_not_return_a_pair", cls=cls, mech=self.method)
                return
            if ret_t is not t:
                x = tx.probe(np.random.default_rng(2), im.n_dims, 5, box=4.0) + 5
                try:
                    same = tx.maxdiff(ret_t.apply(x), t.apply(x)) < 1e-9
                except Exception:
                    same = False
                if not same:
                    ctx.fail("returned_transform_is_not_the_one_used", cls=cls, mech=self.method)
        if st["outer"] and self.method == "warp_to_shape" and type(res) is not type(im):
            ctx.fail("warp_changed_the_image_class", cls=cls, mech=self.method, got=type(res).__name__)
        if st["template"] is not None and tuple(res.shape) != tuple(int(v) for v in st["template"]):
            ctx.fail("warped_image_has_the_wrong_shape", cls=cls, mech=self.method)
        if not st["warp_landmarks"] or not st["lms"]:
            return
        got = {k: v for k, v in res.landmarks.items()} if res.has_landmarks else {}
        if list(got) != list(st["lms"]):
            ctx.fail("warp_lost_landmark_groups", cls=cls, mech=self.method + ":" + ("outer" if st["outer"] else "inner"),
                     before=list(st["lms"]), after=list(got))
            return
        exact = isinstance(t, mt.Homogeneous) or (isinstance(t, AbstractPWA))
        for k, (c, p) in st["lms"].items():
            g = got[k]
            if type(g) is not c:
                ctx.fail("warp_changed_a_landmark_class", cls=cls, mech=c.__name__)
                continue
            if not exact:
                continue
            try:
                back = np.asarray(t.apply(g.points.copy()))
            except Exception:
                continue    # landmarks left the warp's domain
            e = tx.maxdiff(back, p)
            ctx.err("funnel_landmark_registration", e)
            if not (e <= 1e-6 * max(1.0, float(np.abs(p).max()))):
                ctx.fail("warped_landmarks_are_not_registered_to_the_warp", cls=cls, mech=self.method + ":" + tk, err=e, group=k)


def setup(ctx):
    for m, c in (("menpo.image.base", "Image"), ("menpo.image.masked", "MaskedImage"), ("menpo.image.boolean", "BooleanImage")):
        owner = getattr(taps.mod(m), c)
        for meth in ("warp_to_shape", "warp_to_mask"):
            if meth in owner.__dict__:
                sig = inspect.signature(owner.__dict__[meth])
                taps.tap(ctx, owner, meth, WarpMonitor(owner, meth, sig))


# ----------------------------------------------------------------------------------- coordinate images
def make_image(rng, cls, shp, n_extra, dtype):
    """(image, W, b, half-plane) - channels 0..d-1 = coordinates + OFF, then n_extra random affine channels."""
    import menpo.image as mi
    d = len(shp)
    grids = np.stack(np.meshgrid(*[np.arange(s) for s in shp], indexing="ij"), 0).astype(float)
    W = rng.uniform(-1.5, 1.5, (n_extra, d))
    b = rng.uniform(-3, 3, n_extra)
    px = np.concatenate([grids + OFF, np.einsum("cd,d...->c...", W, grids) + b.reshape((-1,) + (1,) * d)], 0)
    if np.issubdtype(np.dtype(dtype), np.integer):
        px = px[:d]
        W, b = W[:0], b[:0]
    px = px.astype(dtype)
    n = rng.normal(size=d)
    n /= np.linalg.norm(n)
    c = np.array(shp) / 2.0 + rng.uniform(-1, 1, d)
    half = (n, float(n @ c))
    mask = (np.einsum("d,d...->...", n, grids) > half[1])
    if cls == "Image":
        return mi.Image(px), W, b, half
    if cls == "MaskedImage":
        if rng.random() < 0.3:
            mask = np.ones_like(mask)          # what as_masked() / MaskedImage(pixels) give: everything valid
            half = (n, -1e9)
        return mi.MaskedImage(px, mask=mask), W, b, half
    return mi.BooleanImage(mask), W, b, half


def add_landmarks(rng, im, region=None, classes=("PointCloud", "PointUndirectedGraph", "TriMesh", "LabelledPointUndirectedGraph"), n_groups=None):
    d = im.n_dims
    shp = np.array(im.shape, dtype=float)
    lo, hi = (np.full(d, 1.5), shp - 2.5) if region is None else region
    names = []
    for g in range(n_groups if n_groups is not None else int(rng.integers(1, 3))):
        cls = classes[rng.integers(0, len(classes))]
        n = int(rng.integers(4, 9))
        s = gen.shape(rng, cls, d=d, n=n)
        s.points = rng.uniform(lo, np.maximum(hi, lo + 0.5), (n, d))
        if rng.random() < 0.12 and cls == "PointCloud" and np.ptp(np.round(s.points), axis=0).min() >= 2:
            # (rounded onto one row / column the group would have no extent: cropping to it is refused, rightly)
            # annotations stored as integer pixel positions (an integer-typed point cloud): moved like any other
            import menpo.shape as ms
            s = ms.PointCloud(np.round(s.points).astype(np.int64))
        if rng.random() < 0.15:
            # an annotation that carries marked sub-points of its own (an outline with a few named corners)
            import menpo.shape as ms
            s.landmarks["sub"] = ms.PointCloud(rng.uniform(lo, np.maximum(hi, lo + 0.5), (int(rng.integers(3, 6)), d)))
            cls = cls + "+sub"
        im.landmarks["g%d" % g] = s
        names.append(cls)
    return names


def flat_groups(im):
    """name -> shape for every landmark group of the image, and every landmark group those groups carry themselves."""
    out = {}
    if not im.has_landmarks:
        return out

    def walk(prefix, lm, depth):
        for k, v in lm.items():
            out[prefix + str(k)] = v
            if depth < 3 and v.has_landmarks:
                walk(prefix + str(k) + "/", v.landmarks, depth + 1)
    walk("", im.landmarks, 0)
    return out


def decode(res, d):
    return np.asarray(res.pixels[:d], dtype=float) - OFF


def judge(ctx, src, res, T, W, b, half, op, opts, tol, smooth=False, margin=0.0, rmargin=0, only=None, mask_band=1.01, Tknown=None, ltol=None):
    """All oracles for one (source, result[, returned transform]) pair.  Returns number of judged landmarks."""
    import menpo.image as mi
    cls = type(src).__name__
    d = src.n_dims
    shp = np.array(src.shape, dtype=float)
    rshape = np.array(res.shape)
    mech = op
    judged = 0
    if T is None and Tknown is not None:
        T = Tknown          # direct warps: the transform that was handed in is the one to be consistent with
    exp_cls = type(src)
    if op == "warp_to_mask_affine" and cls == "Image":
        exp_cls = mi.MaskedImage          # documented: warping a plain image to a mask gives a masked image
    if type(res) is not exp_cls:
        ctx.fail("op_changed_the_image_class", cls=cls, mech=op, got=type(res).__name__)
        return 0
    src_g, res_g = flat_groups(src), flat_groups(res)
    src_l = {k: v.points for k, v in src_g.items()}
    res_l = {k: v.points for k, v in res_g.items()}
    if list(src_l) != list(res_l):
        ctx.fail("op_lost_landmark_groups", cls=cls, mech=op, before=list(src_l), after=list(res_l))
        return 0
    for k in src_l:
        if type(src_g[k]) is not type(res_g[k]) or src_l[k].shape != res_l[k].shape:
            ctx.fail("op_changed_a_landmark_group", cls=cls, mech=op)
            return 0
    if cls != "BooleanImage":
        S = decode(res, d)
        fres = mi.Image(np.asarray(res.pixels[:d], dtype=float))     # integer images: interpolate in floating point
        lo_ok = margin + 0.01
        valid = np.ones(res.shape, dtype=bool)
        for k in range(d):
            valid &= (S[k] > lo_ok) & (S[k] < shp[k] - 1 - lo_ok)
            if rmargin:
                # (pyramids) data sampled beyond the border of one level contaminates a band of the next one
                ax = np.arange(res.shape[k]).reshape([-1 if a == k else 1 for a in range(d)])
                valid &= (ax >= rmargin) & (ax <= res.shape[k] - 1 - rmargin)
        # ---- (a) decoding the result at the returned landmarks gives the original landmarks
        for g in src_l:
            L, Lp = src_l[g], res_l[g]
            for j in range(len(L)):
                q = Lp[j]
                if (q < 0).any() or (q > rshape - 1).any():
                    continue
                f, c = np.floor(q).astype(int), np.minimum(np.ceil(q).astype(int), rshape - 1)
                nb = valid[tuple(slice(a, bb + 1) for a, bb in zip(f, c))]
                if not nb.all():
                    continue
                v = np.asarray(fres.sample(q[None], order=1), dtype=float)[:d, 0] - OFF
                e = float(np.abs(v - L[j]).max())
                judged += 1
                ctx.err("decode_at_landmark:" + ("smooth" if smooth else "affine"), e)
                if not (e <= tol):
                    ctx.fail("pixel_under_returned_landmark_is_not_the_pixel_under_the_original_landmark", cls=cls, mech=mech, err=e,
                             original=L[j], returned=q, decoded=v, options=opts)
                    break
        ctx.tap("decode_at_landmarks", "calls")
        if judged:
            ctx.tap("decode_at_landmarks", "checked")
        idx = np.argwhere(valid)
        if len(idx) > 150:
            idx = idx[np.random.default_rng(1).choice(len(idx), 150, replace=False)]
        # ---- (c) the other channels are consistent with the decoded coordinates (no channel mix-up)
        if len(W) and len(idx):
            Sv = S[(slice(None),) + tuple(idx.T)]
            for ch in range(len(W)):
                exp = W[ch] @ Sv + b[ch]
                got = np.asarray(res.pixels[d + ch], dtype=float)[tuple(idx.T)]
                if _amax(got - exp) > max(tol, 1e-6) * 10:
                    ctx.fail("channels_of_the_result_disagree_about_where_they_were_sampled", cls=cls, mech=mech, channel=ch)
                    break
        # ---- (b) the returned transform maps result coordinates to source coordinates
        if T is not None and len(idx):
            try:
                Tp = np.asarray(T.apply(idx.astype(float)))
                e = float(np.abs(Tp.T - S[(slice(None),) + tuple(idx.T)]).max())
                ctx.err("returned_transform_vs_pixels", e)
                if not (e <= max(tol, 1e-6)):
                    ctx.fail("returned_transform_disagrees_with_the_pixels", cls=cls, mech=mech, err=e, options=opts)
            except Exception as ex:
                if not smooth:
                    ctx.fail("returned_transform_cannot_be_applied_to_result_coordinates", cls=cls, mech=mech + ":" + type(ex).__name__)
        # ---- (d) the mask is carried by the same map
        if isinstance(src, mi.MaskedImage) and isinstance(res, mi.MaskedImage) and op != "warp_to_mask_affine" and len(idx):
            n, t0 = half
            sd = n @ S[(slice(None),) + tuple(idx.T)] - t0
            m = np.asarray(res.mask.pixels[0])[tuple(idx.T)]
            bad = (m & (sd < -mask_band)) | (~m & (sd > mask_band))
            ctx.tap("mask_registration", "calls"); ctx.tap("mask_registration", "checked")
            if bad.any():
                ctx.fail("mask_is_not_carried_by_the_same_map_as_the_pixels", cls=cls, mech=mech, n_bad=int(bad.sum()), options=opts)
        if isinstance(src, mi.MaskedImage) and isinstance(res, mi.MaskedImage) and op != "warp_to_mask_affine":
            # result pixels filled with the constant (they decode to -OFF) were sampled outside the source: not valid data
            filled = np.ones(res.shape, dtype=bool)
            for k in range(d):
                filled &= np.abs(S[k] + OFF) < 1e-9
            if filled.any() and np.asarray(res.mask.pixels[0])[filled].any():
                ctx.fail("pixels_sampled_outside_the_source_are_flagged_valid_by_the_mask", cls=cls, mech=mech + (":all_true_source_mask" if src.mask.all_true() else ""),
                         n_bad=int(np.asarray(res.mask.pixels[0])[filled].sum()), options=opts)
    else:
        # BooleanImage: through the returned transform, itself tied to the landmarks
        if T is not None:
            n, t0 = half
            idx = np.argwhere(np.ones(res.shape, dtype=bool) if only is None else only).astype(float)
            if len(idx) > 300:
                idx = idx[np.random.default_rng(1).choice(len(idx), 300, replace=False)]
            try:
                q = np.asarray(T.apply(idx))
            except Exception:
                q = None
            if q is not None:
                inside = ((q > 0.5) & (q < shp - 1.5)).all(axis=1)
                sd = q @ n - t0
                m = np.asarray(res.pixels[0])[tuple(idx.astype(int).T)]
                bad = inside & ((m & (sd < -1.01)) | (~m & (sd > 1.01)))
                if bad.any():
                    ctx.fail("boolean_content_is_not_where_the_returned_transform_says", cls=cls, mech=mech, n_bad=int(bad.sum()))
    if T is not None:
        for g in src_l:
            try:
                back = np.asarray(T.apply(res_l[g].copy()))
            except Exception:
                continue
            ok = smooth and not getattr(T, "has_true_inverse", True) and Tknown is None
            e = tx.maxdiff(back, src_l[g])
            ctx.err("returned_transform_vs_landmarks", e)
            if cls == "BooleanImage":
                judged += len(back)
                ctx.tap("decode_at_landmarks", "calls"); ctx.tap("decode_at_landmarks", "checked")
            if not (e <= max(tol if ltol is None else ltol, 1e-6)) and not ok:
                ctx.fail("returned_transform_does_not_map_result_landmarks_to_source_landmarks", cls=cls, mech=mech, err=e, options=opts)
    return judged


def scribble(rng, shape):
    """A caller asks for the pixel index grid of an image of this shape and edits the array it got (adds an offset, reverses it):
    the array is the caller's - no later operation may be affected."""
    import menpo.image as mi
    if rng.random() < 0.25:
        try:
            for im in (mi.Image(np.zeros((1,) + tuple(shape))), mi.MaskedImage(np.zeros((1,) + tuple(shape)))):
                g = im.indices()
                g += 3
                g[...] = g[::-1]
        except Exception:
            pass


def call(fn, rt, *a, **k):
    """Call op with return_transform on/off; returns (result, transform or None)."""
    if rt:
        r = fn(*a, return_transform=True, **k)
        return r[0], r[1]
    return fn(*a, **k), None


OPS_ND = ["crop", "crop_to_landmarks", "crop_to_landmarks_proportion", "crop_to_pointcloud", "rescale", "rescale_per_axis", "resize", "mirror", "warp_affine", "warp_alignment",
          "rescale_to_diagonal", "zoom", "pyramid", "warp_to_mask_affine", "rescale_to_pointcloud"]
OPS_2D = OPS_ND + ["rotate", "transform_about_centre", "rescale_landmarks_to_diagonal_range", "gaussian_pyramid", "warp_chain", "warp_pwa", "warp_tps",
                   "crop_to_true_mask", "crop_to_pointcloud_proportion", "rotate_retain"]


def w_ops(ctx, rng, i):
    import menpo.transform as mt
    import menpo.shape as ms
    import menpo.image as mi
    from menpo.image.base import ImageBoundaryError
    cls = ["Image", "MaskedImage", "BooleanImage"][i % 3]
    d = 2 if (i // 3) % 4 else 3
    ops = OPS_2D if d == 2 else OPS_ND
    op = ops[(i // 12) % len(ops)]
    integer_ok = op in ("crop", "crop_to_landmarks", "crop_to_landmarks_proportion", "crop_to_pointcloud", "crop_to_true_mask", "crop_to_pointcloud_proportion")
    dtype = np.float64
    r = rng.random()
    if integer_ok and r < 0.4:
        dtype = [np.int32, np.uint16, np.uint8][rng.integers(0, 3)]
    elif r < 0.15:
        dtype = np.float32
    base = 30 if d == 2 else 13
    if op in ("pyramid", "gaussian_pyramid"):
        base = 60 if d == 2 else 26
    many_ctrl = op == "warp_tps" and (i // 360) % 3 == 1
    if many_ctrl:
        base = 90
    shp = tuple(int(v) for v in rng.integers(base - 8, base + 12, d))
    src, W, b, half = make_image(rng, cls, shp, int(rng.integers(0, 5 - d)) if d == 2 else int(rng.integers(0, 2)), dtype)
    scribble(rng, shp)
    tol = 1e-6 if dtype != np.float32 else 2e-3
    rt = bool(rng.random() < 0.5)
    lmc = []
    opts = {}
    smooth = False
    margin = 0.0
    rmargin = 0
    only = None
    S = np.array(shp, dtype=float)
    results = []      # (result, transform)
    # ------------------------------------------------------------------ run the op
    if op.startswith("crop"):
        lo = np.array([rng.integers(0, s // 3) for s in shp], dtype=float)
        hi = np.array([rng.integers(2 * s // 3, s) for s in shp], dtype=float)
        lmc = add_landmarks(rng, src, region=(lo + 1.0, hi - 2.0))
        if op == "crop":
            frac = rng.random() < 0.5
            mn, mx = (lo + rng.uniform(0, 0.9, d), hi - rng.uniform(0, 0.9, d)) if frac else (lo, hi)
            cons = bool(rng.random() < 0.5)
            if rng.random() < 0.3:
                mn = mn.copy(); mn[rng.integers(0, d)] = -2.5; cons = True
            opts = {"fractional": bool(frac), "constrain": cons}
            results.append(call(src.crop, rt, mn, mx, constrain_to_boundary=cons))
        elif op == "crop_to_landmarks":
            bd = float(rng.integers(0, 4)) + (0.5 if rng.random() < 0.3 else 0)
            opts = {"boundary": bd}
            results.append(call(src.crop_to_landmarks, rt, group="g0", boundary=bd))
        elif op == "crop_to_landmarks_proportion":
            p = float(rng.uniform(0, 0.4)); mnm = bool(rng.random() < 0.5)
            opts = {"proportion": round(p, 2), "minimum": mnm}
            results.append(call(src.crop_to_landmarks_proportion, rt, p, group="g0", minimum=mnm))
        elif op == "crop_to_pointcloud":
            pc = ms.PointCloud(np.vstack([lo + 0.3, hi - 0.3, (lo + hi) / 2]))
            bd = float(rng.integers(0, 3))
            opts = {"boundary": bd}
            results.append(call(src.crop_to_pointcloud, rt, pc, boundary=bd))
        elif op == "crop_to_pointcloud_proportion":
            pc = ms.PointCloud(np.vstack([lo + 0.3, hi - 0.3, (lo + hi) / 2]))
            results.append(call(src.crop_to_pointcloud_proportion, rt, pc, float(rng.uniform(0, 0.3)), minimum=bool(rng.random() < 0.5)))
        else:  # crop_to_true_mask
            if cls != "MaskedImage":
                ctx.count_case((cls, d, "crop_to_true_mask", "n/a"), nontrivial=False)
                return
            bd = int(rng.integers(0, 3))
            opts = {"boundary": bd}
            results.append(call(src.crop_to_true_mask, rt, boundary=bd))
    elif op in ("rescale", "rescale_per_axis", "resize", "rescale_to_diagonal", "rescale_to_pointcloud", "rescale_landmarks_to_diagonal_range", "pyramid", "gaussian_pyramid", "zoom"):
        lmc = add_landmarks(rng, src, region=(S * 0.3, S * 0.7) if op in ("gaussian_pyramid", "pyramid") else None)
        rnd = ["ceil", "floor", "round"][rng.integers(0, 3)]
        # the documented spline order of the resampling (coordinate images are ramps: every order reproduces them away from
        # the border, where the higher-order filters ring a little)
        so = int([1, 1, 2, 3][rng.integers(0, 4)]) if (op in ("rescale", "rescale_per_axis", "resize", "zoom") and dtype == np.float64 and cls != "BooleanImage") else 1
        okw = {} if so == 1 else {"order": so}
        if so > 1:
            tol, margin = 0.05, 4.0
        if op == "rescale" and so == 1 and dtype == np.float64 and cls != "BooleanImage" and rng.random() < 0.3:
            # nearest-neighbour resampling by the reciprocal of a whole number (whole or per axis): every result pixel is a copy
            # of the source pixel nearest to where the returned transform puts it - half a source pixel at most
            ks = [int(v) for v in rng.integers(1, 5, d)]
            if rng.random() < 0.5:
                ks = [max(ks[0], 2)] * d
            s = 1.0 / ks[0] if len(set(ks)) == 1 and rng.random() < 0.7 else tuple(1.0 / k for k in ks)
            opts = {"reciprocal": max(ks), "per_axis": isinstance(s, tuple), "round": rnd, "order": 0}
            tol = 0.5 + 1e-6
            results.append(call(src.rescale, rt, s, round=rnd, order=0))
        elif op == "rescale":
            s = float(rng.uniform(0.3, 3.0))
            opts = {"scale": round(s, 2), "round": rnd, "order": so}
            results.append(call(src.rescale, rt, s, round=rnd, **okw))
        elif op == "rescale_per_axis":
            s = rng.uniform(0.4, 2.5, d)
            opts = {"round": rnd, "per_axis": True, "order": so}
            results.append(call(src.rescale, rt, s if rng.random() < 0.5 else list(s), round=rnd, **okw))
        elif op == "resize":
            ns = tuple(int(v) for v in rng.integers(max(4, base // 2), base + 15, d))
            scribble(rng, ns)
            opts = {"shape_changes": [int(a != b_) for a, b_ in zip(ns, shp)], "order": so}
            results.append(call(src.resize, rt, ns, **okw))
        elif op == "rescale_to_diagonal":
            dg = float(src.diagonal() * rng.uniform(0.4, 2.2))
            opts = {"round": rnd}
            results.append(call(src.rescale_to_diagonal, rt, dg, round=rnd))
        elif op == "rescale_to_pointcloud":
            ref_pc = ms.PointCloud(src.landmarks["g0"].points * float(rng.uniform(0.5, 2.0)) + 3.0)
            opts = {"round": rnd}
            results.append(call(src.rescale_to_pointcloud, rt, ref_pc, group="g0", round=rnd))
        elif op == "rescale_landmarks_to_diagonal_range":
            rngd = float(np.sqrt((src.landmarks["g0"].range() ** 2).sum()) * rng.uniform(0.5, 2.0))
            opts = {"round": rnd}
            results.append(call(src.rescale_landmarks_to_diagonal_range, rt, rngd, group="g0", round=rnd))
        elif op == "zoom":
            z = float(rng.uniform(0.5, 2.5))
            opts = {"zoom_in": z > 1, "order": so}
            results.append(call(src.zoom, rt, z, **okw))
        else:
            nl = int(rng.integers(2, 4 if d == 2 else 3))
            ds = float(rng.uniform(1.3, 2.0))
            rmargin = 3
            opts = {"levels": nl, "downscale": ds}
            if op == "pyramid":
                levels = list(src.pyramid(n_levels=nl, downscale=ds))
            else:
                if cls == "BooleanImage":
                    ctx.count_case((cls, d, op, "n/a"), nontrivial=False)
                    return
                levels = list(src.gaussian_pyramid(n_levels=nl, downscale=ds))
                rmargin = 7
                tol = max(tol, 0.02)     # the Gaussian tails reach the border data everywhere, faintly
            if len(levels) != nl:
                ctx.fail("pyramid_has_the_wrong_number_of_levels", cls=cls, mech=op)
            results = [(lv, None) for lv in levels[1:]]
            rt = False
    elif op in ("rotate", "rotate_retain"):
        lmc = add_landmarks(rng, src, region=(S * 0.3, S * 0.7))
        th = float(rng.uniform(-360, 360))
        if rng.random() < 0.3:
            th = 90.0 * int(rng.integers(-9, 10))          # right angles, more than one turn and backwards included
        deg = bool(rng.random() < 0.5)
        retain = op == "rotate_retain"
        rnd = ["ceil", "floor", "round"][rng.integers(0, 3)]
        opts = {"degrees": deg, "retain_shape": retain, "round": rnd, "quadrant": int((th % 360) // 90), "right_angle": th % 90 == 0}
        results.append(call(src.rotate_ccw_about_centre, rt, th if deg else float(np.deg2rad(th)), degrees=deg, retain_shape=retain, round=rnd))
    elif op == "mirror":
        lmc = add_landmarks(rng, src)
        ax = int(rng.integers(0, d))
        order = 0 if np.issubdtype(np.dtype(dtype), np.integer) else int(rng.integers(0, 2))
        opts = {"axis": ax, "order": order}
        results.append(call(src.mirror, rt, axis=ax, order=order))
    elif op == "transform_about_centre":
        lmc = add_landmarks(rng, src, region=(S * 0.3, S * 0.7))
        kind = int(rng.integers(0, 4))
        if kind == 0:
            t = mt.Rotation.init_from_2d_ccw_angle(float(rng.uniform(-180, 180)))
        elif kind == 1:
            t = mt.Affine.init_from_2d_shear(float(rng.uniform(-30, 30)), float(rng.uniform(-30, 30)))
        elif kind == 2:
            t = mt.NonUniformScale(rng.uniform(0.5, 2.0, 2))
        else:
            h = np.eye(3); h[:2, :2] = gen.well_conditioned(rng, 2, 0.6, 1.8); t = mt.Affine(h)
        retain = bool(rng.random() < 0.5)
        rnd = ["ceil", "floor", "round"][rng.integers(0, 3)]
        opts = {"transform": ["rotation", "shear", "scale", "affine"][kind], "retain_shape": retain, "round": rnd}
        if rng.random() < 0.4:
            opts["used_before"] = bool(tx.bystander_history(rng, t, 2))
        results.append(call(src.transform_about_centre, rt, t, retain_shape=retain, round=rnd))
    else:
        # direct warps: the transform maps template coordinates to source coordinates
        lmc = add_landmarks(rng, src, region=(S * 0.3, S * 0.7), n_groups=1 if op == "warp_tps" else None)
        if op == "warp_tps":
            # well separated control points: a smooth spline
            for _ in range(200):
                P = rng.uniform(S * 0.25, S * 0.75, (int(rng.integers(4, 7)), 2))
                dd = np.sqrt(((P[:, None] - P[None]) ** 2).sum(-1)) + np.eye(len(P)) * 99
                if dd.min() > 5.0:
                    break
            if many_ctrl:
                # an annotation scheme with dozens of points (a 68-point face): a jittered grid over the middle of the image
                k = int(rng.integers(5, 9))
                gy, gx = np.meshgrid(np.linspace(0.2, 0.8, k), np.linspace(0.2, 0.8, k), indexing="ij")
                P = np.stack([gy.ravel() * S[0], gx.ravel() * S[1]], axis=1) + rng.uniform(-1.0, 1.0, (k * k, 2))
            src.landmarks["g0"] = ms.PointCloud(P)
            lmc = ["PointCloud"]
        tshape = tuple(int(v) for v in rng.integers(base - 10, base + 6, d))
        scribble(rng, tshape)
        if op == "warp_alignment":
            # an alignment fitted to noisy correspondences (non-zero residual): template-side points -> source-side points
            k = int(rng.integers(d + 2, 9))
            A = gen.well_conditioned(rng, d, 0.7, 1.4)
            tp = rng.uniform(0.1, 0.9, (k, d)) * (np.array(tshape) - 1)
            sp = (tp - np.array(tshape) / 2.0) @ A.T + S / 2.0 + rng.normal(scale=0.8, size=(k, d))
            akind = ["AlignmentAffine", "AlignmentSimilarity", "AlignmentTranslation"][rng.integers(0, 3)]
            t = getattr(mt, akind)(ms.PointCloud(tp), ms.PointCloud(sp))
            opts_extra = akind
            if rng.random() < 0.5:
                # the usual way to get such an alignment: its target *is* one of the image's annotations (the fit leaves a residual)
                src.landmarks["fit"] = ms.PointCloud(sp.copy())
                lmc = lmc + ["alignment_target"]
        elif op in ("warp_affine", "warp_to_mask_affine", "warp_chain"):
            h = np.eye(d + 1)
            h[:d, :d] = gen.well_conditioned(rng, d, 0.6, 1.6)
            c_t, c_s = np.array(tshape) / 2.0, S / 2.0
            h[:d, d] = c_s - h[:d, :d] @ c_t + rng.uniform(-1, 1, d)
            t = mt.Affine(h)
            if op == "warp_affine" and rng.random() < 0.3:
                # the same map written as a plain homogeneous matrix in another scaling (k * H stands for the same transform)
                t = mt.Homogeneous(h * [2.0, -1.0, 0.25, 5.0][rng.integers(0, 4)])
            if op == "warp_chain":
                t = mt.TransformChain([mt.Translation(np.zeros(d)), t])
        elif op == "warp_pwa":
            # template-side mesh covering the template frame, source-side mesh a mild deformation inside the source
            g01 = np.array([[0, 0], [0, 1], [1, 0], [1, 1], [0.5, 0.5], [0.5, 0], [0, 0.5], [1, 0.5], [0.5, 1]])
            gx = g01 * (np.array(tshape) + 1) - 1.0      # reaches one pixel beyond the frame
            tgt = g01 * (S - 7) + 3 + rng.normal(scale=0.6, size=gx.shape)
            t = mt.PiecewiseAffine(ms.PointCloud(gx), ms.PointCloud(tgt))
            smooth = True
        else:  # warp_tps: the image's landmarks are the spline's target control points
            Lsrc = src.landmarks["g0"].points
            A = np.eye(2) + rng.uniform(-0.1, 0.1, (2, 2))
            ctrl_t = (Lsrc - S / 2) @ A.T * 0.9 + np.array(tshape) / 2.0 + rng.normal(scale=0.12, size=Lsrc.shape)
            t = mt.ThinPlateSplines(ms.PointCloud(ctrl_t), ms.PointCloud(Lsrc.copy()))
            smooth = True
        if op == "warp_affine" and d == 2 and rng.random() < 0.12:
            # a transform written with integer literals (an integer-typed matrix): "every second row", "skip the first two columns"
            Li = [(2, 1), (1, 2), (2, 2), (3, 1), (1, 3)][rng.integers(0, 5)]
            off = [int(v) for v in rng.integers(1, 4, 2)]
            tshape = tuple(max(4, int((S[k] - 2 - off[k]) // Li[k])) for k in range(2))
            t = mt.Affine(np.array([[Li[0], 0, off[0]], [0, Li[1], off[1]], [0, 0, 1]], dtype=np.int64))
        elif op == "warp_affine" and rng.random() < 0.3:
            # a specialised member (its class promises more than "affine": the landmark side may rely on that)
            c_t, c_s = np.array(tshape) / 2.0, S / 2.0
            sk = int(rng.integers(0, 4))
            if sk == 0:
                t = mt.Translation(c_s - c_t + rng.uniform(-2, 2, d))
            elif sk == 1:
                t = mt.UniformScale(float(rng.uniform(0.7, 1.3)), d)
            elif sk == 2:
                t = mt.NonUniformScale(rng.uniform(0.7, 1.3, d))
            else:
                t = mt.Rotation(gen.rotation_matrix(rng, d)) if d == 3 else mt.Rotation.init_from_2d_ccw_angle(float(rng.uniform(-12, 12)))
        if op == "warp_affine" and type(t).__name__ in ("Translation", "UniformScale", "NonUniformScale", "Rotation") and rng.random() < 0.5:
            # "try to fold the next step in in place, fall back to a new object": a small affine adjustment of another class
            hh = np.eye(d + 1)
            hh[:d, :d] += rng.uniform(-0.06, 0.06, (d, d))
            hh[:d, d] = rng.uniform(-1.5, 1.5, d)
            adj = mt.Affine(hh)
            try:
                t.compose_before_inplace(adj)
            except ValueError:
                t = t.compose_before(adj)
        used = False
        if rng.random() < 0.4 and op in ("warp_affine", "warp_alignment", "warp_tps", "warp_pwa"):
            # the transform object has a past: out-of-place compositions, an inverse taken, a copy made - none of which changes it
            used = bool(tx.bystander_history(rng, t, d))
        if smooth:
            tol = 0.5 if op == "warp_pwa" else 1.5     # smooth warps: bilinear decoding (across mesh kinks / spline curvature) is only a sanity bound; exactness is judged through T(L') = L
        opts = {"transform": type(t).__name__, "used_before": used}
        bsz = [None, None, 7, 150, 5000][rng.integers(0, 5)]      # the documented optional batching of the coordinate transform
        bkw = {} if bsz is None else {"batch_size": bsz}
        opts["batched"] = bsz is not None
        try:
            if op == "warp_to_mask_affine":
                tm = mi.BooleanImage(gen.mask(rng, tshape, ["all", "block", "halfplane"][rng.integers(0, 3)]))
                opts["mask_all_true"] = bool(tm.all_true())
                only = tm.mask.copy()
                tdig = digest(tm)
                res, T = call(src.warp_to_mask, rt, tm, t, warp_landmarks=True, **bkw)
                if digest(tm) != tdig or not np.array_equal(tm.pixels[0], only):
                    # the template is the caller's reference frame, reused for every image of a data set
                    ctx.fail("warp_to_mask_modified_the_template_mask_it_was_given", cls=cls, mech="all_true" if only.all() else "partial")
                if cls == "MaskedImage" and not np.array_equal(res.mask.pixels, tm.pixels):
                    ctx.fail("warp_to_mask_result_does_not_carry_the_template_mask", cls=cls)
                if cls != "BooleanImage" and not tm.all_true():
                    # pixels outside the template mask are not sampled: do not judge them
                    res = res.copy()
                    res.pixels[:, ~tm.mask] = -1e6
                    if cls == "MaskedImage":
                        res.mask.pixels[0][~tm.mask] = (half[0] @ np.zeros(d) - half[1]) > 0
                results.append((res, T))
            elif op == "warp_chain":
                res, T = call(src.warp_to_shape, rt, tshape, t, warp_landmarks=False, **bkw)
                results.append((res, T))
            else:
                results.append(call(src.warp_to_shape, rt, tshape, t, warp_landmarks=True, **bkw))
        except Exception as e:
            from menpo.transform.piecewiseaffine.base import TriangleContainmentError
            if isinstance(e, TriangleContainmentError):
                ctx.count_case((cls, d, op, "outside_pwa_domain"), nontrivial=False)
                return
            raise
        if op == "warp_chain":
            # chains cannot invert: landmarks are not requested; judge pixels + transform only
            src = src.copy()
            for k in list(src.landmarks):
                del src.landmarks[k]
    # ------------------------------------------------------------------ judge
    judged = 0
    Tknown = t if op in ("warp_tps", "warp_pwa", "warp_affine", "warp_alignment") else None
    for lv, (res, T) in enumerate(results):
        # nearest-neighbour mask sampling loses up to half a pixel of each level's own grid
        # (a level's mask is sampled from the level below it: the half pixels of all the grids passed on the way add up,
        # measured in source pixels through the sizes the levels really have)
        band = 1.01
        if op in ("pyramid", "gaussian_pyramid"):
            pxs = [1.0] + [float(np.max((np.array(shp) - 1.0) / (np.array(r.shape) - 1.0))) for r, _ in results]
            band = 0.51 + 0.5 * sum(pxs[:lv + 1])
        # interpolating warps and their reverse fits are exact at / between the control points: the landmark clause keeps a
        # tight bound of its own (the loose `tol` of smooth warps is for decoding pixel values only)
        judged += judge(ctx, src, res, T, W, b, half, op, opts, tol, smooth=smooth, margin=margin, rmargin=rmargin, only=only, mask_band=band, Tknown=Tknown,
                        ltol=1e-5 if op in ("warp_tps", "warp_pwa") else None)
    # the op with and without return_transform gives the same image (spot check)
    ctx.see("ops", (cls, d, op))
    ctx.count_case((cls, d, np.dtype(dtype).name, op, str(sorted(opts.items())), tuple(sorted(set(lmc))), rt),
                   nontrivial=judged >= 3,
                   sample={"cls": cls, "dims": d, "shape": list(shp), "op": op, "options": opts, "return_transform": rt,
                           "landmarks_judged": judged} if i < 10 else None)


def w_reuse(ctx, rng, i):
    """Histories: one alignment-type warp object reused for several images, retargeted in between."""
    import menpo.transform as mt
    import menpo.shape as ms
    cls = ["Image", "MaskedImage"][i % 2]
    kind = ["tps", "pwa", "affine"][(i // 2) % 3]
    shp = tuple(int(v) for v in rng.integers(26, 40, 2))
    S = np.array(shp, dtype=float)
    tshape = tuple(int(v) for v in rng.integers(22, 34, 2))
    TS = np.array(tshape, dtype=float)

    def control_points():
        if kind == "pwa":
            g = np.array([[0, 0], [0, 1], [1, 0], [1, 1], [0.5, 0.5], [0.5, 0], [0, 0.5], [1, 0.5], [0.5, 1]])
            return g * (S - 9) + 4 + rng.normal(scale=0.5, size=g.shape)
        for _ in range(200):
            P = rng.uniform(S * 0.25, S * 0.75, (6, 2))
            dd = np.sqrt(((P[:, None] - P[None]) ** 2).sum(-1)) + np.eye(len(P)) * 99
            if dd.min() > 5.0:
                return P
        return P
    P0 = control_points()
    if kind == "pwa":
        g = np.array([[0, 0], [0, 1], [1, 0], [1, 1], [0.5, 0.5], [0.5, 0], [0, 0.5], [1, 0.5], [0.5, 1]])
        tpl = g * (TS + 1) - 1.0          # the template mesh reaches one pixel beyond the frame: every pixel strictly inside
        t = mt.PiecewiseAffine(ms.PointCloud(tpl), ms.PointCloud(P0))
        tol = 0.5
    elif kind == "tps":
        tpl = (P0 - S / 2) * 0.9 + TS / 2.0
        t = mt.ThinPlateSplines(ms.PointCloud(tpl), ms.PointCloud(P0))
        tol = 1.5
    else:
        tpl = (P0 - S / 2) @ gen.well_conditioned(rng, 2, 0.8, 1.3).T + TS / 2.0
        t = mt.AlignmentAffine(ms.PointCloud(tpl), ms.PointCloud(P0))
        tol = 1e-6
    judged = 0
    n_steps = int(rng.integers(2, 5))
    for step in range(n_steps):
        src, W, b, half = make_image(rng, cls, shp, 1, np.float64)
        # later targets are mild deformations of the first (a smooth, fold-free warp at every step)
        P = P0 if step == 0 else P0 + rng.normal(scale=0.35, size=P0.shape) + rng.uniform(-2, 2, 2)
        if step > 0:
            if kind == "affine":
                # keep it an exact affine relation so that landmarks == control points stay exact
                P = (tpl - TS / 2.0) @ gen.well_conditioned(rng, 2, 0.8, 1.3).T + S / 2.0
            if rng.random() < 0.4 and kind != "affine":
                # the caller refreshes the coordinates of the target object the alignment holds and hands the same object over again
                tobj = t.target
                tobj.points[...] = P
                t.set_target(tobj)
            else:
                t.set_target(ms.PointCloud(P))
        src.landmarks["g0"] = ms.PointCloud(P.copy())
        bsz = [None, None, 11, 400][rng.integers(0, 4)]
        res, T = call(src.warp_to_shape, bool(rng.random() < 0.5), tshape, t, warp_landmarks=True, **({} if bsz is None else {"batch_size": bsz}))
        judged += judge(ctx, src, res, T, W, b, half, "reuse_" + kind, {"step": min(step, 2)}, tol, smooth=(kind != "affine"), Tknown=t, ltol=1e-5)
    ctx.count_case((cls, "reuse", kind, n_steps), nontrivial=judged >= 3, sample={"cls": cls, "kind": kind, "steps": n_steps} if i < 2 else None)


WORKLOADS = [Workload("ops", w_ops, quick=2880, thorough=120000), Workload("reuse", w_reuse, quick=360, thorough=12000)]
