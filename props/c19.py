"""C19  Lazy lists are faithful and truly lazy under every combination of operations.

Workload: random programs over {base | map(f) | map([f..]) | slice | fancy index | repeat | + lazy | + list | copy},
mirrored on ordinary Python lists of expression trees (the reference model).  Base elements and mapped
functions are logging callables owned by the workload, so the evaluation log is the observable.
Monitors: taps on every LazyList method compare the evaluation log at entry and exit (non-reading operations
must not grow it); every element read must log exactly the post-order of the model's expression tree; every
list created so far is re-checked after each operation (same length, same callables) and fully evaluated at the end.
"""
import itertools
import os

import numpy as np

from vf.core import Workload
from vf import taps

ID = "C19"
RULE = ("random programs of 2-10 operations over a pool of lazy lists (bases of length 0-6, built by the three constructors), "
        "mirrored on Python lists of expression trees; a case is non-trivial when it has >=2 operations and reads at least "
        "one element whose expression tree has depth >=2; distinct = distinct (operation-name sequence, base lengths)")
ASSUMPTIONS = ["mapped functions and base callables are pure apart from logging",
               "boolean index arrays and 0-d arrays are outside the quantifier"]
DECIDING_TAPS = ["LazyList.nonreading_ops", "element_read"]
SHARDS = {"quick": 8, "thorough": 16}
TECHNIQUE = "runtime monitoring: evaluation-log taps on LazyList methods + list reference model over random programs"
LEVEL_TEXT = ("Every LazyList operation in tens of thousands of generated programs is monitored against a Python-list model and an "
              "evaluation log; held-on-what-was-observed, which fits a property over unbounded programs that no finite test list states")
LEVEL_NOTE = "trusted: the 40-line list/expression-tree model in props/c19.py; programs are bounded (<=15 ops, bases <=6 elements)"
DESIGN_REF = "DESIGN.md section 7, C19"

LOG = []
_uid = itertools.count()


class Leaf(object):
    def __init__(self):
        self.id = next(_uid)

    def __call__(self):
        LOG.append(("leaf", self.id))
        return ("L", self.id)


class Fn(object):
    def __init__(self):
        self.id = next(_uid)

    def __call__(self, x):
        LOG.append(("f", self.id))
        return ("F", self.id, x)


class FalsyFn(object):
    """A mapped function whose legitimate result is None / 0 / '' / () / False (dict.get, a counter, a flag)."""
    RESULTS = [None, None, 0, "", (), False]

    def __init__(self, k):
        self.id = next(_uid)
        self.ret = self.RESULTS[k % len(self.RESULTS)]

    def __call__(self, x):
        LOG.append(("f", self.id))
        return self.ret


def index_fn_factory():
    fid = next(_uid)

    def f(i):
        LOG.append(("idx", fid, i))
        return ("I", fid, i)
    return fid, f


def iter_fn_factory():
    fid = next(_uid)

    def f(x):
        LOG.append(("it", fid, x))
        return ("T", fid, x)
    return fid, f


BUILTINS = {"str": str, "repr": repr, "bool": bool, "type": type}


def _never(*a, **k):
    LOG.append(("called_a_value",))
    return "called"


import functools as _ft
PLAIN_CALLABLES = [_ft.partial(_never, k=1), _ft.partial(_never), _never, (lambda: _never()), dict, _ft.partial(dict, a=1)]


# model element: ("L", id) | ("I", fid, i) | ("T", fid, x) | ("V", value) | ("F", fid, child) | ("B", builtin name, child)
def m_value(e):
    if e[0] == "V":
        return e[1]
    if e[0] == "B":
        return BUILTINS[e[1]](m_value(e[2]))
    if e[0] == "F":
        return ("F", e[1], m_value(e[2]))
    if e[0] == "N":
        return e[3]
    return e


def m_log(e):
    if e[0] == "V":
        return []
    if e[0] == "L":
        return [("leaf", e[1])]
    if e[0] == "I":
        return [("idx", e[1], e[2])]
    if e[0] == "T":
        return [("it", e[1], e[2])]
    if e[0] == "B":
        return m_log(e[2])
    return m_log(e[2]) + [("f", e[1])]


def m_depth(e):
    return 1 + m_depth(e[2]) if e[0] in ("F", "B", "N") else 1


class NonReading(taps.Monitor):
    name = "LazyList.nonreading_ops"

    def __init__(self, op):
        self.op = op

    def pre(self, ctx, args, kw):
        if self.op == "__getitem__":
            k = args[1]
            if isinstance(k, (int, np.integer)):
                return None  # a read: judged by the workload against the model
        return {"n": len(LOG)}

    def post(self, ctx, st, args, kw, result, exc):
        if len(LOG) != st["n"]:
            ctx.fail("operation_evaluated_something", cls="LazyList", mech=self.op,
                     op=self.op, evaluated=LOG[st["n"]:][:6])


def setup(ctx):
    from menpo.base import LazyList
    for op in ("map", "repeat", "copy", "__add__", "__len__", "__getitem__"):
        taps.tap(ctx, LazyList, op, NonReading(op))
    for op in ("init_from_iterable", "init_from_index_callable"):
        taps.tap(ctx, LazyList, op, NonReading(op))


_SUB = []


def lazy_class(rng):
    """LazyList itself, or (a quarter of the time) a user's subclass of it (a frame list with a few helpers of its own)."""
    from menpo.base import LazyList
    if not _SUB:
        class FrameList(LazyList):
            def first(self):
                return self[0]
        _SUB.append(FrameList)
    return _SUB[0] if rng.random() < 0.25 else LazyList


def make_base(ctx, rng):
    LazyList = lazy_class(rng)
    n = int(rng.integers(0, 7))
    kind = int(rng.integers(0, 4))
    if kind == 0:
        leaves = [Leaf() for _ in range(n)]
        return LazyList(leaves), [("L", l.id) for l in leaves], "base%d" % n
    if kind == 1:
        fid, f = index_fn_factory()
        return LazyList.init_from_index_callable(f, n), [("I", fid, i) for i in range(n)], "idxbase%d" % n
    if kind == 2:
        fid, f = iter_fn_factory()
        vals = [int(v) for v in rng.integers(0, 100, n)]
        return LazyList.init_from_iterable(vals, f=f), [("T", fid, v) for v in vals], "itbase%d" % n
    vals = [int(v) for v in rng.integers(0, 100, n)]
    return LazyList.init_from_iterable(vals), [("V", v) for v in vals], "valbase%d" % n


def callables_id(ll):
    return tuple(id(c) for c in ll._callables)


def read(ctx, ll, model, i, how="int"):
    n0 = len(LOG)
    key = {"int": int(i), "np": np.int64(i)}[how]
    got = ll[key]
    logged = LOG[n0:]
    ctx.tap("element_read", "calls")
    ctx.tap("element_read", "checked")
    exp = model[i]
    if got != m_value(exp):
        ctx.fail("element_value_differs_from_list_model", cls="LazyList", index=i, got=got, expected=m_value(exp))
    if logged != m_log(exp):
        mech = "evaluated_more" if len(logged) > len(m_log(exp)) else "evaluated_other"
        ctx.fail("element_read_evaluated_wrong_things", cls="LazyList", mech=mech, index=i, logged=logged[:8],
                 expected=m_log(exp)[:8])
    return m_depth(exp)


def w_program(ctx, rng, i):
    from menpo.base import LazyList
    del LOG[:]
    pool = []
    names = []
    for _ in range(int(rng.integers(1, 4))):
        ll, model, nm = make_base(ctx, rng)
        pool.append((ll, model, callables_id(ll)))
        names.append(nm)
    nops = int(rng.integers(2, 11)) if ctx.tier == "quick" else int(rng.integers(2, 16))
    ops = []
    maxdepth_read = 0
    for step in range(nops):
        a, am, _ = pool[rng.integers(0, len(pool))]
        op = ["map", "mapmany", "slice", "fancy", "repeat", "addlazy", "addlist", "copy", "raddchain", "mapbuiltin", "plain_plus_lazy"][rng.integers(0, 11)]
        n0 = len(LOG)
        if op == "map":
            if rng.random() < 0.25:
                f = FalsyFn(int(rng.integers(0, 6)))
                r, rm = a.map(f), [("N", f.id, e, f.ret) for e in am]
                op = "map_falsy"
            else:
                f = Fn()
                r, rm = a.map(f), [("F", f.id, e) for e in am]
        elif op == "plain_plus_lazy":
            # an ordinary sequence on the left: not supported by every version (TypeError is fine) - if it is, the order is the list's
            vals = [int(v) for v in rng.integers(0, 100, int(rng.integers(1, 4)))]
            try:
                r, rm = (list(vals) if rng.random() < 0.5 else tuple(vals)) + a, [("V", v) for v in vals] + am
            except TypeError:
                ops.append("plain_plus_lazy_unsupported")
                continue
        elif op == "mapbuiltin":
            # an ordinary callable that happens to be a class (a converter): list.map would be [str(x) for x in xs]
            nm = list(BUILTINS)[rng.integers(0, len(BUILTINS))]
            r, rm = a.map(BUILTINS[nm]), [("B", nm, e) for e in am]
        elif op == "mapmany":
            fs = [Fn() for _ in am]
            if rng.random() < 0.5:
                fs_arg = tuple(fs)
            else:
                fs_arg = fs
            r, rm = a.map(fs_arg), [("F", f.id, e) for f, e in zip(fs, am)]
            if len(am) > 0 and rng.random() < 0.2:
                try:
                    a.map(fs[:-1])
                    ctx.fail("map_with_wrong_number_of_callables_accepted", cls="LazyList")
                except ValueError:
                    pass
        elif op == "slice":
            n = len(am)
            def pick():
                return None if rng.random() < 0.3 else int(rng.integers(-n - 2, n + 3))
            step_ = [None, 1, 2, 3, -1, -2][rng.integers(0, 6)]
            sl = slice(pick(), pick(), step_)
            r, rm = a[sl], am[sl]
            op = "slice%s" % ("neg" if (step_ or 1) < 0 else "")
        elif op == "fancy":
            n = len(am)
            k = int(rng.integers(0, 6)) if n else 0
            idx = [int(v) for v in rng.integers(-n, n, k)] if n else []
            form = int(rng.integers(0, 5))
            if form == 4:
                # the positions as a range object (a list of explicit positions like any other: negative members count from the end)
                idx = []
                if n:
                    for _ in range(20):
                        a0, st_ = int(rng.integers(-n, n)), int(rng.choice([1, 1, 2, 3, -1, -2]))
                        b0 = int(np.clip(a0 + st_ * int(rng.integers(0, 6)), -n - (1 if st_ < 0 else 0), n))
                        rg_ = range(a0, b0, st_)
                        if all(-n <= j < n for j in rg_):
                            idx = list(rg_)
                            break
                    else:
                        rg_ = range(0)
                else:
                    rg_ = range(0)
            arg = [idx, tuple(idx), np.array(idx, dtype=np.int64), iter(list(idx)), None][form] if form < 4 else rg_
            r, rm = a[arg], [am[j] for j in idx]
            op = "fancy%d" % form
            if form == 2 and k:
                # the caller's index array is the caller's: it is as it was, and selects the same positions (counted from the
                # end where negative) of any other list it is used on afterwards
                if not np.array_equal(arg, np.array(idx, dtype=np.int64)):
                    ctx.fail("fancy_indexing_modified_the_index_array_it_was_given", cls="LazyList")
                b, bm, _ = pool[rng.integers(0, len(pool))]
                if len(bm) and all(-len(bm) <= j < len(bm) for j in idx):
                    nlog = len(LOG)
                    r2 = b[arg]
                    if len(LOG) != nlog:
                        ctx.fail("operation_evaluated_something", cls="LazyList", mech="fancy", op="fancy2_reused")
                    exp2 = [m_value(bm[j]) for j in idx]
                    if len(r2) != len(exp2) or list(r2) != exp2:
                        ctx.fail("element_value_differs_from_list_model", cls="LazyList", mech="index_array_reused_on_another_list", got=repr(list(r2))[:200], expected=repr(exp2)[:200], idx=idx)
                    del LOG[nlog:]          # (this side check's own reads are not part of the program's trace)
                    op = "fancy2_reused"
        elif op == "repeat":
            k = int(rng.integers(0, 4))
            # (the count as a Python int, or as the numpy integer an array computation hands over)
            r, rm = a.repeat(k if rng.random() < 0.6 else [np.int64, np.intp, np.uint8][rng.integers(0, 3)](k)), [e for e in am for _ in range(k)]
            op = "repeat%d" % k
        elif op == "addlazy":
            b, bm, _ = pool[rng.integers(0, len(pool))]
            r, rm = a + b, am + bm
        elif op == "addlist":
            vals = [int(v) for v in rng.integers(0, 100, int(rng.integers(0, 4)))]
            if rng.random() < 0.25:
                # values that happen to be callable (callbacks kept in a list): an ordinary list hands them back, it does not call them
                vals = [PLAIN_CALLABLES[j] for j in rng.integers(0, len(PLAIN_CALLABLES), int(rng.integers(1, 4)))]
            arg = list(vals) if rng.random() < 0.6 else tuple(vals)
            r, rm = a + arg, am + [("V", v) for v in vals]
            if isinstance(arg, list):
                # what an ordinary list + would have copied: later edits of the operand do not show through
                arg.append(-1)
                if len(arg) > 1:
                    arg[0] = -2
                    arg.pop()
        elif op == "raddchain":
            b, bm, _ = pool[rng.integers(0, len(pool))]
            r, rm = (a + b).copy() + a, am + bm + am
        else:
            r, rm = a.copy(), list(am)
        ops.append(op)
        ctx.event(op=op, result_len=len(rm))
        if not isinstance(r, LazyList):
            ctx.fail("result_is_not_a_lazy_list", cls=type(r).__name__, mech=op)
            continue
        if len(LOG) != n0:
            ctx.fail("operation_evaluated_something", cls="LazyList", mech=op.rstrip("0123456789"), op=op)
        if len(r) != len(rm):
            ctx.fail("length_differs_from_list_model", cls="LazyList", mech=op.rstrip("0123456789"), op=op,
                     got=len(r), expected=len(rm))
            continue
        pool.append((r, rm, callables_id(r)))
        # operands (every list created so far) behave as before
        for (p, pm, pid) in pool[:-1]:
            if callables_id(p) != pid or len(p) != len(pm):
                ctx.fail("operand_changed_by_operation", cls="LazyList", mech=op.rstrip("0123456789"), op=op)
        # read a few elements of the new list
        if len(rm):
            for j in rng.integers(-len(rm), len(rm), min(3, len(rm))):
                maxdepth_read = max(maxdepth_read, read(ctx, r, rm, int(j), how=["int", "np"][rng.integers(0, 2)]))
        if len(rm) >= 2 and rng.random() < 0.3:
            # an iteration that is abandoned after its first element (next(iter(..)), a loop with a break, any() that finds
            # what it looks for): only that element was evaluated
            n0 = len(LOG)
            first_ = next(iter(r))
            logged_ = LOG[n0:]
            ctx.tap("abandoned_iteration", "calls"); ctx.tap("abandoned_iteration", "checked")
            if first_ != m_value(rm[0]):
                ctx.fail("iteration_differs_from_list_model", cls="LazyList", mech="first_element_of_an_iteration")
            if logged_ != m_log(rm[0]):
                ctx.fail("element_read_evaluated_wrong_things", cls="LazyList", mech="abandoned_iteration:" + ("evaluated_more" if len(logged_) > len(m_log(rm[0])) else "evaluated_other"),
                         logged=logged_[:8], expected=m_log(rm[0])[:8])
        for bad in (len(rm), -len(rm) - 1, -2 * len(rm) - int(rng.integers(0, 2)), len(rm) + 3):
            if -len(rm) <= bad < len(rm):
                continue
            try:
                n0 = len(LOG)
                r[bad] if rng.random() < 0.5 else r[np.int64(bad)]
                ctx.fail("index_past_end_accepted", cls="LazyList", mech="before_the_start" if bad < 0 else "past_the_end")
            except IndexError:
                if len(LOG) != n0:
                    ctx.fail("index_past_end_evaluated_something", cls="LazyList")
    # quiescent point: full evaluation of every list in the pool, by iteration, against the model
    for (p, pm, pid) in pool:
        if len(pm) and len(pm) <= 6 and rng.random() < 0.3:
            # several iterations over one list at the same time are independent of one another (as for any list)
            exp_v = [m_value(e) for e in pm]
            pairs = list(zip(p, p))
            nested = [(a_, b_) for a_ in p for b_ in p]
            it1, it2 = iter(p), iter(p)
            first = next(it1); list(it2); rest = list(it1)
            if pairs != list(zip(exp_v, exp_v)) or nested != [(a_, b_) for a_ in exp_v for b_ in exp_v] or [first] + rest != exp_v:
                ctx.fail("iteration_differs_from_list_model", cls="LazyList", mech="overlapping_iterations")
        n0 = len(LOG)
        vals = list(p) if rng.random() < 0.7 else [p[k] for k in range(len(p))]
        logged = LOG[n0:]
        if vals != [m_value(e) for e in pm]:
            ctx.fail("iteration_differs_from_list_model", cls="LazyList", got=vals[:5], expected=[m_value(e) for e in pm][:5])
        exp_log = [x for e in pm for x in m_log(e)]
        if logged != exp_log:
            ctx.fail("iteration_evaluated_wrong_things", cls="LazyList", logged=logged[:8], expected=exp_log[:8])
        ctx.tap("full_iteration", "calls")
        ctx.tap("full_iteration", "checked")
        for e in pm:
            maxdepth_read = max(maxdepth_read, m_depth(e))
    ctx.see("ops", [o for o in ops])
    for o in ops:
        ctx.see("op_kinds", o)
    ctx.count_case((tuple(ops), tuple(names)), nontrivial=len(ops) >= 2 and maxdepth_read >= 2,
                   sample={"ops": ops, "bases": names, "pool_lengths": [len(pm) for _, pm, _ in pool]})


# ------------------------------------------------------------------ video-backed lazy lists (menpo/io/input/video.py)
class _FakeStream(object):
    frame_bytes_read = 0          # bytes handed out by the stand-in decoder (not by the stand-in ffprobe)

    def __init__(self, data, frames=False):
        import io
        self._b = io.BytesIO(data)
        self._frames = frames

    def read(self, n=-1):
        r = self._b.read(n)
        if self._frames:
            _FakeStream.frame_bytes_read += len(r)
        return r

    def readlines(self):
        return self._b.readlines()

    def flush(self):
        pass

    def close(self):
        pass


class FakePopen(object):
    """Stand-in for ffprobe / ffmpeg: a synthetic video whose frame k is filled with the byte values (k, k+1, k+2)."""
    N, W, H, FPS = 40, 4, 3, 25
    FPS_FRACTION = (25, 1)       # avg_frame_rate as ffprobe prints it
    DURATION_FACTOR = 1.0        # container duration / (n_frames / fps): real files are rarely exactly consistent
    spawned = 0
    decoders_started = 0

    def __init__(self, command, **kw):
        FakePopen.spawned += 1
        self.stderr = self.stdin = None
        cmd = [str(c) for c in command]
        if any("ffprobe" in c for c in cmd[:1]):
            fps = self.FPS_FRACTION[0] / float(self.FPS_FRACTION[1])
            txt = "width=%d\nheight=%d\navg_frame_rate=%d/%d\nduration=%f\nnb_read_frames=%d\n" % (
                self.W, self.H, self.FPS_FRACTION[0], self.FPS_FRACTION[1], self.N / fps * self.DURATION_FACTOR, self.N)
            self.stdout = _FakeStream(txt.encode())
            return
        # two different synthetic videos: the one whose file name contains "B" shows frame k as k + 100
        self.offset = 100 if any(os.path.basename(c).startswith("vidB") for c in cmd) else 0
        FakePopen.decoders_started += 1
        start = 0
        if "-ss" in cmd:
            start = int(round(float(cmd[cmd.index("-ss") + 1]) * self.FPS_FRACTION[0] / float(self.FPS_FRACTION[1])))
        data = b"".join(bytes([(k + self.offset + c) % 256 for _ in range(self.W * self.H) for c in range(3)]) for k in range(start, self.N))
        self.stdout = _FakeStream(data, frames=True)

    def poll(self):
        return None          # the pipe stays alive: the reader keeps streaming from it

    def wait(self):
        return 0


def frame_id(img):
    px = np.asarray(img.pixels)
    v = int(px[0, 0, 0])
    if px.shape != (3, FakePopen.H, FakePopen.W) or not (px[0] == v).all() or not (px[1] == (v + 1) % 256).all():
        return ("garbled", px.shape)
    return v


def w_video(ctx, rng, i):
    """The list an importer hands out for a video: reading an element never depends on what was read before."""
    V = taps.mod("menpo.io.input.video")
    real = V.sp.Popen
    V.sp.Popen = FakePopen
    FakePopen.FPS_FRACTION = [(25, 1), (30000, 1001), (5, 1), (24000, 1001)][rng.integers(0, 4)]
    FakePopen.DURATION_FACTOR = [1.0, 1.0 + 1.7 / FakePopen.N, 0.96, 1.08][rng.integers(0, 4)]
    try:
        ll = V.ffmpeg_importer("synthetic.mp4", normalize=False)
        model = list(range(FakePopen.N))
        ops = []
        for step in range(int(rng.integers(1, 6))):
            op = ["repeat", "fancy_dup", "slice", "add_self", "reverse", "copy", "map"][rng.integers(0, 7)]
            n = len(model)
            if n == 0:
                break
            if op == "repeat":
                k = int(rng.integers(1, 4)); ll, model = ll.repeat(k), [e for e in model for _ in range(k)]
            elif op == "fancy_dup":
                idx = [int(v) for v in rng.integers(0, n, int(rng.integers(1, 7)))]
                idx = idx + idx[:2]
                ll, model = ll[idx], [model[j] for j in idx]
            elif op == "slice":
                a, b = sorted(int(v) for v in rng.integers(0, n + 1, 2))
                st = [1, 2, -1][rng.integers(0, 3)]
                sl = slice(a, b, st) if st > 0 else slice(b - 1 if b > 0 else None, a - 1 if a > 0 else None, -1)
                ll, model = ll[sl], model[sl]
            elif op == "add_self":
                ll, model = ll[: n // 2 + 1] + ll[n // 2:], model[: n // 2 + 1] + model[n // 2:]
            elif op == "reverse":
                ll, model = ll[::-1], model[::-1]
            elif op == "copy":
                ll, model = ll.copy(), list(model)
            else:
                ll, model = ll.map(lambda im: im), list(model)
            ops.append(op)
        if len(ll) != len(model):
            ctx.fail("length_differs_from_list_model", cls="LazyList", mech="video")
        order = []
        n = len(model)
        if n:
            order = [int(v) for v in rng.integers(0, n, 6)]
            order += [order[-1], order[-1]]                    # the same element twice in a row
            a = int(rng.integers(0, max(1, n // 3)))
            order += [a, min(n - 1, a + int(rng.integers(9, 25))), min(n - 1, a + 26), min(n - 1, a + 27)]   # long forward skips, then on
            order += list(range(n)) if rng.random() < 0.5 else list(range(n - 1, -1, -1))
        for j in order:
            got = frame_id(ll[j])
            ctx.tap("video_element_read", "calls"); ctx.tap("video_element_read", "checked")
            if got != model[j]:
                ctx.fail("element_value_depends_on_what_was_read_before", cls="LazyList", mech="video_reader", index=j, got=got, expected=model[j], ops=ops,
                         read_order=order[:12])
                break
        vals = [frame_id(e) for e in ll]
        if vals != model:
            ctx.fail("iteration_differs_from_list_model", cls="LazyList", mech="video_reader", got=vals[:10], expected=model[:10])
    finally:
        V.sp.Popen = real
    ctx.count_case(("video", tuple(ops), FakePopen.FPS_FRACTION, FakePopen.DURATION_FACTOR), nontrivial=len(ops) >= 1, sample={"video_ops": ops} if i < 2 else None)


def w_video_pair(ctx, rng, i):
    """Two video files imported through the public importer, each frame annotated by a landmark resolver: element k of
    either list is frame k of *that* video with the landmarks of frame k, whatever was read from the other list before;
    reading an element asks the resolver about that frame only."""
    import tempfile, shutil
    import menpo.io as mio
    import menpo.shape as ms
    V = taps.mod("menpo.io.input.video")
    real = V.sp.Popen
    V.sp.Popen = FakePopen
    FakePopen.FPS_FRACTION, FakePopen.DURATION_FACTOR = (25, 1), 1.0
    tmp = tempfile.mkdtemp(prefix="vf-c19-")
    asked = []

    unannotated = bool(rng.random() < 0.5)        # some frames have no annotation: the resolver answers None for them

    def resolver(path, frame):
        asked.append((os.path.basename(str(path)), int(frame)))
        if unannotated and int(frame) % 3 == 1:
            return None
        return {"f": ms.PointCloud(np.array([[float(frame), float(frame) + 0.5]]))}
    try:
        # (file names with a dot inside the stem - take2.cam1.mp4 - are ordinary file names)
        stem_a, stem_b = [("vidA", "vidB"), ("vidA.cam1", "vidB.cam1"), ("vidA.v2.final", "vidB.v2.final")][rng.integers(0, 3)]
        pa, pb = os.path.join(tmp, stem_a + ".mp4"), os.path.join(tmp, stem_b + ".mp4")
        for p_ in (pa, pb):
            open(p_, "wb").write(b"not really a video")
        default_resolver = bool(rng.random() < 0.5)
        _FakeStream.frame_bytes_read = 0
        d0 = FakePopen.decoders_started
        if default_resolver:
            # the documented default: per-frame landmark files <stem>_<k>.<ext> next to the video
            for st_ in (stem_a, stem_b):
                for k_ in range(FakePopen.N):
                    mio.export_landmark_file(ms.PointCloud(np.array([[float(k_), float(k_) + 0.5]])), os.path.join(tmp, "%s_%d.pts" % (st_, k_)))
            la = mio.import_video(pa, normalize=False)
            lb = mio.import_video(pb, normalize=False)
        else:
            la = mio.import_video(pa, landmark_resolver=resolver, normalize=False)
            lb = mio.import_video(pb, landmark_resolver=resolver, normalize=False)
        if asked:
            ctx.fail("operation_evaluated_something", cls="LazyList", mech="import_video_called_the_resolver")
        ctx.tap("import_decodes_nothing", "calls"); ctx.tap("import_decodes_nothing", "checked")
        if _FakeStream.frame_bytes_read or FakePopen.decoders_started != d0:
            ctx.fail("operation_evaluated_something", cls="LazyList", mech="import_video_decoded_frames", frames=_FakeStream.frame_bytes_read // (3 * FakePopen.W * FakePopen.H))
        N = FakePopen.N
        both = {"A": (la, 0, stem_a + ".mp4"), "B": (lb, 100, stem_b + ".mp4")}
        if rng.random() < 0.5:
            k0 = int(rng.integers(0, N - 8))
            both["A+B"] = (la[k0:k0 + 4] + lb[k0:k0 + 4], None, None)
        for step in range(int(rng.integers(6, 20))):
            which = ["A", "B"][rng.integers(0, 2)] if "A+B" not in both or rng.random() < 0.7 else "A+B"
            both.pop("_keep_dummy", None)
            ll, off, fname = both[which]
            if which == "A+B":
                j = int(rng.integers(0, 8))
                k = k0 + j % 4
                off, fname = (0, stem_a + ".mp4") if j < 4 else (100, stem_b + ".mp4")
            else:
                # overlapping recent indices in the two lists
                j = k = int(rng.integers(0, 6)) if rng.random() < 0.7 else int(rng.integers(0, N))
            if rng.random() < 0.2:
                # the same file is imported once more, with the other normalisation (a preview next to the working copy): the
                # earlier list goes on yielding what *it* was asked for
                extra = mio.import_video(pa if rng.random() < 0.5 else pb, normalize=True, **({} if default_resolver else {"landmark_resolver": resolver}))
                both.setdefault("_keep", []).append(extra) if isinstance(both.get("_keep"), list) else both.__setitem__("_keep", [extra])
            n0 = len(asked)
            img = ll[j]
            ctx.tap("video_element_read", "calls"); ctx.tap("video_element_read", "checked")
            if img is None or not hasattr(img, "pixels"):
                ctx.fail("element_value_differs_from_list_model", cls="LazyList", mech="frame_without_annotation_is_not_an_image", got=repr(img)[:60])
                continue
            if img.pixels.dtype != np.uint8:
                ctx.fail("element_value_differs_from_list_model", cls="LazyList", mech="frame_of_a_normalize_False_list_is_%s" % img.pixels.dtype)
            got = frame_id(img)
            if got != (k + off) % 256:
                ctx.fail("element_value_depends_on_what_was_read_before", cls="LazyList", mech="two_videos", got=got, expected=(k + off) % 256, which=which)
            gname = "PTS" if default_resolver else "f"
            lm = img.landmarks[gname].points if img.has_landmarks and gname in img.landmarks else None
            if not default_resolver and unannotated and k % 3 == 1:
                if lm is not None:
                    ctx.fail("element_value_differs_from_list_model", cls="LazyList", mech="landmarks_on_a_frame_the_resolver_left_out")
            elif lm is None or float(lm[0, 0]) != float(k):
                ctx.fail("element_value_differs_from_list_model", cls="LazyList", mech="landmarks_of_another_frame" + (":default_resolver" if default_resolver else ""), got=None if lm is None else lm.tolist(), expected=k)
            if not default_resolver and asked[n0:] != [(fname, k)]:
                ctx.fail("element_read_evaluated_wrong_things", cls="LazyList", mech="resolver_asked_about_other_frames", asked=asked[n0:][:4], expected=[fname, k])
    finally:
        V.sp.Popen = real
        shutil.rmtree(tmp, ignore_errors=True)
    ctx.count_case(("video_pair", "A+B" in both, default_resolver, stem_a.count(".")), nontrivial=True)


def w_imported(ctx, rng, i):
    """Lazy lists handed out by the glob importers (images, landmark files, pickles): every element can be read any number
    of times, directly and through derived lists, and always is the asset of that file."""
    import tempfile, shutil
    import menpo.io as mio
    import menpo.image as mi
    import menpo.shape as ms
    from menpo.base import LazyList
    tmp = tempfile.mkdtemp(prefix="vf-c19i-")
    cwd0 = os.getcwd()
    try:
        n = int(rng.integers(2, 6))
        kind = ["images", "landmarks", "pickles"][i % 3]
        ids = []
        for k in range(n):
            stem = "item_%02d" % k
            if kind == "images":
                px = np.full((1, 3, 4), 10 * (k + 1), dtype=np.uint8)
                mio.export_image(mi.Image(px), os.path.join(tmp, stem + ".png"))
            elif kind == "landmarks":
                mio.export_landmark_file(ms.PointCloud(np.array([[float(k), 1.0], [2.0, 3.0]])), os.path.join(tmp, stem + ".pts"))
            else:
                mio.export_pickle({"k": k}, os.path.join(tmp, stem + ".pkl"))
            ids.append(k)

        def ident(o):
            if kind == "images":
                return int(round(float(np.asarray(o.pixels).ravel()[0]) * (1 if o.pixels.dtype == np.uint8 else 255) / 10.0)) - 1
            if kind == "landmarks":
                return int(round(float(list(o.values())[0].points[0, 0]) if hasattr(o, "values") else float(o.points[0, 0])))
            return int(o["k"])
        pat = os.path.join(tmp, "*" + {"images": ".png", "landmarks": ".pts", "pickles": ".pkl"}[kind])
        relative = bool(rng.random() < 0.35)
        cwd0 = os.getcwd()
        if relative:
            # the pattern given relative to the working directory - which the program changes before it reads the list
            os.chdir(os.path.dirname(tmp))
            pat = os.path.join(os.path.basename(tmp), os.path.basename(pat))
        nz = bool(rng.random() < 0.5)
        if kind == "images":
            ll = mio.import_images(pat, normalize=nz)
            if rng.random() < 0.5:
                # an unrelated import with the other option, before anything of the list is read
                mio.import_image(os.path.join(tmp if not relative else os.path.basename(tmp), "item_00.png"), normalize=not nz)
                other_list = mio.import_images(pat, normalize=not nz)
        elif kind == "landmarks":
            ll = mio.import_landmark_files(pat)
        else:
            ll = mio.import_pickles(pat)
        if relative:
            os.chdir(tmp if rng.random() < 0.5 else "/")
        if not isinstance(ll, LazyList) or len(ll) != n:
            ctx.fail("length_differs_from_list_model", cls="LazyList", mech="imported_" + kind, got=len(ll), expected=n)
            return
        model = list(ids)
        progs = []
        for step in range(int(rng.integers(2, 6))):
            op = ["twice", "repeat", "fancy", "slice_plus", "reverse", "map"][rng.integers(0, 6)]
            progs.append(op)
            if op == "twice":
                j = int(rng.integers(0, n))
                got = [ident(ll[j]), ident(ll[j]), ident(ll[j - n])]
                exp = [model[j]] * 3
            elif op == "repeat":
                got, exp = [ident(e) for e in ll.repeat(2)], [m_ for m_ in model for _ in range(2)]
            elif op == "fancy":
                idx = [int(v) for v in rng.integers(-n, n, 4)] + [0, 0]
                got, exp = [ident(e) for e in ll[idx]], [model[j] for j in idx]
            elif op == "slice_plus":
                got, exp = [ident(e) for e in (ll[:1] + ll)], model[:1] + model
            elif op == "reverse":
                got, exp = [ident(e) for e in ll[::-1]], model[::-1]
            else:
                got, exp = [ident(e) for e in ll.map(lambda o: o)], list(model)
            ctx.tap("imported_list_read", "calls"); ctx.tap("imported_list_read", "checked")
            if kind == "images":
                e0 = ll[0]
                if (e0.pixels.dtype == np.uint8) == nz:
                    ctx.fail("element_value_differs_from_list_model", cls="LazyList", mech="imported_images:normalize_option_of_another_import", got=str(e0.pixels.dtype), expected="float" if nz else "uint8")
                    break
            if got != exp:
                ctx.fail("element_value_differs_from_list_model", cls="LazyList", mech="imported_%s:%s" % (kind, op), got=got[:8], expected=exp[:8], history=progs)
                break
    except Exception as e:
        ctx.fail("element_read_raised", cls="LazyList", mech="imported:%s" % type(e).__name__, error=repr(e)[:200])
    finally:
        try:
            os.chdir(cwd0)
        except Exception:
            os.chdir("/verif")
        shutil.rmtree(tmp, ignore_errors=True)
    ctx.count_case(("imported", kind, n), nontrivial=True)


WORKLOADS = [Workload("imported_lists", w_imported, quick=240, thorough=6000), Workload("program", w_program, quick=60000, thorough=2000000), Workload("video", w_video, quick=1500, thorough=60000),
             Workload("video_pair", w_video_pair, quick=300, thorough=10000)]
