"""C17  Mesh masking keeps whole triangles and attributes; mesh geometry is sound.

Taps on from_mask / from_tri_mask of the three mesh classes judge every masking event (also the internal ones,
e.g. init_from_depth_image on a masked image) against an independent oracle on coordinate triples; taps on the
geometry queries compare with reference formulas; the workload adds the metamorphic relations (rigid motion,
uniform scaling, rotation covariance of normals).
"""
import numpy as np

from vf.tx import amax as _amax

from vf.core import Workload
from vf import taps, gen

ID = "C17"
TECHNIQUE = "runtime monitoring: post-condition taps on mesh masking and geometry queries + metamorphic relations over generated meshes"
LEVEL_TEXT = ("Every from_mask/from_tri_mask and geometry query executed by thousands of generated meshes (grids, Delaunay, arbitrary and "
              "non-manifold triangle lists; all three mesh classes; 2D/3D) is judged by an oracle computed from the inputs; held-on-what-was-observed")
LEVEL_NOTE = "trusted: the numpy oracles in props/c17.py; tolerance 1e-9 relative on areas/lengths, 1e-8 on normals; vertex normals are judged where every incident face is well shaped (twice its area over its longest edge squared above 1e-3) or exactly degenerate"
DESIGN_REF = "DESIGN.md section 7, C17"
RULE = ("meshes: 2D grids, 2D Delaunay, arbitrary triangle lists (isolated triangles, non-manifold edges, duplicate-orientation triangles) in 2D/3D with every "
        "vertex in a triangle; vertex masks all-true / partial / orphan-creating and triangle masks, each keeping >=1 whole triangle. Non-trivial = mask drops "
        ">=1 vertex or the geometry relation uses a non-identity motion; distinct = (class, dims, mesh kind, n_points bucket, n_tris bucket, mask kind, orphan created)")
ASSUMPTIONS = ["vertex normals are judged only for unit length where the incident face normals do not cancel",
               "meshes whose masks leave no whole triangle are outside the quantifier"]
DECIDING_TAPS = ["from_mask", "tri_areas", "boundary_tri_index"]
REPLAY_PATHS = ['menpo/shape/mesh/test', 'menpo/shape/test']      # suite replay (thorough tier): the repository's own tests under these monitors
SHARDS = {"quick": 8, "thorough": 16}


def tris_as_coords(points, trilist):
    return points[trilist]          # (n_tris, 3, d)


class MaskMonitor(taps.Monitor):
    name = "from_mask"

    def __init__(self, tri=False):
        self.tri = tri
        if tri:
            self.name = "from_tri_mask"

    def pre(self, ctx, args, kw):
        m, mask = args[0], args[1]
        if not taps.is_menpo(m) or not isinstance(mask, np.ndarray):
            return None
        mask = np.asarray(mask)
        tl = np.asarray(m.trilist)
        if self.tri:
            if mask.dtype != bool or mask.shape != (len(tl),) or not mask.any():
                return None
            vmask = np.zeros(m.n_points, dtype=bool)
            vmask[np.unique(tl[mask].ravel())] = True
        else:
            if mask.dtype != bool or mask.shape != (m.n_points,):
                return None
            vmask = mask.copy()
        keep_tri = vmask[tl].all(axis=1)
        if not keep_tri.any():
            return None           # no whole triangle survives: outside the quantifier
        st = {"pts": m.points.copy(), "tl": tl.copy(), "vmask": vmask, "keep_tri": keep_tri, "mask": mask.copy()}
        if hasattr(m, "colours"):
            st["colours"] = np.array(m.colours, copy=True)
        if hasattr(m, "tcoords"):
            st["tcoords"] = m.tcoords.points.copy()
            st["texture"] = m.texture.pixels.copy()
        return st

    def post(self, ctx, st, args, kw, result, exc):
        m = args[0]
        cls = type(m).__name__
        if exc is not None:
            ctx.fail("valid_mask_raised", cls=cls, mech=type(exc).__name__ + ("_tri" if self.tri else ""), error=repr(exc)[:200])
            return
        if type(result) is not type(m):
            ctx.fail("masked_mesh_changed_class", cls=cls)
            return
        tl, pts = st["tl"], st["pts"]
        kept = tl[st["keep_tri"]]
        surv = np.zeros(len(pts), dtype=bool)
        surv[np.unique(kept.ravel())] = True
        exp_pts = pts[surv]
        rtl = np.asarray(result.trilist)
        had_orphans = len(np.unique(tl.ravel())) < len(pts)
        if st["vmask"].all() and had_orphans and result.points.shape == pts.shape and np.array_equal(result.points, pts):
            # nothing was masked out and the mesh already had vertices without a triangle: keeping them (a plain copy) is
            # as good a reading of the statement as dropping them
            ctx.bump("all_true_mask_on_mesh_with_unreferenced_vertices_kept_them")
            surv = np.ones(len(pts), dtype=bool)
            exp_pts = pts
        if result.points.shape != exp_pts.shape or not np.array_equal(result.points, exp_pts):
            ctx.fail("surviving_vertices_wrong", cls=cls, mech="orphans" if (st["vmask"] & ~surv).any() else "no_orphans",
                     n_expected=int(surv.sum()), n_got=int(result.n_points))
            return
        if rtl.size and (rtl.min() < 0 or rtl.max() >= result.n_points):
            ctx.fail("trilist_index_out_of_range", cls=cls)
            return
        exp_tri_coords = tris_as_coords(pts, kept)
        got_tri_coords = tris_as_coords(result.points, rtl)
        if got_tri_coords.shape != exp_tri_coords.shape or not np.array_equal(got_tri_coords, exp_tri_coords):
            # same multiset in another order would still be "exactly the triangles": compare as sorted multisets
            a = sorted(map(lambda t: t.tobytes(), got_tri_coords)) if got_tri_coords.size else []
            b = sorted(map(lambda t: t.tobytes(), exp_tri_coords))
            if a != b:
                ctx.fail("kept_triangles_do_not_join_the_same_coordinates", cls=cls, n_expected=len(b), n_got=len(a))
        if "colours" in st:
            if not np.array_equal(np.asarray(result.colours), st["colours"][surv]):
                ctx.fail("colours_do_not_follow_vertices", cls=cls)
        if "tcoords" in st:
            if not np.array_equal(result.tcoords.points, st["tcoords"][surv]):
                ctx.fail("tcoords_do_not_follow_vertices", cls=cls)
            if not np.array_equal(result.texture.pixels, st["texture"]):
                ctx.fail("texture_changed_by_masking", cls=cls)
        # receiver untouched
        if not (np.array_equal(m.points, pts) and np.array_equal(m.trilist, tl)):
            ctx.fail("masking_mutated_the_mesh", cls=cls)
        if "colours" in st and not np.array_equal(m.colours, st["colours"]):
            ctx.fail("masking_mutated_the_mesh", cls=cls, mech="colours")
        if "tcoords" in st and not np.array_equal(m.tcoords.points, st["tcoords"]):
            ctx.fail("masking_mutated_the_mesh", cls=cls, mech="tcoords")
        ctx.see("mask_events", (cls, "tri" if self.tri else "vertex", bool((st["vmask"] & ~surv).any())))


def ref_area(p, tl):
    """Half the norm of the edge cross product, in extended precision (well conditioned for thin triangles too)."""
    t = p[tl].astype(np.longdouble)
    e1, e2 = t[:, 1] - t[:, 0], t[:, 2] - t[:, 0]
    if p.shape[1] == 2:
        c2 = (e1[:, 0] * e2[:, 1] - e1[:, 1] * e2[:, 0]) ** 2
    else:
        cx = e1[:, 1] * e2[:, 2] - e1[:, 2] * e2[:, 1]
        cy = e1[:, 2] * e2[:, 0] - e1[:, 0] * e2[:, 2]
        cz = e1[:, 0] * e2[:, 1] - e1[:, 1] * e2[:, 0]
        c2 = cx * cx + cy * cy + cz * cz
    return (0.5 * np.sqrt(c2)).astype(float)


class GeomMonitor(taps.Monitor):
    def __init__(self, name):
        self.name = name

    def pre(self, ctx, args, kw):
        m = args[0]
        if not taps.is_menpo(m) or m.n_dims not in (2, 3) or len(m.trilist) == 0:
            return None
        if not np.isfinite(m.points).all():
            return None
        if self.name in ("tri_normals", "vertex_normals") and m.n_dims != 3:
            return None   # normals are documented as 3D only (refusal is checked by the workload)
        return {"pts": m.points.copy(), "tl": np.array(m.trilist, copy=True)}

    def post(self, ctx, st, args, kw, r, exc):
        m = args[0]
        cls = type(m).__name__
        # a query is a query: the mesh holds the coordinates and triangles it held before (the reference below is computed from
        # those, not from whatever the mesh holds now)
        if m.points.shape != st["pts"].shape or m.points.dtype != st["pts"].dtype or not np.array_equal(m.points, st["pts"]) or not np.array_equal(np.asarray(m.trilist), st["tl"]):
            ctx.fail("geometry_query_modified_the_mesh", cls=cls, mech=self.name)
        p, tl = st["pts"].astype(float), st["tl"]
        scale = max(1e-12, float(np.abs(p).max()))
        # results are computed in the mesh's own precision
        ntol = 2e-5 if m.points.dtype == np.float32 else 1e-8
        if exc is not None:
            ctx.fail("geometry_query_raised", cls=cls, mech=self.name + "_%dD_" % m.n_dims + type(exc).__name__, error=repr(exc)[:200])
            return
        if self.name == "tri_areas":
            exp = ref_area(p, tl)
            err = np.abs(np.asarray(r) - exp).max() / scale ** 2
            ctx.err("tri_areas_rel", err)
            if r.shape != (len(tl),) or (r < 0).any() or not np.isfinite(r).all() or not (err <= (1e-4 if m.points.dtype == np.float32 else 1e-7)):
                ctx.fail("tri_areas_wrong", cls=cls, mech="%dD" % m.n_dims + ("" if np.isfinite(r).all() else ":not_finite"), err=float(err))
            elif m.points.dtype != np.float32:
                # thin triangles: the area is small but well defined (rounding of the coordinates costs ~1e-16 * scale^2);
                # judged relative to the triangle's own area
                excess = np.abs(np.asarray(r) - exp) - (1e-12 * scale ** 2 + 1e-9 * exp)
                if (excess > 0).any():
                    k = int(np.argmax(excess))
                    ctx.fail("tri_areas_wrong", cls=cls, mech="%dD:thin_triangle" % m.n_dims, got=float(r[k]), expected=float(exp[k]))
        elif self.name == "edge_lengths":
            t = p[tl]
            exp = np.stack([np.linalg.norm(t[:, 1] - t[:, 0], axis=1), np.linalg.norm(t[:, 2] - t[:, 1], axis=1),
                            np.linalg.norm(t[:, 2] - t[:, 0], axis=1)], axis=1)
            got = np.asarray(r)
            if got.shape != (3 * len(tl),) or (got < 0).any():
                ctx.fail("edge_lengths_wrong_shape_or_negative", cls=cls)
            else:
                # per triangle, the three lengths as a multiset
                g = np.sort(got.reshape(-1, 3), axis=1)
                e = np.sort(exp, axis=1)
                if _amax(g - e) > (1e-5 if m.points.dtype == np.float32 else 1e-9) * scale:
                    ctx.fail("edge_lengths_wrong", cls=cls, mech="%dD" % m.n_dims)
        elif self.name == "unique_edge_indices":
            exp = set()
            for a, b, c in tl.tolist():
                exp.update([tuple(sorted((a, b))), tuple(sorted((b, c))), tuple(sorted((c, a)))])
            got = [tuple(sorted(map(int, e))) for e in np.asarray(r)]
            if len(got) != len(set(got)):
                ctx.fail("unique_edges_lists_an_edge_twice", cls=cls)
            if set(got) != exp:
                ctx.fail("unique_edges_differ_from_edge_set", cls=cls, n_expected=len(exp), n_got=len(set(got)))
        elif self.name == "boundary_tri_index":
            count = {}
            for a, b, c in tl.tolist():
                for e in (tuple(sorted((a, b))), tuple(sorted((b, c))), tuple(sorted((c, a)))):
                    count[e] = count.get(e, 0) + 1
            exp = np.array([any(count[tuple(sorted(e))] == 1 for e in ((a, b), (b, c), (c, a))) for a, b, c in tl.tolist()])
            got = np.asarray(r)
            nonmanifold = any(v > 2 for v in count.values())
            if got.shape != exp.shape or got.dtype != bool or not np.array_equal(got, exp):
                ctx.fail("boundary_triangles_wrong", cls=cls, mech="non_manifold" if nonmanifold else "manifold",
                         trilist=tl if len(tl) < 12 else None)
            ctx.see("boundary_nonmanifold", nonmanifold)
        elif self.name == "tri_normals":
            t = p[tl]
            e1, e2 = t[:, 1] - t[:, 0], t[:, 2] - t[:, 0]
            area = 0.5 * np.linalg.norm(np.cross(e1, e2), axis=1)
            ok = area > 1e-6 * scale ** 2
            n = np.asarray(r)
            if n.shape != (len(tl), 3):
                ctx.fail("tri_normals_wrong_shape", cls=cls)
                return
            some = area > 0
            if some.any() and _amax(np.linalg.norm(n[some], axis=1) - 1) > ntol:
                ctx.fail("tri_normals_not_unit", cls=cls, mech="thin_triangle", err=float(np.abs(np.linalg.norm(n[some], axis=1) - 1).max()))
            if ok.any():
                unit = np.abs(np.linalg.norm(n[ok], axis=1) - 1).max()
                perp = max(np.abs((n[ok] * e1[ok]).sum(1) / np.linalg.norm(e1[ok], axis=1)).max(),
                           np.abs((n[ok] * e2[ok]).sum(1) / np.linalg.norm(e2[ok], axis=1)).max())
                ctx.err("tri_normal_unit", unit); ctx.err("tri_normal_perp", perp)
                if not (unit <= ntol):
                    ctx.fail("tri_normals_not_unit", cls=cls, err=float(unit))
                if not (perp <= ntol):
                    ctx.fail("tri_normals_not_perpendicular_to_triangle", cls=cls, err=float(perp))
                # right-hand orientation w.r.t. the vertex order (consistent with "follow rotations")
                refn = np.cross(e1[ok], e2[ok])
                if ((n[ok] * refn).sum(1) <= 0).any():
                    ctx.fail("tri_normals_flipped_against_vertex_order", cls=cls)
        elif self.name == "vertex_normals":
            n = np.asarray(r)
            t = p[tl]
            fn = np.cross(t[:, 1] - t[:, 0], t[:, 2] - t[:, 0])
            ln = np.linalg.norm(fn, axis=1, keepdims=True)
            # a face has a well defined normal when it is well *shaped* (twice its area against its longest edge squared) and its
            # edges are not lost in the rounding of the coordinates - however small it is next to the other faces; an exactly
            # degenerate face has no normal and contributes nothing
            el_ = np.stack([np.linalg.norm(t[:, 1] - t[:, 0], axis=1), np.linalg.norm(t[:, 2] - t[:, 1], axis=1), np.linalg.norm(t[:, 0] - t[:, 2], axis=1)], axis=1)
            lmax = el_.max(axis=1)
            with np.errstate(divide="ignore", invalid="ignore"):
                quality = np.where(lmax > 0, ln[:, 0] / np.where(lmax > 0, lmax, 1) ** 2, 0)
            good = ((quality > 1e-3) & (lmax > 1e-8 * scale)) | (ln[:, 0] == 0)
            fnu = np.where(ln > 0, fn / np.where(ln > 0, ln, 1), 0)
            acc = np.zeros_like(p)
            bad_vertex = np.zeros(len(p), dtype=bool)
            for k in range(3):
                np.add.at(acc, tl[:, k], fnu)
                bad_vertex[tl[~good, k]] = True
            defined = (np.linalg.norm(acc, axis=1) > 1e-3) & ~bad_vertex
            defined[np.setdiff1d(np.arange(len(p)), tl.ravel())] = False
            if n.shape != p.shape:
                ctx.fail("vertex_normals_wrong_shape", cls=cls)
            elif defined.any():
                unit = np.abs(np.linalg.norm(n[defined], axis=1) - 1).max()
                ctx.err("vertex_normal_unit", unit)
                if not (unit <= ntol):
                    ctx.fail("vertex_normals_not_unit", cls=cls, err=float(unit))


def setup(ctx):
    M = taps.mod("menpo.shape.mesh.base")
    C = taps.mod("menpo.shape.mesh.coloured")
    T = taps.mod("menpo.shape.mesh.textured")
    taps.tap_definers(ctx, "from_mask", lambda c: MaskMonitor(), base=M.TriMesh)
    taps.tap_definers(ctx, "from_tri_mask", lambda c: MaskMonitor(tri=True), base=M.TriMesh)
    for q in ("tri_areas", "edge_lengths", "unique_edge_indices", "boundary_tri_index", "tri_normals", "vertex_normals"):
        taps.tap_definers(ctx, q, lambda c, q=q: GeomMonitor(q), base=M.TriMesh)


# --------------------------------------------------------------------------------- generators
def make_mesh(rng, cls, d, kind):
    import menpo.shape as ms
    from menpo.image import Image
    if kind == "grid":
        shp = (int(rng.integers(2, 6)), int(rng.integers(2, 6)))
        if rng.random() < 0.12:
            shp = [(16, 16), (8, 32), (32, 8), (64, 4), (4, 64), (15, 17), (17, 15), (16, 16), (16, 16)][rng.integers(0, 9)]     # a few hundred vertices (index types have their limits at 256)
        base = ms.TriMesh.init_2d_grid(shp, spacing=float(rng.uniform(0.5, 3)) if rng.random() < 0.5 else None)
        pts, tl = base.points.copy(), base.trilist.copy()        # the triangle list exactly as the grid constructor hands it out
        if rng.random() < 0.06:
            # a large surface (more than 512 triangles) with a fin: one extra triangle standing on an interior edge, which three
            # triangles then share
            big = ms.TriMesh.init_2d_grid((int(rng.integers(17, 24)), int(rng.integers(17, 24))))
            pts, tl = big.points.copy(), big.trilist.copy()
            t0 = tl[int(rng.integers(len(tl) // 3, 2 * len(tl) // 3))]
            far_ = int(rng.integers(0, len(pts)))
            if far_ not in t0:
                tl = np.vstack([tl, np.array([[t0[0], t0[1], far_]], dtype=tl.dtype)])
        if d == 3:
            pts = np.hstack([pts, rng.uniform(-2, 2, (len(pts), 1))])
    elif kind == "sparse_large":
        # a small triangulated region on a large vertex array (a cropped scan that keeps the full vertex buffer)
        n = int(rng.integers(1500, 5000))
        pts = rng.uniform(-10, 10, (n, d))
        used = rng.choice(n, int(rng.integers(40, 120)), replace=False)
        tl = np.array([rng.choice(used, 3, replace=False) for _ in range(int(rng.integers(25, 70)))], dtype=np.int64)
    elif kind == "detail_patch":
        # a coarse mesh with a patch of fine detail in the same triangle list (terrain plus a scanned artefact): the small
        # triangles are well shaped, just four to five orders of magnitude smaller
        n0 = int(rng.integers(4, 9))
        pts = gen.general_position(rng, n0, d)
        tl = gen.cover_all_vertices(rng, n0, gen.trilist_for(rng, pts, "random"))
        k = int(rng.integers(3, 7))
        centre = pts[rng.integers(0, n0)] + rng.normal(size=d) * (0.0 if rng.random() < 0.5 else 3.0)
        fine = 10.0 * 10.0 ** rng.uniform(-5, -3.6)
        ang = np.sort(rng.uniform(0, 2 * np.pi, k)) + np.linspace(0, 0.3, k)
        ring = np.zeros((k, d))
        ring[:, 0], ring[:, 1] = np.cos(ang), np.sin(ang)
        if d == 3:
            ring[:, 2] = rng.uniform(-0.4, 0.4, k)
            ring = ring @ gen.rotation_matrix(rng, 3).T
        det = centre + fine * np.vstack([np.zeros((1, d)), ring * rng.uniform(0.7, 1.3, (k, 1))])
        fan = np.array([[n0, n0 + 1 + j, n0 + 1 + (j + 1) % k] for j in range(k - (0 if k > 3 else 1))], dtype=tl.dtype)
        pts = np.vstack([pts, det])
        tl = np.vstack([tl, fan])
        tl = tl[rng.permutation(len(tl))]
    elif kind == "degenerate":
        # ordinary triangles plus thin ones (height 1e-9 .. 1e-3 of the base) and exactly degenerate ones (a repeated
        # position, three collinear grid points) that share vertices with the ordinary triangles
        n0 = int(rng.integers(4, 9))
        pts = gen.general_position(rng, n0, d)
        tl = gen.cover_all_vertices(rng, n0, gen.trilist_for(rng, pts, "random"))
        extra_p, extra_t = [], []
        for _ in range(int(rng.integers(1, 4))):
            a, b = (int(v) for v in rng.choice(n0, 2, replace=False))
            lam = rng.uniform(0.2, 0.8)
            base = pts[b] - pts[a]
            off = rng.normal(size=d)
            off -= base * (off @ base) / (base @ base)
            off *= np.linalg.norm(base) / max(1e-300, np.linalg.norm(off)) * 10.0 ** rng.uniform(-9, -3)
            extra_p.append(pts[a] + lam * base + off)
            extra_t.append([a, b, n0 + len(extra_p) - 1])
        if rng.random() < 0.7:
            a, b = (int(v) for v in rng.choice(n0, 2, replace=False))
            extra_p.append(pts[a].copy())                          # the same position under a second vertex id
            extra_t.append([a, n0 + len(extra_p) - 1, b])
        if rng.random() < 0.5:
            a = int(rng.integers(0, n0))
            step = np.zeros(d); step[rng.integers(0, d)] = 1.0
            extra_p.append(pts[a] + step); extra_p.append(pts[a] + 2 * step)       # collinear, exactly representable offsets
            extra_t.append([a, n0 + len(extra_p) - 2, n0 + len(extra_p) - 1])
        pts = np.vstack([pts, np.array(extra_p)])
        tl = np.vstack([tl, np.array(extra_t, dtype=tl.dtype)])
        tl = tl[rng.permutation(len(tl))]
    else:
        n = int(rng.integers(4, 14))
        pts = gen.general_position(rng, n, d)
        if kind == "delaunay" and d == 2:
            tl = gen.trilist_for(rng, pts, "delaunay")
        else:
            tl = gen.trilist_for(rng, pts, "random")
            if kind == "nonmanifold" and n >= 5:
                # three triangles around one edge, plus both orientations of one triangle
                a, b = 0, 1
                extra = [[a, b, k] for k in range(2, min(n, 6))]
                extra.append([b, a, 2])
                tl = np.vstack([tl, np.array(extra)])
                tl = np.unique(tl, axis=0)
        tl = gen.cover_all_vertices(rng, n, tl)
        tl = tl[rng.permutation(len(tl))]
    n = len(pts)
    if rng.random() < 0.3 and kind != "grid":
        tl = tl.astype(np.uint32)
    elif kind == "grid" and len(pts) in (256, 255) and rng.random() < 0.7:
        tl = tl.astype(np.uint8)              # stored in the narrowest type that holds the indices (0 .. 255)
    r_ = rng.random()
    if r_ < 0.2 and kind not in ("degenerate", "detail_patch"):
        pts = pts.astype(np.float32)          # meshes loaded from files are often single precision
    elif r_ < 0.35 and kind not in ("degenerate", "detail_patch"):
        # integer-typed vertex coordinates: pixel / voxel indices, coordinates written as integer literals
        dt = [np.int64, np.int32, np.int16, np.uint16, np.uint8][rng.integers(0, 5)]
        span = 250.0 if dt in (np.uint8,) else 900.0
        q = pts - pts.min(0)
        q = np.round(q / max(1e-300, q.max()) * span)
        if len(np.unique(q, axis=0)) == len(q):
            pts = q.astype(dt)
    if cls == "TriMesh":
        return ms.TriMesh(pts, trilist=tl)
    if cls == "ColouredTriMesh":
        return ms.ColouredTriMesh(pts, trilist=tl, colours=rng.random((n, int(rng.integers(1, 4)))))
    tex = Image(rng.random((int(rng.integers(1, 4)), 5, 6)))
    return ms.TexturedTriMesh(pts, rng.random((n, 2)), tex, trilist=tl)


CLASSES = ["TriMesh", "ColouredTriMesh", "TexturedTriMesh"]
KINDS = ["grid", "delaunay", "random", "nonmanifold", "degenerate", "sparse_large", "detail_patch"]
KINDS_GEOM = [k_ for k_ in KINDS if k_ != "sparse_large"]


def bucket(n):
    return 0 if n < 6 else 1 if n < 12 else 2


def w_mask(ctx, rng, i):
    cls = CLASSES[i % 3]
    d = 2 + (i // 3) % 2
    kind = KINDS[(i // 6) % len(KINDS)]
    if kind == "sparse_large" and (i // 42) % 4:
        kind = "random"                 # the large meshes are a small share of the cases
    m = make_mesh(rng, cls, d, kind)
    if rng.random() < 0.5:
        m.landmarks["lm"] = gen.shape(rng, "PointCloud", d=d, n=4)
    tl = np.asarray(m.trilist)
    n = m.n_points
    mk = ["all", "partial", "orphan", "tri", "tri_single"][rng.integers(0, 5)]
    if kind == "sparse_large" and rng.random() < 0.7:
        mk = "few_removed"
    queried_before = bool(rng.random() < 0.5)
    if queried_before:
        # history: the parent answers its queries first; whatever it remembers must not leak into the derived mesh
        m.tri_areas(); m.edge_lengths(); m.unique_edge_indices(); m.boundary_tri_index()
        if d == 3:
            m.tri_normals(); m.vertex_normals()
    if mk == "all":
        mask = np.ones(n, dtype=bool)
        r = m.from_mask(mask)
    elif mk == "few_removed":
        # some tens of vertices spread over the whole index range are removed; most triangles survive
        mask = np.ones(n, dtype=bool)
        mask[rng.choice(n, int(rng.integers(18, 90)), replace=False)] = False
        if not mask[tl].all(axis=1).any():
            mask[:] = True
        r = m.from_mask(mask)
    elif mk in ("partial", "orphan"):
        # keep the vertices of some whole triangles, plus (orphan) some vertices that end up without a triangle
        keep_t = rng.random(len(tl)) < rng.uniform(0.2, 0.8)
        keep_t[rng.integers(0, len(tl))] = True
        mask = np.zeros(n, dtype=bool)
        mask[np.unique(tl[keep_t].ravel())] = True
        if mk == "orphan":
            mask |= rng.random(n) < 0.3
        r = m.from_mask(mask)
    else:
        tmask = rng.random(len(tl)) < rng.uniform(0.2, 0.8)
        if mk == "tri_single":
            tmask[:] = False
        tmask[rng.integers(0, len(tl))] = True
        r = m.from_tri_mask(tmask)
        mask = None
    dropped = (r.n_points < n)
    if m.has_landmarks and not r.has_landmarks:
        ctx.bump("landmarks_dropped_by_masking_observed")
    # wrong-size masks are refused
    try:
        m.from_mask(np.ones(n + 1, dtype=bool))
        ctx.fail("wrong_length_mask_accepted", cls=cls)
    except ValueError:
        pass
    # the masked mesh is itself a sound mesh: its geometry queries run through the same taps
    r.tri_areas(); r.edge_lengths(); r.unique_edge_indices(); r.boundary_tri_index()
    if d == 3:
        r.tri_normals(); r.vertex_normals()
    ctx.see("classes", cls)
    ctx.count_case((cls, d, kind, bucket(n), bucket(len(tl)), mk, bool(dropped), queried_before), nontrivial=bool(dropped),
                   sample={"cls": cls, "dims": d, "kind": kind, "n_points": n, "n_tris": int(len(tl)), "mask": mk,
                           "n_points_after": int(r.n_points), "n_tris_after": int(r.n_tris)} if i < 4 else None)


def w_geometry(ctx, rng, i):
    from menpo.transform import Rotation, Translation, UniformScale
    cls = CLASSES[i % 3]
    d = 2 + (i // 3) % 2
    kind = KINDS_GEOM[(i // 6) % len(KINDS_GEOM)]
    m = make_mesh(rng, cls, d, kind)
    if rng.random() < 0.5 and m.points.dtype == np.float64:
        # any overall size: millimetre-scale scans, unit-normalised shapes, kilometre-scale terrain
        m.points = m.points * 10.0 ** rng.uniform(-5, 4)
    R = gen.rotation_matrix(rng, d)
    size = float(np.abs(m.points).max())
    tvec = rng.uniform(-2, 2, d) * size
    far = bool(rng.random() < 0.25)
    if far:
        tvec = tvec * 10.0 ** rng.uniform(3, 5.5)          # a scan placed in map coordinates: far away compared with its size
    s = float(10.0 ** rng.uniform(-3, 3)) if rng.random() < 0.3 else float(rng.uniform(0.2, 5.0))
    rot = Rotation(R)
    if d == 3 and rng.random() < 0.4:
        # the rotation given as a unit quaternion (what pose estimators hand over)
        q = rng.normal(size=4)
        q /= np.linalg.norm(q)
        rot = Rotation.init_3d_from_quaternion(q) if rng.random() < 0.5 else Rotation.init_identity(3).from_vector(q)
        R = np.array(rot.h_matrix, dtype=float)[:3, :3]
        ctx.tap("rotation_from_a_unit_quaternion", "calls"); ctx.tap("rotation_from_a_unit_quaternion", "checked")
        if _amax(R @ R.T - np.eye(3)) > 1e-9 or abs(np.linalg.det(R) - 1.0) > 1e-9:
            ctx.fail("geometry_changes_under_rigid_motion", cls="Rotation", mech="3D:rotation_built_from_a_unit_quaternion_is_not_a_rotation", err=_amax(R @ R.T - np.eye(3)))
    rigid = rot.compose_before(Translation(tvec))
    chained = bool(rng.random() < 0.2)
    if chained:
        # the same motion held as a chain of its two steps
        from menpo.transform import TransformChain
        rigid = TransformChain([rot, Translation(tvec)])
    if chained or rng.random() < 0.35:
        # the motion has a past of non-mutating uses (a scaled version was derived from it, its inverse taken ...)
        from vf import tx as _tx
        with taps.quiet():
            for _ in range(2):
                _tx.bystander_history(rng, rigid, d)
            UniformScale(float(rng.uniform(1.5, 4.0)), d).compose_before(rigid)
            rigid.compose_after(UniformScale(float(rng.uniform(1.5, 4.0)), d))
        ctx.bump("rigid_motions_with_a_bystander_history")
    if rng.random() < 0.5:   # history: queries answered before the mesh is transformed
        m.tri_areas(); m.edge_lengths(); m.boundary_tri_index()
        if d == 3:
            m.tri_normals(); m.vertex_normals()
    if rng.random() < 0.3:
        m.landmarks["marks"] = gen.shape(rng, "PointCloud", d=d, n=4)          # an annotated mesh moves like any other
    if rng.random() < 0.25 and not chained:
        # the same rigid motion written as a plain homogeneous matrix in another scaling (k * H stands for the same map)
        from menpo.transform import Homogeneous
        rigid = Homogeneous(np.asarray(rigid.h_matrix, dtype=float) * [2.0, -1.0, 0.25, 5.0][rng.integers(0, 4)])
    bkw = {"batch_size": int(rng.integers(1, m.n_points + 3))} if rng.random() < 0.25 else {}      # the documented optional batching
    mr = rigid.apply(m, **bkw)
    sc_t = UniformScale(s, d)
    if rng.random() < 0.3:
        # the scale transform made from a template (the identity, a whole-number scale) and given the real factor afterwards
        tpl_ = [UniformScale.init_identity(d), UniformScale(2, d), UniformScale(1, d)][rng.integers(0, 3)]
        sc_t = tpl_.from_vector(np.array([s]))
        ctx.bump("scales_built_from_a_whole_number_template")
    msc = sc_t.apply(m, **bkw)
    a0, a1, a2 = m.tri_areas(), mr.tri_areas(), msc.tri_areas()
    l0, l1, l2 = m.edge_lengths(), mr.edge_lengths(), msc.edge_lengths()
    # the moved mesh rebuilt from its coordinate vector on the original mesh (same triangles, attributes): the same mesh as the
    # moved one - whatever type the original's coordinates had
    try:
        mv = m.from_vector(np.asarray(mr.as_vector(), dtype=float))
        ctx.tap("moved_mesh_through_its_vector", "calls"); ctx.tap("moved_mesh_through_its_vector", "checked")
        if mv.points.shape != mr.points.shape or _amax(np.asarray(mv.points, dtype=float) - np.asarray(mr.points, dtype=float)) > 0:
            ctx.fail("areas_change_under_rigid_motion", cls=cls, mech="%dD:rebuilt_from_the_coordinate_vector:%s" % (d, m.points.dtype.kind), err=_amax(np.asarray(mv.points, dtype=float) - np.asarray(mr.points, dtype=float)))
        else:
            mv.tri_areas(); mv.edge_lengths()
    except NotImplementedError:
        pass
    scale = float(np.abs(m.points).max() + np.abs(tvec).max())
    ea = np.abs(a1 - a0).max() / scale ** 2
    el = np.abs(l1 - l0).max() / scale
    f32 = m.points.dtype == np.float32
    ctx.err("area_rigid_rel" + (":f32" if f32 else ""), ea); ctx.err("length_rigid_rel" + (":f32" if f32 else ""), el)
    if f32:
        # single precision: only the coarse relations are judged (the taps judge each query against its reference)
        if far:
            # (measured against the size of the mesh itself: moving it far away must not cost it its shape)
            ea, el = np.abs(a1 - a0).max() / size ** 2, np.abs(l1 - l0).max() / size
        if not (ea <= 1e-4) or not (el <= 1e-4) or (a0 < 0).any() or (l0 < 0).any():
            ctx.fail("geometry_changes_under_rigid_motion", cls=cls, mech="float32:%dD" % d, err=float(max(ea, el)))
        ctx.count_case((cls, d, kind, "float32", "geometry"), nontrivial=True)
        return
    if not (ea <= 1e-9) or (a0 < 0).any():
        ctx.fail("areas_change_under_rigid_motion", cls=cls, mech="%dD" % d, err=float(ea))
    if not (el <= 1e-9) or (l0 < 0).any():
        ctx.fail("edge_lengths_change_under_rigid_motion", cls=cls, mech="%dD" % d, err=float(el))
    if _amax(a2 - s * s * a0) > 1e-9 * max(1, s * s) * scale ** 2:
        ctx.fail("areas_do_not_scale_with_s_squared", cls=cls, mech="%dD" % d)
    if _amax(l2 - s * l0) > 1e-9 * max(1, s) * scale:
        ctx.fail("edge_lengths_do_not_scale_with_s", cls=cls, mech="%dD" % d)
    if abs(m.mean_tri_area() - a0.mean()) > 1e-9 * scale ** 2:
        ctx.fail("mean_tri_area_inconsistent", cls=cls)
    ue = m.unique_edge_indices()
    ul = m.unique_edge_lengths()
    if len(ul) != len(ue) or _amax(ul - np.linalg.norm(m.points.astype(float)[ue[:, 0]] - m.points.astype(float)[ue[:, 1]], axis=1)) > 1e-9 * scale:
        ctx.fail("unique_edge_lengths_inconsistent_with_unique_edges", cls=cls)
    if abs(m.mean_edge_length(unique=True) - ul.mean()) > 1e-9 * scale or abs(m.mean_edge_length(unique=False) - l0.mean()) > 1e-9 * scale:
        ctx.fail("mean_edge_length_inconsistent", cls=cls)
    b0, b1 = m.boundary_tri_index(), mr.boundary_tri_index()
    if not np.array_equal(b0, b1):
        ctx.fail("boundary_changes_under_rigid_motion", cls=cls)
    if d == 3:
        n0, n1 = m.tri_normals(), mr.tri_normals()
        m.vertex_normals(); mr.vertex_normals()
        t = m.points.astype(float)[np.asarray(m.trilist)]
        area = 0.5 * np.linalg.norm(np.cross(t[:, 1] - t[:, 0], t[:, 2] - t[:, 0]), axis=1)
        ok = area > 1e-6 * scale ** 2
        if ok.any():
            e = np.abs(n1[ok] - n0[ok] @ R.T).max()
            ctx.err("tri_normal_rotation_covariance", e)
            if not (e <= 1e-7):
                ctx.fail("tri_normals_do_not_follow_rotation", cls=cls, err=float(e))
    else:
        for q in ("tri_normals", "vertex_normals"):
            try:
                getattr(m, q)()
                ctx.fail("normals_of_2d_mesh_not_refused", cls=cls, mech=q)
            except ValueError:
                pass
    ctx.count_case((cls, d, kind, bucket(m.n_points), bucket(m.n_tris), "geometry"), nontrivial=True,
                   sample={"cls": cls, "dims": d, "kind": kind, "n_points": int(m.n_points), "n_tris": int(m.n_tris), "scale": s} if i < 3 else None)


def w_depth_image(ctx, rng, i):
    """Internal masking events: meshes initialised from masked depth images go through from_mask."""
    import menpo.shape as ms
    from menpo.image import MaskedImage
    shp = (int(rng.integers(3, 7)), int(rng.integers(3, 7)))
    msk = gen.mask(rng, shp, ["block", "halfplane", "random"][i % 3])
    img = MaskedImage(rng.random((1,) + shp), mask=msk)
    cls = CLASSES[i % 3]
    tl = ms.TriMesh.init_2d_grid(shp).trilist
    if not msk.ravel()[tl].all(axis=1).any():
        ctx.count_case(("depth", cls, "no_triangle"), nontrivial=False)
        return
    flat = msk.ravel()
    kept_tris = tl[flat[tl].all(axis=1)]
    orphans = bool((flat & ~np.isin(np.arange(flat.size), kept_tris)).any())
    cols = rng.random((shp[0] * shp[1], 3))
    tc_kind = int(rng.integers(0, 2))
    tc = rng.random((shp[0] * shp[1], 2)) if tc_kind else None
    try:
        if cls == "TriMesh":
            m = ms.TriMesh.init_from_depth_image(img)
        elif cls == "ColouredTriMesh":
            m = ms.ColouredTriMesh.init_from_depth_image(img, colours=cols.copy()) if i % 2 else ms.ColouredTriMesh.init_from_depth_image(img)
        else:
            m = ms.TexturedTriMesh.init_from_depth_image(img, tcoords=tc.copy()) if tc is not None else ms.TexturedTriMesh.init_from_depth_image(img)
    except Exception as e:
        # init_from_depth_image stacks depth values of all masked pixels onto the vertices that kept a triangle: only
        # masks without orphan pixels are inside its domain
        if not orphans:
            ctx.fail("masked_depth_image_mesh_could_not_be_built", cls=cls, mech=type(e).__name__, error=repr(e)[:160])
        ctx.bump("depth_image_orphan_mask_raised")
        ctx.count_case(("depth", cls, "orphans"), nontrivial=False)
        return
    if not orphans:
        # the mesh of the valid pixels: each vertex keeps its own grid position, depth, colour and texture coordinate
        ctx.tap("masked_depth_image_mesh", "calls"); ctx.tap("masked_depth_image_mesh", "checked")
        gy, gx = np.meshgrid(np.arange(shp[0]), np.arange(shp[1]), indexing="ij")
        exp_pts = np.stack([gy.ravel()[flat], gx.ravel()[flat], img.pixels[0].ravel()[flat]], axis=1).astype(float)
        renum = np.cumsum(flat) - 1
        exp_tl = renum[kept_tris]
        if m.points.shape != exp_pts.shape or _amax(np.asarray(m.points, dtype=float) - exp_pts) > 0:
            ctx.fail("masked_depth_image_mesh_has_the_wrong_vertices", cls=cls, mech="points")
        elif sorted(map(tuple, np.sort(np.asarray(m.trilist), axis=1).tolist())) != sorted(map(tuple, np.sort(exp_tl, axis=1).tolist())):
            ctx.fail("masked_depth_image_mesh_has_the_wrong_vertices", cls=cls, mech="triangles")
        elif cls == "ColouredTriMesh":
            exp_c = cols[flat] if i % 2 else None
            if np.asarray(m.colours).shape[0] != int(flat.sum()) or (exp_c is not None and _amax(np.asarray(m.colours, dtype=float) - exp_c) > 0):
                ctx.fail("colours_not_carried_along_with_their_vertices", cls=cls, mech="masked_depth_image")
        elif cls == "TexturedTriMesh":
            exp_t = tc[flat] if tc is not None else np.asarray(ms.TexturedTriMesh.init_2d_grid(shp).tcoords.points)[flat]
            got_t = np.asarray(m.tcoords.points, dtype=float)
            if got_t.shape != exp_t.shape or _amax(got_t - exp_t) > 0:
                ctx.fail("texture_coordinates_not_carried_along_with_their_vertices", cls=cls, mech="masked_depth_image:" + ("given" if tc is not None else "default"))
            else:
                # ... and stays a mesh that can be masked again
                try:
                    m.from_mask(np.ones(m.n_points, dtype=bool))
                    k_ = np.ones(m.n_tris, dtype=bool); k_[0] = m.n_tris == 1
                    m.from_tri_mask(k_)
                except Exception as e:
                    ctx.fail("masked_depth_image_mesh_cannot_be_masked_again", cls=cls, mech=type(e).__name__)
    m.tri_areas(); m.boundary_tri_index(); m.tri_normals()
    ctx.count_case(("depth", cls, shp, int(msk.sum())), nontrivial=not msk.all())


WORKLOADS = [
    Workload("mask", w_mask, quick=12000, thorough=300000),
    Workload("geometry", w_geometry, quick=6000, thorough=200000),
    Workload("depth_image", w_depth_image, quick=900, thorough=20000),
]
