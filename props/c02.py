"""C02  Transforming a shape moves points and landmarks as one and mutates nothing.

Tap: Transform.apply (single entry point) with OLD digests of shape, landmark groups (held by reference) and
transform, and a clone of the transform for the bare-array reference evaluation (vf/monitors.py ApplyMonitor).
Workload: full cross product shape class x {2D,3D} x transform kind x 0..3 landmark groups, hostile inputs,
histories where the same transform object is applied to several shapes / equally sized landmark groups.
"""
import numpy as np

from vf.core import Workload
from vf import taps, gen, tx, monitors
from vf.digest import digest

ID = "C02"
TECHNIQUE = "runtime monitoring: post-condition tap on Transform.apply with OLD state digests and bare-array reference evaluation"
LEVEL_TEXT = ("Every Transform.apply executed on the cross product of all 8 shape classes, 2D/3D, 0-3 landmark groups of any class and every transform "
              "kind (homogeneous family, alignments, chains, WithDims, TPS, PWA) is judged against the bare-array result of a clone, with state digests of "
              "shape, landmark objects and transform before/after; held-on-what-was-observed")
LEVEL_NOTE = "trusted: vf/digest.py state walk and the transform's own array path as reference for the shape path; tolerance 1e-9 relative"
DESIGN_REF = "DESIGN.md section 7, C02"
RULE = ("cross product shape class (8) x dims (2,3) x transform kind (17 in 2D, 14 in 3D) x landmark groups (0-3, random classes, sometimes equal sizes) with "
        "random finite parameters and hostile point arrays; non-trivial = non-identity transform and (>=1 landmark group or structured class); "
        "distinct = (shape class, dims, transform kind, n landmark groups, landmark classes, batch size used, reuse history)")
ASSUMPTIONS = ["points given to PWA lie inside the source triangulation; applications that raise TriangleContainmentError are not judged",
               "buffer sharing between result and input is recorded, not judged (the statement forbids modification, not sharing)"]
DECIDING_TAPS = ["Transform.apply"]
REPLAY_PATHS = ['menpo/transform/test', 'menpo/shape', 'menpo/landmark/test', 'menpo/image/test', 'menpo/model/test']      # suite replay (thorough tier): the repository's own tests under these monitors
SHARDS = {"quick": 8, "thorough": 16}


def setup(ctx):
    monitors.install_apply_monitor(ctx)


def _behaviour(t, pp):
    try:
        v, ok = tx.safe_apply(t, pp)
        return None if v is None else np.where(ok[:, None], np.asarray(v, dtype=float), 0.0)
    except Exception:
        return None


def w_cross(ctx, rng, i):
    d = 2 + i % 2
    kinds = tx.kinds(d) + tx.EXTRA_HOMOG + (tx.DEGENERATE_2D if d == 2 else []) + ["NonSquareHomogeneous", "ChainWithIdentityMember", "ChainAfterChain", "ScaleFromFactors"]
    kind = kinds[(i // 2) % len(kinds)]
    cls = gen.SHAPE_CLASSES[(i // (2 * len(kinds))) % 8]
    nlm = int(rng.integers(0, 4))
    sequential = None
    if kind == "ChainAfterChain":
        # a chain put together out of two chains (each of two or three members that do not commute): it moves shapes as
        # applying the first chain and then the second one does
        import menpo.transform as _mt0
        pool = ["Translation", "NonUniformScale", "Rotation", "Affine", "UniformScale"]
        first = _mt0.TransformChain([tx.make(rng, pool[rng.integers(0, len(pool))], d)[0] for _ in range(int(rng.integers(2, 4)))])
        second = _mt0.TransformChain([tx.make(rng, pool[rng.integers(0, len(pool))], d)[0] for _ in range(int(rng.integers(2, 4)))])
        f0, s0 = first.copy(), second.copy()
        how = int(rng.integers(0, 4))
        with taps.quiet():
            if how == 0:
                t = second.compose_after(first)
            elif how == 1:
                t = first.compose_before(second)
            elif how == 2:
                second.compose_after_inplace(first); t = second
            else:
                first.compose_before_inplace(second); t = first
        recipe = None
        sequential = (lambda p: s0.apply(f0.apply(p)), ["compose_after", "compose_before", "compose_after_inplace", "compose_before_inplace"][how])
    elif kind == "ScaleFromFactors":
        # the documented factory, from the factor values alone (equal factors, different ones, the first and the last equal):
        # whatever class it picks, every axis is scaled by its own factor
        import menpo.transform as _mt1
        f_ = rng.uniform(0.4, 2.5, d) * rng.choice([-1.0, 1.0, 1.0], d)
        pat_ = int(rng.integers(0, 4))
        if pat_ == 0:
            f_[:] = f_[0]
        elif pat_ == 1:
            f_[-1] = f_[0]
        elif pat_ == 2:
            f_[1] = f_[0]
        t = _mt1.Scale(f_.copy() if rng.random() < 0.5 else [float(v) for v in f_])
        recipe = None
        sequential = (lambda p, f_=f_.copy(): np.asarray(p, dtype=float) * f_, "Scale_factory:pattern%d" % pat_)
    else:
        t, recipe = tx.make(rng, kind, d)
    equal_sizes = bool(rng.random() < 0.4)
    s = gen.shape(rng, cls, d=d, with_landmarks=0, scale=0.55 * tx.BOX, centred=True,
                  dtype=[float, float, np.float32][rng.integers(0, 3)])
    lmc = []
    n_lm = int(rng.integers(3, 8))
    for g in range(nlm):
        lc = gen.SHAPE_CLASSES[rng.integers(0, 8)]
        lmc.append(lc)
        s.landmarks["g%d" % g] = gen.shape(rng, lc, d=d, n=n_lm if equal_sizes else int(rng.integers(3, 8)),
                                           scale=0.55 * tx.BOX, centred=True)
    if nlm == 1 and rng.random() < 0.3:
        # the only group filed under a key that is falsy in Python (group number 0, the empty name): a group like any other
        only_ = s.landmarks["g0"]
        del s.landmarks["g0"]
        s.landmarks[[0, "", False][rng.integers(0, 3)]] = only_
        ctx.bump("single_group_under_a_falsy_key")
    elif nlm and rng.random() < 0.3:
        # a landmark group that carries landmarks of its own
        g0 = s.landmarks["g0"]
        g0.landmarks["inner"] = gen.shape(rng, gen.SHAPE_CLASSES[rng.integers(0, 8)], d=d, n=int(rng.integers(3, 6)), scale=0.55 * tx.BOX, centred=True)
        s.landmarks["g0"] = g0
        ctx.bump("cases_with_nested_landmarks")
    has_empty = False
    if rng.random() < 0.15 and kind != "WithDims":
        has_empty = True
        # a landmark group that has no points (yet): it is moved like every other group (its array takes the output dimensionality);
        # driven un-batched and not through WithDims (both refuse a zero-point array on the unchanged tree: outside the quantifier)
        import menpo.shape as ms
        s.landmarks["empty"] = ms.PointCloud(np.zeros((0, d)))
        nlm += 1
        ctx.bump("cases_with_an_empty_landmark_group")
    if rng.random() < 0.3:
        s.points = gen.hostile_array(rng, s.points)
    import menpo.transform as _mt
    dense_shape = False
    if isinstance(t, _mt.ThinPlateSplines) and rng.random() < 0.2 and cls == "PointCloud":
        # a dense shape (a scan of several thousand points) some of whose vertices are the spline's control points themselves
        import menpo.shape as _ms
        ctrl = np.asarray(t.source.points, dtype=float)
        nbig = int(70000 // len(ctrl)) + int(rng.integers(10, 400))
        big = rng.uniform(-0.55 * tx.BOX, 0.55 * tx.BOX, (nbig, 2))
        where = rng.choice(nbig, len(ctrl), replace=False)
        big[where] = ctrl
        lms_ = {k: v for k, v in s.landmarks.items()} if s.has_landmarks else {}
        s = _ms.PointCloud(big)
        for k, v in lms_.items():
            s.landmarks[k] = v
        s.landmarks["on_the_control_points"] = _ms.PointCloud(ctrl[: max(2, len(ctrl) // 2)].copy())
        nlm += 1
        ctx.bump("dense_shapes_through_a_spline")
        dense_shape = True
    from menpo.transform.piecewiseaffine.base import AbstractPWA as _PWA
    if isinstance(t, _PWA) and rng.random() < 0.3:
        # a shape that sticks out of the warp's domain: the application is refused - and the shape handed in is as it was
        s.points = s.points * np.asarray(2.6, dtype=s.points.dtype)
        ctx.bump("shapes_reaching_outside_the_warp_domain")
    held = [(k, v) for k, v in s.landmarks.items()] if nlm else []
    bs = [None, None, 1, 2, 3, 50][rng.integers(0, 6)]
    if has_empty:
        bs = None
    if dense_shape and not has_empty:
        bs = [None, 1000, 4097][rng.integers(0, 3)]          # (thousands of one-point batches would only burn time)
    history = int(rng.integers(0, 4))
    if history == 3 and kind not in ("ChainAfterChain", "ScaleFromFactors"):
        # the transform's parameters were replaced after it was built (parameter vector, new target): only the new ones count
        if tx.is_alignment(t) and isinstance(t, _mt.Homogeneous) and rng.random() < 0.5:
            # an alignment handed a new target is the alignment its source, the new target and its options define
            import menpo.shape as _ms3
            variant = ["plain", "plain", "unsigned_pixels", "far_from_the_origin"][rng.integers(0, 4)]
            o0 = {k: getattr(t, k) for k in ("rotation", "allow_mirror") if k in t.__dict__}
            far_scale = 1.0
            if variant != "plain":
                # the same alignment problem in another representation: unsigned pixel positions / map coordinates
                sp_, tp_ = np.asarray(t.source.points, dtype=float), np.asarray(t.target.points, dtype=float)
                with taps.quiet():
                    if variant == "unsigned_pixels":
                        lo_ = np.minimum(sp_.min(0), tp_.min(0)) - 3.0
                        udt_ = [np.uint16, np.uint8, np.uint32][rng.integers(0, 3)]
                        k_ = 2.0 if udt_ is np.uint8 else float(rng.uniform(3, 40))
                        sp_, tp_ = np.round((sp_ - lo_) * k_ / 2.0), np.round((tp_ - lo_) * k_ / 2.0)
                        if max(sp_.max(), tp_.max()) < np.iinfo(udt_).max - 8 and len(np.unique(sp_, axis=0)) == len(sp_):
                            t = type(t)(_ms3.PointCloud(sp_.astype(udt_)), _ms3.PointCloud(tp_.astype(udt_)), **o0)
                        else:
                            variant = "plain"
                    else:
                        far_scale = 10.0 ** rng.uniform(4.5, 6.3) * tx.BOX
                        off_ = rng.choice([-1.0, 1.0], d) * far_scale
                        t = type(t)(_ms3.PointCloud(sp_ + off_), _ms3.PointCloud(tp_ + off_ + rng.uniform(-3, 3, d)), **o0)
                ctx.bump("retargeted_alignments_in_" + variant)
            with taps.quiet():
                if variant == "unsigned_pixels":
                    nt_ = np.asarray(t.target.points, dtype=np.int64) + rng.integers(-2, 3, t.target.points.shape)
                    t.set_target(_ms3.PointCloud(np.clip(nt_, 0, None).astype(t.target.points.dtype)))
                else:
                    t.set_target(_ms3.PointCloud(t.target.points + rng.normal(scale=0.5, size=t.target.points.shape)))
                if variant == "far_from_the_origin" and type(t).__name__ in ("AlignmentUniformScale", "AlignmentSimilarity"):
                    # size is a property of the shape, wherever it lies: the aligned source has the size of the target
                    al_ = np.asarray(t.aligned_source().points, dtype=float)
                    tg_ = np.asarray(t.target.points, dtype=float)
                    na_, nt2_ = float(np.linalg.norm(al_ - al_.mean(0))), float(np.linalg.norm(tg_ - tg_.mean(0)))
                    ctx.bump("far_alignments_judged_by_size")
                    if abs(na_ - nt2_) > 1e-7 * nt2_:
                        ctx.fail("retargeted_alignment_moves_points_by_another_map_than_its_source_target_and_options_define", cls=type(t).__name__,
                                 mech="far_from_the_origin:aligned_source_has_another_size_than_the_target", err=abs(na_ - nt2_) / nt2_)
                o = {k: getattr(t, k) for k in ("rotation", "allow_mirror") if k in t.__dict__}
                fresh = type(t)(t.source.copy(), t.target.copy(), **o)
                pp = tx.probe(rng, d, 6) if variant == "plain" else np.asarray(t.source.points, dtype=float)[:6] + rng.uniform(-1, 1, (min(6, t.source.n_points), d))
                e = tx.maxdiff(t.apply(pp), fresh.apply(pp))
            ctx.bump("retargeted_alignments_compared_with_a_fresh_one")
            if not e <= 1e-8 * max(tx.BOX, far_scale * 1e-2, float(np.abs(np.asarray(t.target.points, dtype=float)).max())):
                ctx.fail("retargeted_alignment_moves_points_by_another_map_than_its_source_target_and_options_define", cls=type(t).__name__,
                         mech="options:" + ",".join("%s=%s" % kv for kv in sorted(o.items())), err=e)
        else:
            with taps.quiet():
                t2 = tx.reparameterise(rng, t, kind, d)
            if t2 is not None:
                t = t2
            else:
                history = 0
    if rng.random() < 0.3:
        # the transform has a past of operations that do not change it: its inverse was taken, it was copied, composed out of
        # place, applied to other points
        with taps.quiet():
            pp = tx.probe(rng, d, 6)
            y0 = _behaviour(t, pp)
            done = tx.bystander_history(rng, t, d)
            y1 = _behaviour(t, pp)
        if done:
            ctx.bump("transforms_with_a_bystander_history")
            if y0 is not None and (y1 is None or tx.maxdiff(y0, y1) > 0):
                ctx.fail("transform_changed_by_operations_documented_to_leave_it_alone", cls=type(t).__name__, mech=",".join(sorted(set(done))))
    if history == 1:
        # the same transform object has already been applied to something of the same size
        if dense_shape:
            import menpo.shape as _ms2
            other = _ms2.PointCloud(rng.uniform(-0.55 * tx.BOX, 0.55 * tx.BOX, (s.n_points, d)))
        else:
            other = gen.shape(rng, "PointCloud", d=d, n=s.n_points, scale=0.55 * tx.BOX, centred=True)
        try:
            t.apply(other)
        except Exception:
            pass
    r = None
    try:
        r = t.apply(s) if bs is None else t.apply(s, batch_size=bs)
    except Exception as e:
        from menpo.transform.piecewiseaffine.base import TriangleContainmentError
        if not isinstance(e, TriangleContainmentError):
            raise
    if r is not None and history == 2:
        # apply again: same answer, and the first result is not disturbed
        rd = digest(r)
        r2 = t.apply(s)
        if digest(r) != rd:
            ctx.fail("second_apply_disturbed_first_result", cls=cls, mech=kind)
        if tx.maxdiff(r2.points, r.points) > 1e-9 * max(1, np.abs(r.points).max()):
            ctx.fail("second_apply_gives_other_points", cls=cls, mech=kind)
    # the landmark objects the caller held before the call still belong to the input, untouched (judged by the tap too)
    for k, v in held:
        if s.landmarks[k] is not v:
            ctx.fail("input_landmark_object_replaced_by_apply", cls=cls, mech=kind, group=k)
    ident = False
    try:
        pts = tx.probe(rng, d, 5)
        ident = tx.maxdiff(t.apply(pts), pts) < 1e-12
    except Exception:
        pass
    if sequential is not None and r is not None:
        e = tx.maxdiff(r.points, sequential[0](np.asarray(s.points, dtype=float)))
        ctx.bump("chains_of_chains_judged_against_sequential_application")
        if not e <= 1e-8 * tx.BOX:
            ctx.fail("chain_composed_with_a_chain_moves_the_shape_by_another_map_than_one_after_the_other" if not sequential[1].startswith("Scale_factory")
                     else "shape_moved_by_another_map_than_the_factors_given_define", cls=cls, mech=sequential[1], err=e)
    structured = cls != "PointCloud"
    ctx.see("transform_kinds", kind)
    ctx.see("shape_classes", cls)
    ctx.count_case((cls, d, kind, nlm, tuple(sorted(set(lmc))), bs is not None, history, equal_sizes),
                   nontrivial=(not ident) and (nlm > 0 or structured) and r is not None,
                   sample={"shape": cls, "dims": d, "transform": kind, "landmark_classes": lmc, "batch_size": bs,
                           "history": history} if i < 6 else None)


def w_manager(ctx, rng, i):
    """Transforms applied to a landmark manager / to a shape whose groups carry their own landmarks."""
    d = 2 + i % 2
    kind = tx.HOMOG[(i // 2) % len(tx.HOMOG)]
    t, _ = tx.make(rng, kind, d)
    s = gen.shape(rng, None, d=d, with_landmarks=int(rng.integers(1, 4)), scale=0.5 * tx.BOX, centred=True)
    lm = s.landmarks
    before = {k: (type(v), v.points.copy()) for k, v in lm.items()}
    dig = digest(lm)
    out = t.apply(lm)
    if digest(lm) != dig:
        ctx.fail("apply_modified_the_landmark_manager", cls="LandmarkManager", mech=kind)
    if list(out.keys()) != list(before.keys()):
        ctx.fail("landmark_groups_lost_or_reordered_by_apply", cls="LandmarkManager", mech=kind)
    else:
        for k, (c, p) in before.items():
            ref = t.apply(p.copy())
            if type(out[k]) is not c or tx.maxdiff(out[k].points, ref) > 1e-9 * max(1, np.abs(ref).max()):
                ctx.fail("landmark_group_not_moved_by_the_same_map", cls="LandmarkManager", mech=kind, group=k)
    ctx.count_case(("manager", d, kind, len(before)), nontrivial=True)


def w_with_dims(ctx, rng, i):
    """shape.with_dims(dims) is dimension slicing of the whole shape: the same as WithDims(dims).apply(shape)."""
    import menpo.transform as mt
    from vf.digest import diff
    d = 3 if i % 3 else 2
    cls = gen.SHAPE_CLASSES[(i // 3) % 8]
    s = gen.shape(rng, cls, d=d, with_landmarks=int(rng.integers(0, 3)))
    dims = ([[0, 1], [1, 2], [2, 0], [0, 2, 1], np.array([True, False, True])] if d == 3 else [[1, 0], [0, 1]])[rng.integers(0, 5 if d == 3 else 2)]
    dg = digest(s)
    a = s.with_dims(dims)
    b = mt.WithDims(dims).apply(s)
    ctx.tap("with_dims_wrapper", "calls"); ctx.tap("with_dims_wrapper", "checked")
    why = diff(a, b)
    if why:
        ctx.fail("with_dims_differs_from_applying_the_dimension_slicing_transform", cls=cls, mech="landmarks" if "_landmarks" in why else "other", why=why)
    if digest(s) != dg:
        ctx.fail("with_dims_modified_the_shape", cls=cls)
    ctx.count_case(("with_dims", cls, d, str(dims)), nontrivial=s.has_landmarks)


WORKLOADS = [
    Workload("with_dims", w_with_dims, quick=240, thorough=6000),
    Workload("cross_product", w_cross, quick=4000, thorough=250000),
    Workload("manager", w_manager, quick=400, thorough=20000),
]
