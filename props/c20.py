"""C20  Convenience transform constructors follow their documented conventions.

Taps on the rotation constructors, axis_and_angle_of_rotation, init_3d_from_quaternion, the Scale factory, the
about-centre builders and the texture-coordinate transforms (at every binding site), each judged against an
independent formula (explicit cos/sin images of basis vectors, Rodrigues, quaternion formula, corner table).
"""
import numpy as np

from vf.tx import amax as _amax

from vf.core import Workload
from vf.digest import digest
from vf import taps, gen, tx

ID = "C20"
TECHNIQUE = "runtime monitoring: post-condition taps on the convenience constructors (all binding sites) with closed-form references (Rodrigues, quaternion, corner table)"
LEVEL_TEXT = ("Every call of the counter-clockwise rotation constructors, axis/angle report, quaternion constructor, Scale factory, about-centre builders and texture-coordinate "
              "transforms - direct and internal (image rotation, textured meshes) - over angles in all quadrants / beyond a turn / negative, degrees and radians, all axes, random "
              "rotations and objects is judged against closed-form references; held-on-what-was-observed")
LEVEL_NOTE = "trusted: the closed-form references in props/c20.py; tolerance 1e-9; 3D axis-angle is judged away from the identity and half-turns (sin|theta| > 1e-3)"
DESIGN_REF = "DESIGN.md section 7, C20"
RULE = ("angles from a grid over [-720, 720] degrees plus random ones, degrees/radians, 2D and the three 3D axes; random proper rotations for axis-angle and quaternion round trips; "
        "objects with a centre: point clouds, meshes, graphs (2D/3D) and images; scale factor vectors clearly equal / clearly different / containing zeros; image shapes 2..200; "
        "non-trivial = non-zero angle / non-unit scale; distinct = (clause, dims or axis, unit, quadrant, object class)")
ASSUMPTIONS = ["the 2D axis_and_angle_of_rotation reporting |theta| for negative theta is a known finding pinned by the suite; any other wrong angle is a violation",
               "about-centre builders are judged with transforms that have no translation of their own"]
DECIDING_TAPS = ["ccw_constructor", "axis_and_angle_of_rotation", "about_centre", "Scale", "tcoords"]
REPLAY_PATHS = ['menpo/transform/test', 'menpo/image/test', 'menpo/shape']      # suite replay (thorough tier): the repository's own tests under these monitors
SHARDS = {"quick": 8, "thorough": 16}


def rodrigues(axis, angle):
    a = np.asarray(axis, dtype=float)
    a = a / np.linalg.norm(a)
    k = np.array([[0, -a[2], a[1]], [a[2], 0, -a[0]], [-a[1], a[0], 0]])
    return np.eye(3) + np.sin(angle) * k + (1 - np.cos(angle)) * (k @ k)


def quat_to_matrix(q):
    w, x, y, z = q
    return np.array([[1 - 2 * (y * y + z * z), 2 * (x * y - z * w), 2 * (x * z + y * w)],
                     [2 * (x * y + z * w), 1 - 2 * (x * x + z * z), 2 * (y * z - x * w)],
                     [2 * (x * z - y * w), 2 * (y * z + x * w), 1 - 2 * (x * x + y * y)]])


class CCWMonitor(taps.Monitor):
    name = "ccw_constructor"

    def __init__(self, which):
        self.which = which

    def pre(self, ctx, args, kw):
        theta = args[1] if len(args) > 1 else kw.get("theta")
        degrees = args[2] if len(args) > 2 else kw.get("degrees", True)
        if not np.isscalar(theta) or not np.isfinite(theta):
            return None
        return {"theta": float(theta), "degrees": bool(degrees)}

    def post(self, ctx, st, args, kw, r, exc):
        if exc is not None:
            ctx.fail("ccw_constructor_raised", cls=self.which, mech=type(exc).__name__)
            return
        th = np.deg2rad(st["theta"]) if st["degrees"] else st["theta"]
        c, s = np.cos(th), np.sin(th)
        m = np.asarray(r.rotation_matrix)
        unit = "degrees" if st["degrees"] else "radians"
        if self.which == "2d":
            axis, u, v = None, np.array([1.0, 0]), np.array([0, 1.0])
        else:
            k = "xyz".index(self.which)
            axis = np.eye(3)[k]
            u, v = np.eye(3)[(k + 1) % 3], np.eye(3)[(k + 2) % 3]   # right-handed: axis = u x v
        e1 = np.abs(m @ u - (c * u + s * v)).max()
        e2 = np.abs(m @ v - (-s * u + c * v)).max()
        e3 = 0.0 if axis is None else np.abs(m @ axis - axis).max()
        ctx.err("ccw_constructor", max(e1, e2, e3))
        if max(e1, e2) > 1e-9:
            ctx.fail("rotation_constructor_does_not_rotate_ccw_by_the_signed_angle", cls=self.which, mech=unit, theta=st["theta"], err=float(max(e1, e2)))
        if e3 > 1e-9:
            ctx.fail("rotation_constructor_does_not_fix_its_axis", cls=self.which, mech=unit)
        if _amax(np.asarray(r.h_matrix)[:-1, -1]) > 0 or type(r).__name__ != "Rotation":
            ctx.fail("rotation_constructor_result_is_not_a_pure_rotation", cls=self.which)


class AxisAngleMonitor(taps.Monitor):
    name = "axis_and_angle_of_rotation"

    def pre(self, ctx, args, kw):
        r = args[0]
        if not taps.is_menpo(r):
            return None
        m = np.asarray(r.rotation_matrix, dtype=float)
        if m.shape[0] not in (2, 3) or _amax(m.T @ m - np.eye(len(m))) > 1e-9 or np.linalg.det(m) < 0:
            return None
        if len(m) == 3:
            # away from the identity and half-turns: sin|theta| = |skew part| / ...
            sk = 0.5 * np.linalg.norm([m[2, 1] - m[1, 2], m[0, 2] - m[2, 0], m[1, 0] - m[0, 1]])
            if sk < 1e-3:
                return None
        return {"m": m.copy()}

    def post(self, ctx, st, args, kw, res, exc):
        m = st["m"]
        d = len(m)
        if exc is not None:
            ctx.fail("axis_and_angle_raised", cls="%dD" % d, mech=type(exc).__name__)
            return
        axis, angle = res
        if d == 2:
            true = float(np.arctan2(m[1, 0], m[0, 0]))
            if axis is None or angle is None or not np.allclose(axis, [0, 0, 1]):
                ctx.fail("2d_axis_is_not_z", cls="2D")
                return
            e = abs(np.angle(np.exp(1j * (float(angle) - true))))
            if not (e <= 1e-7):
                mech = "reported_abs_of_negative_angle" if (true < 0 and abs(float(angle) - abs(true)) < 1e-7) else "other_wrong_angle"
                ctx.fail("reported_angle_does_not_rebuild_the_2d_rotation", cls="2D", mech=mech, true_angle=true, reported=float(angle))
            return
        if axis is None:
            ctx.fail("no_axis_reported_for_a_proper_rotation", cls="3D")
            return
        rebuilt = rodrigues(axis, float(angle))
        e = np.abs(rebuilt - m).max()
        ctx.err("axis_angle_rebuild_3d", e)
        if not (e <= 1e-6):
            flipped = np.abs(rodrigues(axis, -float(angle)) - m).max() < 1e-6
            ctx.fail("reported_axis_and_angle_do_not_rebuild_the_3d_rotation", cls="3D", mech="sign_flipped" if flipped else "other", err=float(e),
                     angle=float(angle))
        if abs(np.linalg.norm(axis) - 1) > 1e-9:
            ctx.fail("reported_axis_is_not_a_unit_vector", cls="3D")


class QuaternionMonitor(taps.Monitor):
    name = "init_3d_from_quaternion"

    def pre(self, ctx, args, kw):
        q = np.asarray(args[1] if len(args) > 1 else kw.get("q"), dtype=float)
        if q.shape != (4,) or abs(np.linalg.norm(q) - 1) > 1e-9 or q[0] < -1e-12 or (0 < abs(q[0]) <= 1e-6):
            return None
        return {"q": q.copy(), "half_turn": bool(abs(q[0]) <= 1e-12)}

    def post(self, ctx, st, args, kw, r, exc):
        if exc is not None:
            ctx.fail("quaternion_constructor_raised", cls="Rotation", mech=type(exc).__name__)
            return
        e = np.abs(np.asarray(r.rotation_matrix) - quat_to_matrix(st["q"])).max()
        if not (e <= 1e-9):
            ctx.fail("quaternion_constructor_builds_the_wrong_rotation", cls="Rotation", err=float(e))
        back = np.asarray(r.as_vector())
        # (a half turn has scalar part 0: q and -q are the same rotation and equally canonical)
        if _amax(back - st["q"]) > 1e-8 and not (st["half_turn"] and _amax(back + st["q"]) <= 1e-8):
            ctx.fail("quaternion_does_not_round_trip", cls="Rotation", mech="half_turn" if st["half_turn"] else "", given=st["q"], got=back)


class ScaleMonitor(taps.Monitor):
    name = "Scale"

    def pre(self, ctx, args, kw):
        sf = args[0] if args else kw.get("scale_factor")
        nd = args[1] if len(args) > 1 else kw.get("n_dims")
        try:
            a = np.atleast_1d(np.asarray(sf, dtype=float))
        except Exception:
            return None
        if not np.isfinite(a).all():
            return None
        spread = (a.max() - a.min()) / max(1e-300, np.abs(a).max()) if a.size else 0
        if 0 < spread < 1e-3 and not (a == 0).any():
            return None     # neither clearly equal nor clearly different
        return {"a": a, "nd": nd, "scalar": np.isscalar(sf)}

    def post(self, ctx, st, args, kw, r, exc):
        a = st["a"]
        if (a == 0).any():
            if not isinstance(exc, ValueError):
                ctx.fail("zero_scale_factor_not_refused", cls="Scale", mech="accepted" if exc is None else type(exc).__name__)
            return
        if exc is not None:
            ctx.fail("scale_factory_raised", cls="Scale", mech=type(exc).__name__, factors=a)
            return
        name = type(r).__name__
        equal = bool((a == a[0]).all())
        if st["nd"] is not None or equal:
            if name != "UniformScale":
                ctx.fail("equal_factors_did_not_give_a_uniform_scale", cls=name, factors=a)
            nd = st["nd"] if st["nd"] is not None else len(a)
            exp = np.eye(nd + 1) * a[0]
            exp[-1, -1] = 1
        else:
            if name != "NonUniformScale":
                ctx.fail("different_factors_did_not_give_a_non_uniform_scale", cls=name, factors=a)
            exp = np.diag(np.append(a, 1.0))
        if np.asarray(r.h_matrix).shape != exp.shape or _amax(np.asarray(r.h_matrix) - exp) > 1e-12:
            ctx.fail("scale_factory_built_the_wrong_matrix", cls=name, factors=a)


class AboutCentreMonitor(taps.Monitor):
    name = "about_centre"

    def __init__(self, which):
        self.which = which

    def pre(self, ctx, args, kw):
        obj = args[0] if args else kw.get("obj")
        if not taps.is_menpo(obj):
            return None
        c = np.asarray(obj.centre(), dtype=float)
        d = len(c)
        st = {"c": c.copy(), "d": d}
        try:
            # the size of the object: offsets are probed, and errors judged, in its own units (a nanometre-sized shape given in
            # metres is as good a shape as any)
            st["ext"] = float(np.max(np.asarray(obj.range(), dtype=float))) if hasattr(obj, "range") else float(max(obj.shape))
        except Exception:
            st["ext"] = 5.0
        if not (st["ext"] > 0 and np.isfinite(st["ext"])):
            st["ext"] = 5.0
        rest = list(args[1:])
        if self.which == "transform":
            tr = rest[0] if rest else kw.get("transform")
            import menpo.transform as mt
            if not taps.is_menpo(tr):
                return None
            st["arg"], st["arg_digest"] = tr, digest(tr)
            if isinstance(tr, mt.Homogeneous) and _amax(np.asarray(tr.h_matrix, dtype=float)[-1, :-1]) == 0:
                h = np.asarray(tr.h_matrix, dtype=float)
                st["A"], st["b"] = h[:d, :d].copy(), h[:d, d].copy()
            else:
                # any other transform (a chain, a spline, ...): "the plain transform on offsets" is its own map of the offsets
                try:
                    st["plain"] = tr.copy()
                except Exception:
                    return None
        elif self.which == "scale":
            s = rest[0] if rest else kw.get("scale")
            sv = np.asarray(s, dtype=float)
            st["A"], st["b"] = (np.eye(d) * float(sv) if sv.ndim == 0 else np.diag(sv)), np.zeros(d)
        elif self.which == "rotate":
            th = rest[0] if rest else kw.get("theta")
            deg = rest[1] if len(rest) > 1 else kw.get("degrees", True)
            if d != 2:
                return {"refuse": True, "c": c, "d": d}
            th = np.deg2rad(th) if deg else th
            st["A"], st["b"] = np.array([[np.cos(th), -np.sin(th)], [np.sin(th), np.cos(th)]]), np.zeros(2)
            st["unit"] = "degrees" if deg else "radians"
        else:
            phi = rest[0] if rest else kw.get("phi")
            psi = rest[1] if len(rest) > 1 else kw.get("psi")
            deg = rest[2] if len(rest) > 2 else kw.get("degrees", True)
            if d != 2:
                return {"refuse": True, "c": c, "d": d}
            if deg:
                phi, psi = np.deg2rad(phi), np.deg2rad(psi)
            st["A"], st["b"] = np.array([[1, np.tan(phi)], [np.tan(psi), 1]]), np.zeros(2)
            st["unit"] = "degrees" if deg else "radians"
        return st

    def post(self, ctx, st, args, kw, t, exc):
        obj = args[0] if args else kw.get("obj")
        cls = type(obj).__name__
        if "arg_digest" in st and digest(st["arg"]) != st["arg_digest"]:
            ctx.fail("about_centre_builder_modified_the_transform_it_was_given", cls=type(st["arg"]).__name__, mech=self.which)
        if st.get("refuse"):
            if not isinstance(exc, ValueError):
                ctx.fail("non_2d_object_not_refused", cls=cls, mech=self.which)
            return
        if exc is not None:
            ctx.fail("about_centre_builder_raised", cls=cls, mech=self.which + ":" + type(exc).__name__)
            return
        c, d = st["c"], st["d"]
        v = tx.probe(np.random.default_rng(21), d, 7, box=5.0) * (st["ext"] / 5.0 if st["ext"] < 1e-3 and "plain" not in st else 1.0)
        got = np.asarray(t.apply(np.vstack([c[None], c + v])))
        if "plain" in st:
            exp = c + np.asarray(st["plain"].apply(np.vstack([np.zeros((1, d)), v])))
        else:
            A, b = st["A"], st["b"]
            exp = np.vstack([c[None] + b, c + v @ A.T + b])
        scale = max(1.0, np.abs(exp).max()) if not (st["ext"] < 1e-3 and "plain" not in st) else max(float(np.abs(exp).max()), st["ext"])
        e_c = np.abs(got[0] - exp[0]).max()
        e_o = np.abs(got[1:] - exp[1:]).max()
        ctx.err("about_centre", max(e_c, e_o) / scale)
        mech = self.which + (":" + st["unit"] if "unit" in st else "")
        if e_c > 1e-9 * scale:
            ctx.fail("about_centre_transform_moves_the_centre", cls=cls, mech=mech, err=float(e_c))
        elif e_o > 1e-9 * scale:
            ctx.fail("about_centre_transform_does_not_act_as_the_plain_transform_on_offsets", cls=cls, mech=mech, err=float(e_o))
        if _amax(np.asarray(obj.centre()) - c) > 0:
            ctx.fail("about_centre_builder_moved_the_object", cls=cls)
        ctx.see("about_centre_objects", (self.which, cls, d))


class TcoordsMonitor(taps.Monitor):
    name = "tcoords"

    def __init__(self, inverse):
        self.inverse = inverse

    def pre(self, ctx, args, kw):
        shp = args[0] if args else kw.get("image_shape")
        shp = tuple(int(s) for s in shp)
        if len(shp) != 2 or min(shp) < 2:
            return None
        return {"shape": shp}

    def post(self, ctx, st, args, kw, t, exc):
        if exc is not None:
            ctx.fail("tcoords_transform_raised", cls="tcoords", mech=type(exc).__name__)
            return
        h, w = st["shape"]
        tc = np.array([[0, 0], [1, 0], [0, 1], [1, 1], [0.5, 0.25]], dtype=float)
        ic = np.array([[h - 1, 0], [h - 1, w - 1], [0, 0], [0, w - 1], [(1 - 0.25) * (h - 1), 0.5 * (w - 1)]], dtype=float)
        a, b = (ic, tc) if self.inverse else (tc, ic)
        e = np.abs(np.asarray(t.apply(a)) - b).max()
        ctx.err("tcoords_corners", e)
        if not (e <= 1e-9 * max(h, w)):
            ctx.fail("texture_coordinate_transform_maps_corners_wrongly", cls="image_coords_to_tcoords" if self.inverse else "tcoords_to_image_coords",
                     mech="square" if h == w else "non_square", err=float(e), shape=[h, w])


def setup(ctx):
    R = taps.mod("menpo.transform.homogeneous.rotation").Rotation
    taps.tap(ctx, R, "init_from_2d_ccw_angle", CCWMonitor("2d"))
    for ax in "xyz":
        taps.tap(ctx, R, "init_from_3d_ccw_angle_around_" + ax, CCWMonitor(ax))
    taps.tap(ctx, R, "axis_and_angle_of_rotation", AxisAngleMonitor())
    taps.tap(ctx, R, "init_3d_from_quaternion", QuaternionMonitor())
    n = taps.tap_everywhere(ctx, "menpo.transform.homogeneous.scale", "Scale", ScaleMonitor())
    for fn, which in (("transform_about_centre", "transform"), ("scale_about_centre", "scale"), ("rotate_ccw_about_centre", "rotate"),
                      ("shear_about_centre", "shear")):
        taps.tap_everywhere(ctx, "menpo.transform.compositions", fn, AboutCentreMonitor(which))
    import menpo.shape, menpo.image  # make sure every binding site is imported before enumeration
    taps.tap_everywhere(ctx, "menpo.transform.tcoords", "tcoords_to_image_coords", TcoordsMonitor(False))
    taps.tap_everywhere(ctx, "menpo.transform.tcoords", "image_coords_to_tcoords", TcoordsMonitor(True))


GRID = [-720, -540, -450, -360, -315, -270, -225, -180, -135, -90, -45, -30, -1, 0, 1, 30, 45, 60, 90, 120, 135, 150, 180, 200, 225, 270, 315,
        360, 400, 450, 540, 720]


def quadrant(deg):
    return int(np.floor((deg % 360) / 90.0)), bool(deg < 0), bool(abs(deg) > 360)


def w_rotations(ctx, rng, i):
    import menpo.transform as mt
    R = mt.Rotation
    deg = float(GRID[i % len(GRID)]) if i % 3 else float(rng.uniform(-800, 800))
    degrees = bool((i // 2) % 2)
    theta = deg if degrees else float(np.deg2rad(deg))
    which = ["2d", "x", "y", "z"][(i // 4) % 4]
    if which == "2d":
        r = R.init_from_2d_ccw_angle(theta, degrees=degrees) if rng.random() < 0.7 else R.init_from_2d_ccw_angle(theta, degrees)
    else:
        r = getattr(R, "init_from_3d_ccw_angle_around_" + which)(theta, degrees=degrees)
    r.axis_and_angle_of_rotation()
    # the report on copies / composed rotations as well
    r2 = r.compose_before(r)
    r2.axis_and_angle_of_rotation()
    if which != "2d":
        rr = R(gen.rotation_matrix(rng, 3))
        rr.axis_and_angle_of_rotation()
        q = np.asarray(rr.as_vector())
        R.init_3d_from_quaternion(q)
        from props.c05 import unit_quaternion
        R.init_3d_from_quaternion(unit_quaternion(rng))
        hv = rng.normal(size=3)
        hv /= np.linalg.norm(hv)
        R.init_3d_from_quaternion(np.concatenate([[0.0], hv]) if rng.random() < 0.6 else np.array([[0, 1, 0, 0], [0, 0.6, 0.8, 0], [0, 0, 0, 1.0]][rng.integers(0, 3)]))   # exact half turns
        str(rr)        # the textual description goes through the axis/angle report too
        # rotations about special axes (space diagonals, face diagonals, the coordinate axes): Rodrigues' formula
        ax = np.array([[1, 1, 1], [-1, -1, -1], [1, -1, 1], [1, 1, 0], [0, 1, 1], [1, 0, 0], [0, 0, -1], [1, 1, -1]][rng.integers(0, 8)], dtype=float)
        ax /= np.linalg.norm(ax)
        ang = float(rng.uniform(-np.pi, np.pi)) if rng.random() < 0.7 else float(rng.choice([2 * np.pi / 3, -2 * np.pi / 3, np.pi / 2, np.pi / 3]))
        Kx = np.array([[0, -ax[2], ax[1]], [ax[2], 0, -ax[0]], [-ax[1], ax[0], 0]])
        Rm = np.eye(3) + np.sin(ang) * Kx + (1 - np.cos(ang)) * (Kx @ Kx)
        R(Rm).axis_and_angle_of_rotation()
        # the same matrix as a single-precision array / typed in with a few decimals (orthonormal to that precision only): the
        # object is the rotation it was given - it reports that matrix, its axis and its angle
        for given in (Rm.astype(np.float32), np.round(Rm, int(rng.integers(4, 8)))):
            try:
                rg = R(given)
                ctx.tap("rotation_from_a_limited_precision_matrix", "calls"); ctx.tap("rotation_from_a_limited_precision_matrix", "checked")
                if _amax(np.asarray(rg.rotation_matrix, dtype=float) - np.asarray(given, dtype=float)) > 1e-3:
                    ctx.fail("rotation_constructor_builds_another_rotation_than_the_matrix_it_was_given", cls="Rotation", mech=str(np.asarray(given).dtype), err=_amax(np.asarray(rg.rotation_matrix, dtype=float) - np.asarray(given, dtype=float)))
                rg.axis_and_angle_of_rotation()
            except ValueError:
                ctx.bump("limited_precision_rotation_matrix_refused")
        R(np.array([[0, 0, 1], [1, 0, 0], [0, 1, 0]], dtype=float) if rng.random() < 0.5 else np.array([[0, 1, 0], [0, 0, 1], [1, 0, 0]], dtype=float)).axis_and_angle_of_rotation()
        # quaternion parameters round-trip through any template rotation - also one written with integer entries
        templates = [R(np.eye(3, dtype=int)), R(np.array([[0, -1, 0], [1, 0, 0], [0, 0, 1]])), R(np.array([[0, 0, 1], [1, 0, 0], [0, 1, 0]])), rr, R.init_identity(3)]
        tpl = templates[rng.integers(0, len(templates))]
        qq = unit_quaternion(rng)
        if rng.random() < 0.15:
            # "no rotation" - the scalar-only unit quaternion (exactly, or up to rounding) - is a parameter vector like any other
            qq = np.array([1.0, 0.0, 0.0, 0.0])
            if rng.random() < 0.5:
                qq[1 + rng.integers(0, 3)] = 10.0 ** rng.uniform(-12, -9)
                qq /= np.linalg.norm(qq)
        ctx.tap("quaternion_through_template", "calls"); ctx.tap("quaternion_through_template", "checked")
        try:
            got = tpl.from_vector(qq)
            back = np.asarray(got.as_vector(), dtype=float)
            if _amax(np.asarray(got.rotation_matrix, dtype=float) - quat_to_matrix(qq)) > 1e-9 or _amax(back - qq) > 1e-8:
                ctx.fail("quaternion_does_not_round_trip", cls="Rotation", mech="from_vector_on_a_template_with_%s_matrix" % np.asarray(tpl.h_matrix).dtype.kind, given=qq, got=back)
            else:
                # a second rotation derived from the same template: the first one still reports its own quaternion, and the
                # template is still the rotation it was
                tpl_m = np.array(tpl.h_matrix, dtype=float, copy=True)
                q2 = unit_quaternion(rng)
                got2 = tpl.from_vector(q2)
                back1, back2 = np.asarray(got.as_vector(), dtype=float), np.asarray(got2.as_vector(), dtype=float)
                if _amax(back1 - qq) > 1e-8 or _amax(back2 - q2) > 1e-8:
                    ctx.fail("quaternion_does_not_round_trip", cls="Rotation", mech="after_a_second_rotation_was_derived_from_the_same_template", given=qq, got=back1)
                if _amax(np.asarray(tpl.h_matrix, dtype=float) - tpl_m) > 0:
                    ctx.fail("quaternion_does_not_round_trip", cls="Rotation", mech="deriving_a_rotation_changed_the_template")
        except Exception as e:
            ctx.fail("quaternion_constructor_raised", cls="Rotation", mech="from_vector:" + type(e).__name__)
    else:
        rr = R(gen.rotation_matrix(rng, 2))
        rr.axis_and_angle_of_rotation()
    ctx.count_case(("rotation", which, "degrees" if degrees else "radians", quadrant(deg)), nontrivial=abs(deg % 360) > 1e-9,
                   sample={"constructor": which, "theta": theta, "degrees": degrees} if i < 5 else None)


def w_about_centre(ctx, rng, i):
    import menpo.transform as mt
    d = 2 + (i % 4 == 3)
    kind = i % 5
    if kind == 4:
        obj = gen.image(rng, ["Image", "MaskedImage", "BooleanImage"][rng.integers(0, 3)], shape=tuple(int(v) for v in rng.integers(5, 40, 2)))
        d = 2
    else:
        obj = gen.shape(rng, None, d=d)
        if rng.random() < 0.15:
            # the same shape in a tiny unit (a nanometre-sized structure given in metres), not centred on the origin
            obj.points = np.asarray(obj.points, dtype=float) * 10.0 ** rng.uniform(-10.5, -8.5)
            ctx.bump("shapes_in_a_tiny_unit")
    which = ["transform", "scale", "rotate", "shear"][(i // 5) % 4]
    deg = float(GRID[(i // 20) % len(GRID)]) if i % 2 else float(rng.uniform(-400, 400))
    degrees = bool((i // 3) % 2)
    if which == "transform":
        sub = int(rng.integers(0, 4))
        if sub == 0:
            tr = mt.Rotation(gen.rotation_matrix(rng, d))
        elif sub == 1:
            tr = mt.NonUniformScale(rng.uniform(0.3, 3, d))
        elif sub == 2:
            h = np.eye(d + 1); h[:d, :d] = gen.well_conditioned(rng, d); tr = mt.Affine(h)
        else:
            tr = mt.UniformScale(float(rng.uniform(0.3, 3)), d)
        if rng.random() < 0.2:
            # a genuine homography (a plain Homogeneous with a perspective row), possibly written in another overall scaling
            h = np.eye(d + 1)
            h[:d, :d] = gen.well_conditioned(rng, d, 0.6, 1.6)
            h[d, :d] = rng.uniform(0.002, 0.012, d) * rng.choice([-1.0, 1.0], d)
            tr = mt.Homogeneous(h * [1.0, 1.0, 2.0, -0.5][rng.integers(0, 4)])
        elif rng.random() < 0.3:
            # transforms that are not one homogeneous matrix: a chain (rotation, then per-axis scale), a thin-plate spline
            if d == 2 and rng.random() < 0.4:
                tr, _ = tx.make(rng, "ThinPlateSplines", 2)
            else:
                tr = mt.TransformChain([mt.Rotation(gen.rotation_matrix(rng, d)), mt.NonUniformScale(rng.uniform(0.3, 3, d))])
        mt.transform_about_centre(obj, tr)
        if rng.random() < 0.5:
            # the caller's transform is used again for another object (one shear / similarity applied about the centre of each shape)
            mt.transform_about_centre(gen.shape(rng, None, d=d), tr)
    elif which == "scale":
        if rng.random() < 0.5:
            mt.scale_about_centre(obj, float(rng.uniform(0.2, 4)))
        else:
            mt.scale_about_centre(obj, rng.uniform(0.2, 4, d))      # documented: float or (n_dims,) ndarray
    elif which == "rotate":
        theta = deg if degrees else float(np.deg2rad(deg))
        try:
            if rng.random() < 0.5:
                mt.rotate_ccw_about_centre(obj, theta, degrees=degrees)
            else:
                mt.rotate_ccw_about_centre(obj, theta, degrees)
        except ValueError:
            pass
    else:
        phi, psi = float(rng.uniform(-60, 60)), float(rng.uniform(-60, 60))
        if not degrees:
            phi, psi = np.deg2rad(phi), np.deg2rad(psi)
        try:
            mt.shear_about_centre(obj, phi, psi, degrees=degrees)
        except ValueError:
            pass
    # the image methods use the same builders internally
    if kind == 4 and type(obj).__name__ != "BooleanImage":
        obj.rotate_ccw_about_centre(deg if degrees else float(np.deg2rad(deg)), degrees=degrees, retain_shape=True)
    ctx.count_case(("about_centre", which, type(obj).__name__, d, "degrees" if degrees else "radians"), nontrivial=True,
                   sample={"builder": which, "object": type(obj).__name__, "dims": d} if i < 5 else None)


def w_scale_tcoords(ctx, rng, i):
    import menpo.transform as mt
    import menpo.shape as ms
    from menpo.image import Image
    d = 2 + i % 2
    mode = (i // 2) % 5
    if mode == 0:
        f = np.full(d, float(rng.uniform(0.2, 5)) * rng.choice([-1, 1]))
        mt.Scale(f if rng.random() < 0.5 else list(f))
    elif mode == 1:
        f = rng.uniform(0.2, 5, d) * rng.choice([-1, 1], d)
        f[1] = f[0] * rng.choice([1.5, 0.5, -1.0])
        if d == 3 and rng.random() < 0.6:
            # two equal factors and one different one, in every position
            a_, b_ = f[0], f[0] * rng.choice([1.5, 0.5, -1.0, 1.0 + 1e-6])
            f = np.array([[a_, a_, b_], [a_, b_, a_], [b_, a_, a_]][rng.integers(0, 3)])
        mt.Scale(f if rng.random() < 0.5 else list(f))
    elif mode == 2:
        f = rng.uniform(0.2, 5, d)
        f[rng.integers(0, d)] = 0.0
        try:
            mt.Scale(f)
        except ValueError:
            pass
        try:
            mt.Scale(0.0, n_dims=d)
        except ValueError:
            pass
        # every factor zero (equal factors - and zero all the same)
        try:
            mt.Scale([np.zeros(d), [0] * d, (0.0,) * d, np.zeros(d, dtype=int)][rng.integers(0, 4)])
        except ValueError:
            pass
    elif mode == 3:
        mt.Scale(float(rng.uniform(0.2, 5)), n_dims=d)
        mt.Scale(float(rng.uniform(0.2, 5)), d)
    else:
        shp = (int(rng.integers(2, 200)), int(rng.integers(2, 200)))
        a = mt.tcoords_to_image_coords(shp)
        b = mt.image_coords_to_tcoords(shp)
        x = rng.random((6, 2))
        e = max(tx.maxdiff(b.apply(a.apply(x)), x), tx.maxdiff(a.apply(b.apply(x * 10)), x * 10))
        if not (e <= 1e-9 * max(shp)):
            ctx.fail("texture_coordinate_transforms_are_not_mutual_inverses", cls="tcoords", err=e)
        corners_t = np.array([[0, 0], [1, 0], [0, 1], [1, 1.0]])
        corners_i = np.array([[shp[0] - 1, 0], [shp[0] - 1, shp[1] - 1], [0, 0], [0, shp[1] - 1]], dtype=float)
        if tx.maxdiff(a.apply(corners_t), corners_i) > 1e-9 * max(shp) or tx.maxdiff(b.apply(corners_i), corners_t) > 1e-9:
            ctx.fail("texture_coordinate_transform_maps_corners_wrongly", cls="tcoords", mech="first_request")
        # history: the caller changes the transforms it was handed (they are the caller's own objects); a later request for the
        # same image shape - spelled as a tuple, a list or an array - is not affected
        a.compose_before_inplace(mt.Translation(rng.uniform(0.5, 3, 2)))
        b.compose_after_inplace(mt.UniformScale(float(rng.uniform(1.5, 3)), 2))
        # (... or an array / a tuple of scalars of the unsigned type a file header stores the size in)
        udt = [np.uint16, np.uint8, np.uint32, np.uint64][rng.integers(0, 4)]
        if udt is np.uint8 and max(shp) > 255:
            udt = np.uint16
        shp2 = [tuple(shp), list(shp), np.array(shp), np.array(shp, dtype=udt), tuple(udt(v) for v in shp), np.array(shp, dtype=np.int16)][rng.integers(0, 6)]
        a2, b2 = mt.tcoords_to_image_coords(shp2), mt.image_coords_to_tcoords(shp2)
        ctx.tap("tcoords_requested_again", "calls"); ctx.tap("tcoords_requested_again", "checked")
        if tx.maxdiff(a2.apply(corners_t), corners_i) > 1e-9 * max(shp) or tx.maxdiff(b2.apply(corners_i), corners_t) > 1e-9:
            ctx.fail("texture_coordinate_transform_maps_corners_wrongly", cls="tcoords", mech="requested_again_after_the_caller_changed_an_earlier_result")
        # internal use: textured meshes scale their texture coordinates with the same transform
        tex = Image(rng.random((1,) + shp))
        m = ms.TexturedTriMesh(rng.random((4, 3)), np.array([[0, 0], [1, 0], [0, 1], [1, 1.0]]), tex, trilist=np.array([[0, 1, 2], [1, 2, 3]]))
        px = m.tcoords_pixel_scaled().points
        exp = np.array([[shp[0] - 1, 0], [shp[0] - 1, shp[1] - 1], [0, 0], [0, shp[1] - 1]], dtype=float)
        if _amax(px - exp) > 1e-9 * max(shp):
            ctx.fail("texture_coordinate_transform_maps_corners_wrongly", cls="TexturedTriMesh.tcoords_pixel_scaled", mech="square" if shp[0] == shp[1] else "non_square")
    ctx.count_case(("scale_tcoords", mode, d), nontrivial=True)


WORKLOADS = [Workload("rotations", w_rotations, quick=6000, thorough=400000), Workload("about_centre", w_about_centre, quick=4000, thorough=200000),
             Workload("scale_tcoords", w_scale_tcoords, quick=3000, thorough=200000)]
