"""C18  Features agree on arrays and images and keep annotations attached.

Taps on every exported feature at each binding site judge, whenever a feature is called with an image: same values
as on the raw pixel array, input untouched, masked-or-not kind kept, landmarks and mask carried (unchanged for
size-preserving features, rescaled for size-changing ones), no non-finite output.  The normalisers are compared
with an independent reference (zero mean, requested scale statistic, zero-scale contract, idempotence).
"""
import numpy as np

from vf.tx import amax as _amax

from vf.core import Workload
from vf import taps, gen
from vf.digest import digest, diff, writeable_flags

ID = "C18"
TECHNIQUE = "runtime monitoring: post-condition taps on every exported feature (all binding sites): array-vs-image differential, OLD digests, annotation carry-over, independent normaliser reference"
LEVEL_TEXT = ("Every call of gradient, gaussian_filter, igo, double_igo, es, daisy, no_op and the normalisers - direct, composed, and internal (pyramids, IGO calling gradient) - on Image and MaskedImage "
              "with 1-4 channels, float32/float64, any mask, landmark groups, sizes up to 64, incl. constant images and constant channels, is judged against the raw-array result and a reference; "
              "held-on-what-was-observed")
LEVEL_NOTE = "trusted: the feature's own array path as reference for the image path (the statement's clause), numpy statistics for the normalisers; tolerance 1e-12 (same code path) / 1e-6 float32 statistics"
DESIGN_REF = "DESIGN.md section 7, C18"
RULE = ("feature x image class x mask kind x channels x dtype x size (feature minimum..64, incl. odd sizes) x landmarks; daisy with step 1-4, radius 1-10, rings 1-3, histograms/orientations varied; "
        "normalisers x mode x zero-scale handling on constant images / constant channels; compositions of two features; non-trivial = image carries landmarks or a non-trivial mask, or the scale is zero; "
        "distinct = (feature, class, mask kind, channels, dtype, options)")
ASSUMPTIONS = ["the generic normalize on a sparsely masked image uses the masked pixels only (documented); array-vs-image is judged for it on Image and all-true masks",
               "optional features needing absent dependencies (dsift, hog, lbp via cyvlfeat etc.) are not present in this environment"]
DECIDING_TAPS = ["feature:gradient", "feature:daisy", "feature:normalize"]
REPLAY_PATHS = ['menpo/feature/test', 'menpo/image/test']      # suite replay (thorough tier): the repository's own tests under these monitors
SHARDS = {"quick": 8, "thorough": 16}

SAME_SIZE = {"gradient", "gaussian_filter", "igo", "es", "no_op", "normalize", "normalize_norm", "normalize_std", "normalize_var", "sum_channels"}


def is_image(x):
    try:
        from menpo.image import Image
        return isinstance(x, Image) and taps.is_menpo(x)
    except Exception:
        return False


class FeatureMonitor(taps.Monitor):
    def __init__(self, fname, orig):
        self.fname = fname
        self.name = "feature:" + fname
        self.orig = orig

    def pre(self, ctx, args, kw):
        x = args[0] if args else None
        if isinstance(x, np.ndarray):
            if x.dtype.kind == "f" and not np.isfinite(x).all():
                # missing values in the data (depth maps, masked-out regions): what the feature computes from them is not judged,
                # that it leaves its input alone is
                return {"kind": "nonfinite", "x": x.copy(), "d": None}
            if x.dtype.kind != "f":
                return None
            return {"kind": "array", "x": x.copy(), "argd": digest([list(args[1:]), dict(kw)]), "w": bool(x.flags.writeable)}
        if is_image(x) and x.pixels.dtype.kind == "f" and not np.isfinite(x.pixels).all():
            return {"kind": "nonfinite", "x": x.pixels.copy(), "d": digest(x)}
        if not is_image(x) or x.pixels.dtype.kind != "f":
            return None
        from menpo.image import BooleanImage
        if isinstance(x, BooleanImage):
            return None
        import copy
        return {"kind": "image", "d": digest(x), "px": x.pixels.copy(), "rest": copy.deepcopy(args[1:]), "kw": copy.deepcopy(dict(kw)),
                "argd": digest([list(args[1:]), dict(kw)]), "w": writeable_flags(x)}

    def post(self, ctx, st, args, kw, r, exc):
        import menpo.image as mi
        x = args[0]
        f = self.fname
        if st["kind"] == "nonfinite":
            now = x if isinstance(x, np.ndarray) else x.pixels
            ctx.tap("input_with_missing_values_left_alone", "calls"); ctx.tap("input_with_missing_values_left_alone", "checked")
            if now.shape != st["x"].shape or not np.array_equal(now, st["x"], equal_nan=True) or (st["d"] is not None and digest(x) != st["d"]):
                ctx.fail("feature_modified_its_input_array" if isinstance(x, np.ndarray) else "feature_modified_its_input_image", cls=f, mech="input_with_missing_values")
            return
        if digest([list(args[1:]), dict(kw)]) != st["argd"]:
            ctx.fail("feature_modified_one_of_its_arguments", cls=f, mech=",".join(sorted(kw)) or "positional")
        how = "after_success" if exc is None else "after_" + type(exc).__name__
        if st["kind"] == "array":
            if not np.array_equal(x, st["x"]):
                ctx.fail("feature_modified_its_input_array", cls=f)
            if bool(x.flags.writeable) != st["w"]:
                ctx.fail("feature_changed_the_writeability_of_its_input", cls=f, mech="array:" + how)
            if exc is None and isinstance(r, np.ndarray) and not np.isfinite(r).all():
                ctx.fail("feature_produced_non_finite_values", cls=f, mech="array")
            return
        cls = type(x).__name__
        masked = isinstance(x, mi.MaskedImage)
        mkind = "unmasked" if not masked else ("all_true" if x.mask.all_true() else "sparse")
        if digest(x) != st["d"]:
            ctx.fail("feature_modified_its_input_image", cls=f, mech=cls)
        if writeable_flags(x) != st["w"]:
            ctx.fail("feature_changed_the_writeability_of_its_input", cls=f, mech=cls + ":" + how)
        # the raw-array evaluation (reference evaluations run on a private copy)
        a_exc, a_res = None, None
        try:
            a_res = self.orig(st["px"].copy(), *st["rest"], **st["kw"])
        except Exception as e:
            a_exc = e
        if exc is not None:
            if a_exc is None and not (f == "normalize" and mkind == "sparse"):
                ctx.fail("feature_raised_on_the_image_but_not_on_its_array", cls=f, mech=cls + ":" + mkind + ":" + type(exc).__name__, error=repr(exc)[:200],
                         shape=list(st["px"].shape), options={k: v for k, v in st["kw"].items()})
            return
        if a_exc is not None and not (f == "normalize" and mkind == "sparse"):
            ctx.fail("feature_raised_on_the_array_but_not_on_the_image", cls=f, mech=cls + ":" + type(a_exc).__name__)
            return
        if not is_image(r):
            ctx.fail("feature_of_an_image_is_not_an_image", cls=f, mech=cls)
            return
        if isinstance(r, mi.MaskedImage) != masked:
            ctx.fail("feature_changed_the_masked_or_not_kind", cls=f, mech=cls + "->" + type(r).__name__)
        if not np.isfinite(r.pixels).all():
            ctx.fail("feature_produced_non_finite_values", cls=f, mech=cls)
        if not (f == "normalize" and mkind == "sparse"):
            a = np.asarray(a_res)
            if a.shape != r.pixels.shape:
                ctx.fail("feature_values_differ_between_array_and_image", cls=f, mech=cls + ":shape")
            else:
                e = float(np.abs(a - r.pixels).max()) if a.size else 0.0
                ctx.err("array_vs_image:" + f, e)
                if not (e <= 1e-12 * max(1.0, float(np.abs(a).max()) if a.size else 1.0)):
                    ctx.fail("feature_values_differ_between_array_and_image", cls=f, mech=cls + ":" + mkind, err=e)
        # annotations
        old_shape, new_shape = np.array(x.shape), np.array(r.shape)
        same = bool((old_shape == new_shape).all())
        if f in SAME_SIZE and not same:
            ctx.fail("size_preserving_feature_changed_the_size", cls=f)
        # (the group names are read off the managers themselves, not through the has_landmarks shortcut)
        xk_, rk_ = list(x.landmarks.keys()), list(r.landmarks.keys())
        if rk_ != xk_:
            ctx.fail("feature_lost_landmark_groups", cls=f, mech=cls, before=xk_, after=rk_)
        elif xk_:
            for k in x.landmarks:
                o, n = x.landmarks[k], r.landmarks[k]
                if same:
                    why = diff(o, n)
                    if why:
                        ctx.fail("feature_changed_the_landmarks", cls=f, mech=cls, why=why)
                        break
                else:
                    if type(o) is not type(n):
                        ctx.fail("feature_changed_a_landmark_class", cls=f)
                        break
                    exp = o.points * (new_shape / old_shape)
                    if n.points.shape != exp.shape or (exp.size and _amax(n.points - exp) > 1e-9 * max(1.0, np.abs(exp).max())):
                        ctx.fail("landmarks_not_rescaled_to_the_new_size", cls=f, mech=cls, old_shape=old_shape, new_shape=new_shape)
                        break
        if masked and isinstance(r, mi.MaskedImage):
            if same:
                if not np.array_equal(r.mask.pixels, x.mask.pixels):
                    ctx.fail("feature_changed_the_mask", cls=f)
            elif tuple(r.mask.shape) != tuple(new_shape):
                ctx.fail("mask_does_not_have_the_new_size", cls=f)
            else:
                # rescaled, not replaced: where the source mask is uniform around the place an output pixel comes from, the output
                # pixel has that value (a uniform source mask gives the same uniform mask)
                ctx.tap("rescaled_mask_content", "calls"); ctx.tap("rescaled_mask_content", "checked")
                om, nm = np.asarray(x.mask.pixels[0], dtype=bool), np.asarray(r.mask.pixels[0], dtype=bool)
                ratio = old_shape / new_shape
                w = np.ceil(ratio).astype(int) + 1
                bad = 0
                idx = np.argwhere(np.ones(nm.shape, dtype=bool))
                if len(idx) > 400:
                    idx = idx[np.random.default_rng(2).choice(len(idx), 400, replace=False)]
                for j in idx:
                    c = (j + 0.5) * ratio - 0.5
                    sl = tuple(slice(max(0, int(np.floor(c[k])) - w[k]), min(om.shape[k], int(np.ceil(c[k])) + w[k] + 1)) for k in range(len(c)))
                    nb = om[sl]
                    if nb.size and ((nb.all() and not nm[tuple(j)]) or (not nb.any() and nm[tuple(j)])):
                        bad += 1
                if bad:
                    ctx.fail("mask_not_rescaled_with_the_image", cls=f, mech="all_false_source" if not om.any() else "all_true_source" if om.all() else "mixed_source", n_bad=bad)
        ctx.see("feature_events", (f, cls, mkind, int(x.n_channels), str(x.pixels.dtype), same))


def setup(ctx):
    F = taps.mod("menpo.feature.features")
    import menpo.feature, menpo.image, menpo.shape   # binding sites
    import sys
    for name in ("gradient", "gaussian_filter", "igo", "es", "daisy", "no_op", "normalize", "normalize_norm", "normalize_std", "normalize_var"):
        orig = getattr(F, name)
        taps.tap_everywhere(ctx, "menpo.feature.features", name, FeatureMonitor(name, orig))
    # the visualisation feature exported next to them (an image feature like the others)
    V = taps.mod("menpo.feature.visualize")
    taps.tap_everywhere(ctx, "menpo.feature.visualize", "sum_channels", FeatureMonitor("sum_channels", V.sum_channels))
    # double_igo is a functools.partial bound to the original igo: rebind it to the tapped one
    from menpo.base import partial_doc
    P = taps.mod("menpo.feature.predefined")
    P.double_igo = partial_doc(F.igo, double_angles=True)
    sys.modules["menpo.feature"].double_igo = P.double_igo


# ------------------------------------------------------------------------------------- workloads
def make_image(rng, cls, shp, C, dtype, mask_kind, constant=None):
    import menpo.image as mi
    px = rng.random((C,) + shp).astype(dtype) * 3 + 0.2
    if constant == "all":
        px[...] = dtype(1.75) if dtype is np.float32 else 1.75
    elif constant == "zero":
        px[...] = 0
    elif constant == "channel":
        px[rng.integers(0, C)] = 2.5
    im = mi.Image(px) if cls == "Image" else mi.MaskedImage(px, mask=gen.mask(rng, shp, mask_kind))
    if rng.random() < 0.08:
        # template groups that hold no point yet: groups all the same (the result still carries them, under their names)
        import menpo.shape as _ms18b
        for g in range(int(rng.integers(1, 3))):
            im.landmarks["empty%d" % g] = _ms18b.PointCloud(np.zeros((0, len(shp))))
        return im
    for g in range(int(rng.integers(0, 3))):
        s = gen.shape(rng, None, d=len(shp), n=int(rng.integers(3, 7)))
        s.points = rng.uniform(0, 1, s.points.shape) * (np.array(shp) - 1)
        if rng.random() < 0.25:
            # pixel positions kept as whole numbers (integer-typed landmarks are ordinary landmarks)
            s.points = np.round(s.points).astype([np.int64, np.uint16, np.int32][rng.integers(0, 3)])
        if rng.random() < 0.25:
            # an annotated group (an outline with a few named corners of its own)
            import menpo.shape as _ms18
            s.landmarks["corners"] = _ms18.PointCloud(np.asarray(s.points[:2], dtype=float).copy())
        im.landmarks["g%d" % g] = s
    return im


FEATS = ["gradient", "gaussian_filter", "igo", "double_igo", "es", "no_op", "daisy", "daisy", "compose", "sum_channels"]


class PixelBuffer(np.ndarray):
    """A user's own ndarray subclass (what np.memmap / np.recarray are to numpy): holds pixels like any array."""


def w_features(ctx, rng, i):
    import menpo.feature as mf
    cls = ["Image", "MaskedImage"][i % 2]
    fname = FEATS[(i // 2) % len(FEATS)]
    mk = ["all", "random", "halfplane", "block", "single", "none"][(i // 18) % 6]
    if mk == "none" and fname == "compose":
        mk = "block"          # (statistics of no pixels at all are outside the normalisers' quantifier)
    C = int(rng.integers(1, 5))
    dtype = [np.float64, np.float32][(i // 90) % 2 if rng.random() < 0.5 else 0]
    opts = {}
    if fname == "daisy":
        step, radius, rings = int(rng.integers(1, 5)), int(rng.integers(1, 11)), int(rng.integers(1, 4))
        lo = 2 * radius + 2
        shp = (int(rng.integers(lo, max(lo + 1, 49))), int(rng.integers(lo, max(lo + 1, 49))))
        opts = {"step": step, "radius": radius, "rings": rings}
        if rng.random() < 0.3:
            opts.update({"histograms": int(rng.integers(1, 4)), "orientations": int(rng.integers(2, 9))})
        if rng.random() < 0.3:
            opts["normalization"] = ["l1", "l2", "daisy", "off"][rng.integers(0, 4)]
        if rng.random() < 0.3:
            # explicit ring geometry (option lists are reused for the array call below, as a user's settings dict would be)
            rr = sorted(set(int(v) for v in rng.integers(1, radius + 1, rings)))
            rings = len(rr)
            opts = {"step": step, "ring_radii": rr, "sigmas": [float(v) for v in rng.uniform(0.5, 2.5, rings + 1)]}
            radius = int(np.ceil(rr[-1]))
        C = int(rng.integers(1, 3))
        dtype = np.float64
    else:
        shp = (int(rng.integers(3, 65)), int(rng.integers(3, 65)))
    if fname in ("gradient", "gaussian_filter", "no_op") and rng.random() < 0.25:
        shp = tuple(int(v) for v in rng.integers(3, 12, 3))      # these features are n-dimensional
    im = make_image(rng, cls, shp, C, dtype, mk)
    if fname == "sum_channels" and rng.random() < 0.7:
        opts = {"channels": sorted(int(c_) for c_ in rng.choice(C, int(rng.integers(1, C + 1)), replace=False))}
        if rng.random() < 0.3:
            opts["channels"] = opts["channels"][::-1]
    if rng.random() < 0.08 and fname in ("gradient", "gaussian_filter", "igo", "double_igo", "es", "no_op", "compose"):
        # a few missing values in the data (a depth map with holes)
        im.pixels[rng.random(im.pixels.shape) < 0.05] = np.nan
        import warnings as _w
        with _w.catch_warnings():
            _w.simplefilter("ignore")
            for fn_ in (mf.es, mf.igo, mf.gradient, mf.no_op, lambda z: mf.gaussian_filter(z, 1.0)):
                for arg_ in (im, im.pixels):
                    try:
                        fn_(arg_)
                    except Exception:
                        pass
        ctx.count_case((fname, cls, "missing_values"), nontrivial=True)
        return
    if fname == "gaussian_filter":
        opts = {"sigma": float(rng.uniform(0.3, 3.0))}
        r = mf.gaussian_filter(im, opts["sigma"]) if rng.random() < 0.5 else mf.gaussian_filter(im, sigma=opts["sigma"])
    elif fname == "compose":
        f1 = [mf.no_op, mf.gradient, mf.igo, mf.es, lambda z: mf.gaussian_filter(z, 1.0), mf.normalize_std][rng.integers(0, 6)]
        f2 = [mf.gradient, mf.igo, mf.double_igo, mf.es, mf.no_op, mf.normalize_norm][rng.integers(0, 6)]
        r = f2(f1(im))
    else:
        r = getattr(mf, fname)(im, **opts)
    # the result is the caller's: a later call of the same feature on other data of the same size does not touch it
    if fname not in ("compose",) and rng.random() < 0.5:
        rd_ = digest(r)
        other_ = make_image(rng, cls, shp, C, dtype, mk)
        if fname == "gaussian_filter":
            mf.gaussian_filter(other_, opts["sigma"]); mf.gaussian_filter(other_.pixels, opts["sigma"])
        else:
            getattr(mf, fname)(other_, **opts); getattr(mf, fname)(other_.pixels, **opts)
        ctx.tap("earlier_result_untouched_by_a_later_call", "calls"); ctx.tap("earlier_result_untouched_by_a_later_call", "checked")
        if digest(r) != rd_:
            ctx.fail("feature_result_changed_by_a_later_call_on_other_data", cls=fname, mech=cls)
    # the array route, on the same data, leaves the array alone as well (judged by the tap)
    if fname not in ("compose",):
        arr_ = im.pixels
        if rng.random() < 0.3:
            # the raw array as an instance of an ndarray subclass (a memory-mapped file, a record-array view, a user's own class):
            # an array like any other
            arr_ = im.pixels.view(PixelBuffer) if rng.random() < 0.6 else im.pixels.view(np.recarray)
            ctx.bump("raw_arrays_of_an_ndarray_subclass")
        (getattr(mf, fname)(arr_, *( [opts["sigma"]] if fname == "gaussian_filter" else []), **({} if fname == "gaussian_filter" else opts)))
    # internal use: the Gaussian pyramid calls gaussian_filter on images
    if i % 23 == 0 and len(shp) == 2:
        list(im.gaussian_pyramid(n_levels=2, downscale=2))
    ctx.count_case((fname, cls, mk if cls == "MaskedImage" else "-", C, np.dtype(dtype).name, str(sorted(opts))), nontrivial=im.has_landmarks or (cls == "MaskedImage" and mk != "all"),
                   sample={"feature": fname, "cls": cls, "mask": mk, "shape": list(shp), "channels": C, "options": opts} if i < 6 else None)


def stat(name, x, axis=None):
    if name == "normalize_std":
        return np.std(x, axis=axis)
    if name == "normalize_var":
        return np.var(x, axis=axis)
    if name == "normalize_norm":
        return np.linalg.norm(x, axis=axis) if axis is not None else np.linalg.norm(x)
    return np.array(1.0) if axis is None else np.ones(x.shape[0])


def w_normalisers(ctx, rng, i):
    import menpo.feature as mf
    import menpo.image as mi
    cls = ["Image", "MaskedImage", "array"][i % 3]
    fname = ["normalize_std", "normalize_norm", "normalize_var", "normalize"][(i // 3) % 4]
    mode = ["all", "per_channel"][(i // 12) % 2]
    const = [None, None, "channel", "all", "zero"][(i // 24) % 5]
    err = bool((i // 120) % 2 == 0)
    mk = ["all", "random", "block"][rng.integers(0, 3)]
    C = int(rng.integers(1, 5))
    dtype = [np.float64, np.float32][rng.integers(0, 2) if rng.random() < 0.3 else 0]
    shp = (int(rng.integers(2, 30)), int(rng.integers(2, 30)))
    if rng.random() < 0.25:
        shp = tuple(int(v) for v in rng.integers(2, 9, 3))        # the normalisers are documented for (C, X, Y, ..., Z) data
    im = make_image(rng, "MaskedImage" if cls == "MaskedImage" else "Image", shp, C, dtype, mk, constant=const)
    faint = None
    if dtype == np.float64 and const is None and rng.random() < 0.5:
        # any overall intensity: faint (1e-6) to very bright (1e4) images, or one faint channel next to ordinary ones
        faint = 10.0 ** rng.uniform(-6, 4)
        if rng.random() < 0.5 or C == 1:
            im.pixels *= faint
        else:
            im.pixels[rng.integers(0, C)] *= 10.0 ** rng.uniform(-6, -3)
    x = im.pixels if cls == "array" else im
    if cls == "array" and rng.random() < 0.25:
        x = im.pixels.view(PixelBuffer)
    flat2d = None
    if cls == "array" and C == 1 and len(shp) == 2 and rng.random() < 0.4:
        # a single-channel picture handed over without its channel axis (accepted: "2D, implicitly one channel"): the caller's
        # array is the caller's - same numbers, same shape afterwards
        x = np.array(im.pixels[0], copy=True)
        flat2d = (x.shape, x.copy())
    f = getattr(mf, fname)
    # (the flag in any of the spellings a caller's own computation yields: a Python bool, a numpy bool, 0 / 1)
    err_arg = [err, err, np.bool_(err), int(err)][rng.integers(0, 4)]
    kwargs = {"mode": mode, "error_on_divide_by_zero": err_arg}
    custom = None
    if fname == "normalize":
        which = int(rng.integers(0, 5))
        # (documented: the statistic "expects a single parameter and an optional axis keyword": overall statistics may be plain
        # one-argument functions)
        custom = [None, lambda p, axis=None: np.std(p, axis=axis), lambda p, axis=None: (np.zeros(p.shape[0]) if axis is not None else np.array(0.0)),
                  (lambda p: np.array([np.abs(p).max()])) if mode == "all" else (lambda p, axis=None: np.abs(p).max(axis=axis)),
                  (lambda p: np.array([np.median(np.abs(p))])) if mode == "all" else (lambda p, axis=None: np.median(np.abs(p), axis=axis))][which]
        kwargs["scale_func"] = custom
    # ---- reference
    data = im.pixels.reshape(C, -1).astype(np.float64)
    if fname == "normalize" and cls == "MaskedImage":
        data = im.pixels[:, im.mask.mask].astype(np.float64)       # documented: statistics of the masked pixels
    if mode == "all":
        centred = data - data.mean()
        if fname == "normalize":
            s = np.array(1.0) if custom is None else np.asarray(custom(centred))
        else:
            s = stat(fname, centred)
        zero = np.atleast_1d(s == 0).ravel()
        s = np.broadcast_to(np.atleast_1d(s).reshape(-1)[:1], (C,))
        zero = np.broadcast_to(zero[:1], (C,))
    else:
        centred = data - data.mean(axis=1, keepdims=True)
        if fname == "normalize":
            s = np.ones(C) if custom is None else np.asarray(custom(centred, axis=1)).reshape(-1)
        else:
            s = stat(fname, centred, axis=1)
        zero = s == 0
    exc, r = None, None
    try:
        if rng.random() < 0.4:
            # the options given positionally, in the documented order
            r = f(x, custom, mode, err_arg) if fname == "normalize" else f(x, mode, err_arg)
            ctx.bump("normaliser_options_given_positionally")
        else:
            r = f(x, **kwargs)
    except Exception as e:
        exc = e
    if flat2d is not None:
        ctx.tap("array_without_a_channel_axis", "calls"); ctx.tap("array_without_a_channel_axis", "checked")
        if x.shape != flat2d[0] or not np.array_equal(x, flat2d[1], equal_nan=True):
            ctx.fail("feature_modified_its_input_array", cls=fname, mech="array_without_a_channel_axis:" + ("shape" if x.shape != flat2d[0] else "values"), before=list(flat2d[0]), after=list(x.shape))
    tol = 1e-9 if dtype == np.float64 else 2e-4
    key = "%s:%s:%s" % (fname, mode, cls)
    ctx.tap("normaliser_reference", "calls"); ctx.tap("normaliser_reference", "checked")
    # float32 statistics: "exactly zero" is decided by the library in float32 - only judge clear cases
    clear = (dtype == np.float64) or const in ("all", "zero", None)
    if zero.any() and err:
        if clear and not isinstance(exc, ValueError):
            ctx.fail("zero_scale_not_refused", cls=key, mech="accepted" if exc is None else type(exc).__name__)
    elif exc is not None:
        if clear:
            ctx.fail("normaliser_raised", cls=key, mech=("zero_scale:" if zero.any() else "") + type(exc).__name__, error=repr(exc)[:200])
    else:
        out = np.asarray(r if cls == "array" else r.pixels)
        if not np.isfinite(out).all():
            ctx.fail("normaliser_produced_non_finite_values", cls=key, mech="zero_scale" if zero.any() else "")
        elif clear:
            o = out.reshape(C, -1).astype(np.float64) if not (fname == "normalize" and cls == "MaskedImage") else out[:, im.mask.mask].astype(np.float64)
            exp = centred.copy()
            nz = ~zero
            exp[nz] = centred[nz] / np.asarray(s, dtype=float)[nz][:, None]
            scale = max(1.0, float(np.abs(exp).max()))
            e = float(np.abs(o - exp).max())
            ctx.err("normaliser_vs_reference:" + np.dtype(dtype).name, e / scale)
            if not (e <= tol * scale):
                ctx.fail("normalised_values_differ_from_zero_mean_over_scale", cls=key, mech=("zero_scale_skipped" if zero.any() else "regular"), err=e)
            # idempotence for std / norm
            if fname in ("normalize_std", "normalize_norm") and not zero.any():
                again = f(r, **kwargs)
                a = np.asarray(again if cls == "array" else again.pixels)
                if _amax(a - out) > max(tol, 1e-7) * scale * 10:
                    ctx.fail("second_application_changes_the_result", cls=key)
    ctx.count_case(("normaliser", fname, mode, cls, const, err, np.dtype(dtype).name, faint is not None, len(shp)), nontrivial=True,
                   sample={"feature": fname, "mode": mode, "input": cls, "constant": const, "error_on_divide_by_zero": err} if i < 6 else None)


WORKLOADS = [Workload("features", w_features, quick=3600, thorough=60000), Workload("normalisers", w_normalisers, quick=1440, thorough=60000)]
