"""C11  Incremental model updates equal the batch model on the concatenated data.

Taps on PCAVectorModel.increment (conservation of the sample count, chunk log, comparison of the updated model with
an independent SVD of everything it has been fed) and on GMRFVectorModel.__init__/_increment (vf/gmrfmon.py: model
state vs reference assembly on the concatenated data).  Workload: every composition of n (n <= 7) into an initial
batch plus increments, random compositions for larger n, and pairs of different splittings of the same data.
"""
import itertools

import numpy as np

from vf.tx import amax as _amax

from vf.core import Workload
from vf import taps, gen, gmrfmon

ID = "C11"
TECHNIQUE = "runtime monitoring: conservation + shadow-data taps on increment; batch reference (SVD / reference assembly on the concatenated data); split-vs-split differential"
LEVEL_TEXT = ("Every increment of a PCA or GMRF model is judged at the call: sample count conserved, and the updated model equal (mean, eigenvalues, principal projector / precision) to a batch "
              "computation on all data fed so far - for every composition of up to 7 samples into batch + increments, random compositions up to 60 samples, centred/uncentred PCA above and "
              "below n = d, every GMRF graph type, both modes, sparse/dense, both bias conventions; held-on-what-was-observed")
LEVEL_NOTE = "trusted: numpy SVD and the reference assembly; tolerances: mean 1e-9, eigenvalues 1e-7 relative, projector 1e-6, precision 1e-7 (float64) / 5e-4 (float32 running moments)"
DESIGN_REF = "DESIGN.md section 7, C11"
RULE = ("PCA: every composition of n in 3..7 into an initial batch (>=2) + increments (exhaustive workload), random compositions of 8..60 samples, d on both sides of n, centred/uncentred, data with exactly-zero "
        "feature columns or zero-mean first batch included; GMRF: edgeless/chain/cycle/tree/random/directed graphs x modes x storage x bias x 1-3 features per vertex; non-trivial = >=1 increment; "
        "distinct = (model, composition or its length bucket, centred/graph kind, options)")
ASSUMPTIONS = ["no forgetting (forgetting_factor = 1)", "PCA spectra are well separated; comparison is on the projector onto the principal subspace, not on individual signs"]
DECIDING_TAPS = ["PCA.increment", "GMRF._increment"]
REPLAY_PATHS = ['menpo/model/test']      # suite replay (thorough tier): the repository's own tests under these monitors
SHARDS = {"quick": 8, "thorough": 16}

PDATA = {}     # id(model) -> (model, [chunks], centred)


def batch_reference(X, centre):
    n = X.shape[0]
    m = X.mean(0) if centre else np.zeros(X.shape[1])
    u, s, vt = np.linalg.svd(X - m, full_matrices=False)
    lam = s ** 2 / (n - 1)
    keep = lam > lam.max() * 1e-9
    return m, lam[keep], vt[keep]


class PCACtor(taps.Monitor):
    name = "PCA.__init__"

    def pre(self, ctx, args, kw):
        samples = args[1] if len(args) > 1 else kw.get("samples")
        centre = args[2] if len(args) > 2 else kw.get("centre", True)
        try:
            X = np.array(samples, dtype=np.float64, copy=True)
        except Exception:
            return None
        if X.ndim != 2:
            return None
        ns = args[3] if len(args) > 3 else kw.get("n_samples")
        if ns is not None and isinstance(samples, np.ndarray) and ns != len(X):
            return None       # (n_samples is documented for iterators / sequences of samples; a ready-made matrix is taken whole)
        return {"X": X if ns is None else X[:ns], "centre": bool(centre)}

    def post(self, ctx, st, args, kw, r, exc):
        if exc is None:
            m = args[0]
            if m.n_samples != len(st["X"]):
                ctx.fail("sample_count_not_conserved", cls=type(m).__name__, mech="pca:constructor", before=0, chunk=int(len(st["X"])), after=int(m.n_samples))
            PDATA[id(m)] = (m, [st["X"]], st["centre"])


class PCAIncrement(taps.Monitor):
    name = "PCA.increment"

    def pre(self, ctx, args, kw):
        from menpo.model.pca import PCAVectorModel
        m = args[0]
        if id(m) not in PDATA or type(m) is not PCAVectorModel:
            return None
        data = args[1] if len(args) > 1 else kw.get("data")
        ff = kw.get("forgetting_factor", args[3] if len(args) > 3 else 1.0)
        if ff != 1.0:
            return None
        ns = args[2] if len(args) > 2 else kw.get("n_samples")
        chunk = np.array(data, dtype=np.float64, copy=True)
        if chunk.ndim != 2 or chunk.shape[1] != m.n_features or not np.isfinite(chunk).all():
            return None          # (not a chunk of this model's data: refused by the model - the workload checks that it then is as it was)
        if ns is not None and isinstance(data, np.ndarray) and ns != len(chunk):
            PDATA.pop(id(m), None)
            return None
        return {"chunk": chunk if ns is None else chunk[:ns], "n": m.n_samples}

    def post(self, ctx, st, args, kw, r, exc):
        m = args[0]
        cls = type(m).__name__
        if exc is not None:
            ctx.fail("pca_increment_raised", cls=cls, mech=type(exc).__name__, error=repr(exc)[:200])
            return
        rec = PDATA[id(m)]
        rec[1].append(st["chunk"])
        centre = rec[2]
        ctx.see("pca_chunk_sizes", int(len(st["chunk"])))
        if m.n_samples != st["n"] + len(st["chunk"]):
            ctx.fail("sample_count_not_conserved", cls=cls, mech="pca", before=int(st["n"]), chunk=int(len(st["chunk"])), after=int(m.n_samples))
        X = np.vstack(rec[1])
        mean, lam, V = batch_reference(X, centre)
        scale = max(1e-300, float(np.abs(X).max()))          # relative to the data, whatever their unit
        mech = ("centred" if centre else "uncentred") + (":n<=d" if X.shape[0] <= X.shape[1] else ":n>d")
        e = float(np.abs(m._mean - mean).max())
        if not (e <= 1e-9 * scale):
            zero_col = bool(centre and (np.abs(np.vstack(rec[1][:-1]).mean(0)) == 0).any())
            ctx.fail("incremental_mean_differs_from_batch_mean", cls=cls, mech=mech + (":mean_has_exact_zero" if zero_col else ""), err=e)
        g = m._components @ m._components.T
        eo = float(np.abs(g - np.eye(len(g))).max())
        ctx.err("pca_incremental_orthonormality", eo)
        if not (eo <= 1e-6):
            ctx.fail("incremental_components_are_not_orthonormal", cls=cls, mech=mech, err=eo)
        if m.n_components != len(lam):
            # components below the numerical threshold may legitimately differ at the edge of the spectrum
            if abs(m.n_components - len(lam)) > 0 and (len(lam) == 0 or min(m._eigenvalues.min(), lam.min()) > 1e-7 * lam.max()):
                ctx.fail("incremental_number_of_components_differs_from_batch", cls=cls, mech=mech, got=int(m.n_components), expected=int(len(lam)))
                return
            # ... but the leading, numerically meaningful part of the spectrum is still the batch one
            k = int(np.sum(lam > 1e-6 * lam[0]))
            if m.n_components < k:
                ctx.fail("incremental_number_of_components_differs_from_batch", cls=cls, mech=mech + ":leading_part", got=int(m.n_components), expected=int(len(lam)))
            elif k:
                e = float(np.abs(m._eigenvalues[:k] - lam[:k]).max() / lam[0])
                if not (e <= 1e-7):
                    ctx.fail("incremental_eigenvalues_differ_from_batch", cls=cls, mech=mech + ":leading_part", err=e)
            return
        e = float(np.abs(m._eigenvalues - lam).max() / lam[0])
        ctx.err("pca_eigenvalues_vs_batch", e)
        if not (e <= 1e-7):
            ctx.fail("incremental_eigenvalues_differ_from_batch", cls=cls, mech=mech, err=e)
        P1 = m._components.T @ m._components
        P2 = V.T @ V
        e = float(np.abs(P1 - P2).max())
        ctx.err("pca_projector_vs_batch", e)
        if not (e <= 1e-6):
            ctx.fail("incremental_principal_subspace_differs_from_batch", cls=cls, mech=mech, err=e)


def replay_case_begin():
    PDATA.clear()
    gmrfmon.clear()


def setup(ctx):
    P = taps.mod("menpo.model.pca")
    taps.tap(ctx, P.PCAVectorModel, "__init__", PCACtor())
    taps.tap(ctx, P.PCAVectorModel, "increment", PCAIncrement())
    gmrfmon.install(ctx)


def compositions(n, first_min=2):
    """All ways of cutting n samples into an initial batch (>= first_min) plus >=1 increments (each >= 1)."""
    out = []
    for first in range(first_min, n):
        rest = n - first
        for k in range(1, rest + 1):
            for cuts in itertools.combinations(range(1, rest), k - 1):
                parts = [b - a for a, b in zip((0,) + cuts, cuts + (rest,))]
                out.append([first] + parts)
    return out


ALL_COMPS = [c for n in range(3, 8) for c in compositions(n)]     # 1 + 3 + 7 + 15 + 31 ... per n


def pca_data(rng, n, d, kind):
    X = rng.normal(size=(n, d)) * rng.uniform(0.5, 3.0, d) * np.linspace(1.0, 2.5, d) + rng.normal(size=d) * 2
    if kind == "integer_samples":
        X = np.round(X * 40.0)           # counts / pixel sums: integer-valued (handed over as integer arrays by run_pca)
    if kind == "large_values":
        X = X * 10.0 ** rng.uniform(5, 10)                 # raw sensor / pixel-sum magnitudes (menpo's documented cut-off is an absolute 1e-10)
    if kind == "small_values":
        X = X * 10.0 ** rng.uniform(-9, -3)                # the same data in a small unit (metres for micrometre-sized things): every cut-off is relative
    if kind in ("far_offset", "single_precision_increments"):
        # map coordinates / timestamps: the offset from the origin is orders of magnitude larger than the spread
        X = X + 10.0 ** rng.uniform(4, 6.8) * rng.choice([-1.0, 1.0], d) * rng.uniform(0.3, 1.0, d)
    if kind == "zero_column":
        X[:, rng.integers(0, d)] = 0.0                     # a feature that is identically zero (masked / padded pixel)
    elif kind == "zero_mean_first_batch":
        pass
    return X


def run_pca(ctx, rng, comp, d, centre, kind):
    from menpo.model import PCAVectorModel
    n = sum(comp)
    if kind in ("far_offset", "single_precision_increments") and not centre:
        # (an uncentred model of data far from the origin is all offset: its one huge eigenvalue puts every other one below the
        # documented relative cut-off - nothing of the spread is left to compare)
        kind = "plain"
    X = pca_data(rng, n, d, kind)
    if kind == "zero_mean_first_batch" and comp[0] % 2 == 0:
        h = comp[0] // 2
        X[h:comp[0]] = -X[:h]                              # first batch with an exactly zero mean
    PDATA.clear()
    cuts = np.cumsum([0] + comp)
    chunks = [X[a:b] for a, b in zip(cuts[:-1], cuts[1:])]
    if kind == "integer_samples":
        # (the constructor centres in place and therefore wants floating point data; increments take the samples as they come)
        chunks = [chunks[0]] + [c.astype(np.int64) for c in chunks[1:]]
    if kind == "single_precision_increments":
        # some of the later samples come out of a single-precision stage: they are the numbers they are (exactly representable
        # in double precision), handed over as float32 arrays
        for j in range(1, len(chunks)):
            if rng.random() < 0.6:
                X[cuts[j]:cuts[j + 1]] = X[cuts[j]:cuts[j + 1]].astype(np.float32)
                chunks[j] = X[cuts[j]:cuts[j + 1]].astype(np.float32)
                ctx.bump("single_precision_increments_fed_to_a_double_precision_model")
    longer = kind != "integer_samples" and rng.random() < 0.25
    if longer:
        # the documented n_samples argument: "take the next n_samples of this sequence" (here the sequence holds more than that)
        m = PCAVectorModel([row.copy() for row in X[: min(n, comp[0] + int(rng.integers(1, 4)))]], centre=centre, n_samples=comp[0])
    else:
        m = PCAVectorModel(chunks[0].copy(), centre=centre)
    # a second model built from the first one's decomposition (an alternative constructor): it may share arrays with it, and
    # must not change when the first model learns more
    sibling = PCAVectorModel.init_from_components(m._components, m._eigenvalues, m._mean, m.n_samples, centre)
    sib_state = (sibling._components.copy(), sibling._eigenvalues.copy(), sibling._mean.copy(), sibling.n_samples)
    for c in chunks[1:]:
        if rng.random() < 0.15:
            # a chunk that cannot be absorbed (samples of another length) is refused - and the model goes on as if nothing had happened
            try:
                m.increment(rng.normal(size=(int(rng.integers(1, 4)), d + 1)))
                ctx.fail("pca_increment_accepted_samples_of_the_wrong_length", cls="PCAVectorModel")
            except Exception:
                ctx.bump("impossible_increments_refused")
        if m.n_components > 1 and rng.random() < 0.35:
            # lowering the active count is documented as non-destructive: later increments see the whole model
            m.n_active_components = int(rng.integers(1, m.n_components)) if rng.random() < 0.6 else float(rng.uniform(0.3, 0.9)) * m._total_variance_ratio()
        if longer and rng.random() < 0.5:
            m.increment([row.copy() for row in c] + [row.copy() for row in X[:2]], n_samples=len(c))
        else:
            m.increment(c.copy() if rng.random() < 0.5 else [row.copy() for row in c])
    ctx.tap("sibling_model_untouched", "calls"); ctx.tap("sibling_model_untouched", "checked")
    if (not np.array_equal(sibling._components, sib_state[0]) or not np.array_equal(sibling._eigenvalues, sib_state[1])
            or not np.array_equal(sibling._mean, sib_state[2]) or sibling.n_samples != sib_state[3]):
        ctx.fail("incrementing_one_model_changed_another_model_built_from_its_decomposition", cls="PCAVectorModel",
                 mech="mean" if not np.array_equal(sibling._mean, sib_state[2]) else "other")
    return m, X


def w_pca_exhaustive(ctx, rng, i):
    comp = ALL_COMPS[i % len(ALL_COMPS)]
    variant = i // len(ALL_COMPS)
    centre = bool(variant % 2 == 0)
    d = [3, 12][(variant // 2) % 2]                         # below and above n
    kind = ["plain", "zero_column", "zero_mean_first_batch", "large_values", "integer_samples", "small_values", "far_offset", "single_precision_increments"][(variant // 4) % 8]
    run_pca(ctx, rng, comp, d, centre, kind)
    ctx.count_case(("pca", tuple(comp), centre, d, kind), nontrivial=True,
                   sample={"model": "PCA", "composition": comp, "centred": centre, "d": d, "data": kind} if i < 4 else None)


def w_pca_random(ctx, rng, i):
    from menpo.model import PCAVectorModel
    n = int(rng.integers(8, 61))
    d = int(rng.integers(2, 41))
    k = int(rng.integers(1, 7))
    first = int(rng.integers(2, n - k + 1))
    if rng.random() < 0.04:
        # a small seed model followed by one big batch (a whole data set arriving at once), then a few more samples
        d = int(rng.integers(3, 16))
        first = int(rng.integers(3, 30))
        big = int(rng.integers(1001, 2600))
        tail = int(rng.integers(0, 6))
        n = first + big + tail
        centre = bool(rng.random() < 0.6)
        comp = [first, big] + ([tail] if tail else [])
        run_pca(ctx, rng, comp, d, centre, "plain")
        ctx.count_case(("pca_random", "big_increment", centre), nontrivial=True)
        return
    rest = n - first
    cuts = sorted(rng.choice(np.arange(1, rest), size=min(k - 1, max(0, rest - 1)), replace=False).tolist()) if rest > 1 and k > 1 else []
    comp = [first] + [b - a for a, b in zip([0] + cuts, cuts + [rest])]
    centre = bool(rng.random() < 0.6)
    kind = ["plain", "plain", "zero_column", "zero_mean_first_batch", "large_values", "integer_samples", "small_values", "far_offset", "single_precision_increments"][rng.integers(0, 9)]
    m1, X = run_pca(ctx, rng, comp, d, centre, kind)
    # a different splitting of the same data agrees with the first one
    comp2 = [comp[0] + comp[1]] + comp[2:] if len(comp) > 2 else [max(2, n // 2), n - max(2, n // 2)]
    if sum(comp2) == n and comp2 != comp and min(comp2) >= 1:
        PDATA.clear()
        cuts2 = np.cumsum([0] + comp2)
        m2 = PCAVectorModel(X[:cuts2[1]].copy(), centre=centre)
        for a, b in zip(cuts2[1:-1], cuts2[2:]):
            m2.increment(X[a:b].copy())
        ctx.tap("split_vs_split", "calls"); ctx.tap("split_vs_split", "checked")
        if m1.n_samples != m2.n_samples or _amax(m1._mean - m2._mean) > 1e-9 * max(1e-300, np.abs(X).max()):
            ctx.fail("two_splittings_of_the_same_data_disagree", cls="PCAVectorModel", mech="mean_or_count")
        elif m1.n_components == m2.n_components and _amax(m1._eigenvalues - m2._eigenvalues) > 1e-7 * m1._eigenvalues[0]:
            ctx.fail("two_splittings_of_the_same_data_disagree", cls="PCAVectorModel", mech="eigenvalues")
    ctx.count_case(("pca_random", len(comp), 0 if n <= d else 1, centre, kind), nontrivial=True,
                   sample={"model": "PCA", "composition": comp, "centred": centre, "d": d, "data": kind} if i < 3 else None)


def w_pca_object(ctx, rng, i):
    """Object-backed incremental PCA equals the batch object-backed model."""
    from menpo.model import PCAModel
    import menpo.shape as ms
    k, dd = int(rng.integers(3, 8)), 2
    n = int(rng.integers(6, 25))
    X = pca_data(rng, n, k * dd, "plain")
    shapes = [ms.PointCloud(r.reshape(k, dd)) for r in X]
    mixed = bool(rng.random() < 0.3)
    if mixed:
        # some annotations were stored as integer pixel positions (integer-typed point clouds) among floating point ones: the
        # data set is what its samples say, however it is cut into increments
        # (not the very first sample: a constructor chunk of integer samples only is refused loudly - in-place centring)
        for j in 1 + rng.choice(n - 1, int(rng.integers(1, 4)), replace=False):
            X[j] = np.round(X[j])
            shapes[j] = ms.PointCloud(X[j].reshape(k, dd).astype(np.int64))
    if not mixed and rng.random() < 0.4:
        # landmarks in map coordinates, some of the annotations stored in single precision (not the very first sample: the
        # constructor chunk sets the precision of the model)
        mixed = "single_precision"
        X = X + 10.0 ** rng.uniform(4, 6.5) * rng.uniform(0.3, 1.0, k * dd)
        shapes = [ms.PointCloud(r.reshape(k, dd)) for r in X]
        for j in 1 + rng.choice(n - 1, int(rng.integers(1, 5)), replace=False):
            X[j] = X[j].astype(np.float32)
            shapes[j] = ms.PointCloud(X[j].reshape(k, dd).astype(np.float32))
    first = int(rng.integers(2, n - 1))
    step = int(rng.integers(1, 5))
    stream = bool(rng.random() < 0.5)
    if stream:
        # the documented iterator interface: one stream of samples, the constructor and every increment take the next n_samples of it
        it = (s_ for s_ in shapes)
        m = PCAModel(it, n_samples=first)
        for a in range(first, n, step):
            m.increment(it, n_samples=min(step, n - a))
        if next(it, None) is not None:
            ctx.fail("samples_left_in_the_stream_after_all_were_requested", cls="PCAModel")
    else:
        m = PCAModel(shapes[:first])
        for a in range(first, n, step):
            if rng.random() < 0.5:
                # the model is looked at between increments (its mean shape drawn, say)
                mo = np.asarray(m.mean().as_vector(), dtype=float)
                ctx.tap("object_mean_between_increments", "calls"); ctx.tap("object_mean_between_increments", "checked")
                if _amax(mo - X[:a].mean(0)) > 1e-9 * max(1.0, np.abs(X).max()):
                    ctx.fail("object_backed_incremental_differs_from_batch", cls="PCAModel", mech="mean_object:between_increments")
            m.increment(shapes[a:a + step])
        mo = np.asarray(m.mean().as_vector(), dtype=float)
        if _amax(mo - X.mean(0)) > 1e-9 * max(1.0, np.abs(X).max()):
            ctx.fail("object_backed_incremental_differs_from_batch", cls="PCAModel", mech="mean_object:after_increments")
    b = PCAModel([ms.PointCloud(r.reshape(k, dd)) for r in X]) if mixed == "single_precision" else PCAModel(shapes)       # (the same numbers, all in double precision)
    ctx.tap("object_backed_vs_batch", "calls"); ctx.tap("object_backed_vs_batch", "checked")
    scale = max(1.0, np.abs(X).max())
    if m.n_samples != b.n_samples or _amax(m._mean - b._mean) > 1e-9 * scale:
        ctx.fail("object_backed_incremental_differs_from_batch", cls="PCAModel", mech="mean_or_count")
    elif m.n_components == b.n_components:
        if _amax(m._eigenvalues - b._eigenvalues) > 1e-7 * b._eigenvalues[0]:
            ctx.fail("object_backed_incremental_differs_from_batch", cls="PCAModel", mech="eigenvalues")
        if _amax(m._components.T @ m._components - b._components.T @ b._components) > 1e-6:
            ctx.fail("object_backed_incremental_differs_from_batch", cls="PCAModel", mech="subspace")
    ctx.count_case(("pca_object", first, step, stream, mixed), nontrivial=True)


def cond_tol(X):
    """Relative tolerance for comparing two precision matrices computed from X: inverting a block covariance costs
    cond x machine-epsilon digits (every block is a principal sub-matrix of the full covariance)."""
    c = np.linalg.cond(np.cov(np.asarray(X, dtype=float), rowvar=False))
    return min(1e-4, max(1e-7, 1e-13 * float(c)))


def w_gmrf(ctx, rng, i):
    from menpo.model import GMRFVectorModel
    kind = ["edgeless", "chain", "cycle", "tree", "random", "directed"][i % 6]
    V = int(rng.integers(2, 9))
    g = gmrfmon.make_graph(rng, V, kind)
    k = 1 + (i // 6) % 3
    mode = ["concatenation", "subtraction"][(i // 18) % 2]
    sparse = bool((i // 36) % 2)
    bias = (i // 72) % 2
    dtype = np.float32 if (i % 11 == 0) else np.float64
    block = (2 * k if mode == "concatenation" else k) if g.n_edges else k
    n0 = 6 * max(block, 2) + int(rng.integers(2, 10))
    incs = [int(v) for v in rng.integers(1, 12, int(rng.integers(1, 5)))]
    X = gmrfmon.make_data(rng, n0 + sum(incs), V, k)
    idt = None
    if dtype == np.float64 and rng.random() < 0.2:
        # pixel intensities / integer pixel positions: whole numbers, the later samples handed over in the compact integer type
        # they were stored in
        X = np.round((X - X.min()) / max(1e-300, float(np.ptp(X))) * 240.0 + 5.0)
        idt = [np.uint8, np.int16, np.int32, np.uint16][rng.integers(0, 4)]
        ctx.bump("integer_typed_gmrf_increments")
    gmrfmon.clear()
    m = GMRFVectorModel(X[:n0].copy(), g, mode=mode, dtype=dtype, sparse=sparse, bias=bias, incremental=True)
    a = n0
    for c in incs:
        if idt is not None:
            m.increment(X[a:a + c].astype(idt) if rng.random() < 0.5 else [row.astype(idt) for row in X[a:a + c]])
        elif rng.random() < 0.25:
            # the documented progress-report flag changes what is printed, nothing else
            import io, contextlib
            with contextlib.redirect_stdout(io.StringIO()):
                m.increment(X[a:a + c].copy(), verbose=True)
        else:
            m.increment(X[a:a + c].copy() if rng.random() < 0.5 else [row.copy() for row in X[a:a + c]])
        a += c
    # another splitting of the same data
    gmrfmon.clear()
    m2 = GMRFVectorModel(X[:n0 + incs[0]].copy(), g, mode=mode, dtype=dtype, sparse=sparse, bias=bias, incremental=True)
    if a > n0 + incs[0]:
        m2.increment(X[n0 + incs[0]:a].copy())
    Q1, Q2 = gmrfmon.dense(m.precision), gmrfmon.dense(m2.precision)
    nrm = max(1e-300, np.abs(Q2).max())
    ctx.tap("split_vs_split", "calls"); ctx.tap("split_vs_split", "checked")
    if _amax(Q1 - Q2) > (cond_tol(X) if dtype == np.float64 else max(2e-3, 2e4 * cond_tol(X))) * nrm:     # (single precision running moments: 1e-7 x cond, two different summation orders)
        ctx.fail("two_splittings_of_the_same_data_disagree", cls="GMRFVectorModel", mech="%s:%s" % ("sparse" if sparse else "dense", mode),
                 rel_err=_amax(Q1 - Q2) / nrm, tolerance=cond_tol(X) if dtype == np.float64 else 1e-3, integer_typed=str(idt), dtype=np.dtype(dtype).name, graph=kind, k=k, n0=n0, increments=incs)
    # a model that was not built incremental refuses increments
    nm = GMRFVectorModel(X[:n0].copy(), g, mode=mode, sparse=sparse, bias=bias, incremental=False)
    try:
        nm.increment(X[n0:n0 + 2])
        ctx.fail("non_incremental_model_accepted_an_increment", cls="GMRFVectorModel")
    except ValueError:
        pass
    ctx.count_case(("gmrf", kind, k, mode, sparse, bias, np.dtype(dtype).name, len(incs)), nontrivial=True,
                   sample={"model": "GMRF", "graph": kind, "n_vertices": V, "initial": n0, "increments": incs, "mode": mode, "sparse": sparse, "bias": bias} if i < 4 else None)


def w_gmrf_object(ctx, rng, i):
    """Object-backed incremental GMRF fed from lists or from one shared stream equals the batch object-backed model."""
    from menpo.model import GMRFModel
    import menpo.shape as ms
    V = int(rng.integers(2, 7))
    g = gmrfmon.make_graph(rng, V, ["edgeless", "chain", "tree", "random"][i % 4])
    k = 2
    n0 = 6 * 2 * k + int(rng.integers(2, 8))
    incs = [int(v) for v in rng.integers(1, 9, int(rng.integers(1, 4)))]
    n = n0 + sum(incs)
    X = gmrfmon.make_data(rng, n, V, k)
    shapes = [ms.PointCloud(r.reshape(V, k)) for r in X]
    if rng.random() < 0.3:
        # annotations stored as whole pixel positions in a compact integer type
        X = np.round((X - X.min()) / max(1e-300, float(np.ptp(X))) * 240.0 + 5.0)
        idt_ = [np.int16, np.uint8, np.uint16, np.int64][rng.integers(0, 4)]
        shapes = [ms.PointCloud(r.reshape(V, k).astype(idt_)) for r in X]
        ctx.bump("integer_typed_object_backed_gmrf_samples")
    sparse = bool(rng.random() < 0.5)
    stream = bool(i % 2)
    gmrfmon.clear()
    if stream:
        it = (s_ for s_ in shapes)
        m = GMRFModel(it, g, n_samples=n0, sparse=sparse, incremental=True)
        for c in incs:
            m.increment(it, n_samples=c)
        if next(it, None) is not None:
            ctx.fail("samples_left_in_the_stream_after_all_were_requested", cls="GMRFModel")
    else:
        m = GMRFModel(shapes[:n0], g, sparse=sparse, incremental=True)
        a = n0
        for c in incs:
            m.increment(shapes[a:a + c])
            a += c
    gmrfmon.clear()
    b = GMRFModel(shapes, g, sparse=sparse)
    ctx.tap("object_backed_vs_batch", "calls"); ctx.tap("object_backed_vs_batch", "checked")
    Q1, Q2 = gmrfmon.dense(m.precision), gmrfmon.dense(b.precision)
    if m.n_samples != n or _amax(m.mean_vector - b.mean_vector) > 1e-9 * max(1.0, np.abs(X).max()):
        ctx.fail("object_backed_incremental_differs_from_batch", cls="GMRFModel", mech="mean_or_count:" + ("stream" if stream else "lists"))
    elif Q1.shape != Q2.shape or _amax(Q1 - Q2) > cond_tol(X) * max(1e-300, np.abs(Q2).max()):
        ctx.fail("object_backed_incremental_differs_from_batch", cls="GMRFModel", mech="precision:" + ("stream" if stream else "lists"))
    ctx.count_case(("gmrf_object", V, len(incs), sparse, stream), nontrivial=True)


WORKLOADS = [
    Workload("pca_every_composition", w_pca_exhaustive, quick=len(ALL_COMPS) * 32, thorough=len(ALL_COMPS) * 32 * 15, exhaustive=True),
    Workload("pca_random", w_pca_random, quick=400, thorough=20000),
    Workload("pca_object", w_pca_object, quick=100, thorough=3000),
    Workload("gmrf", w_gmrf, quick=576, thorough=20000),
    Workload("gmrf_object", w_gmrf_object, quick=80, thorough=3000),
]
