"""C06  Copies are equal and fully independent; attached landmarks are owned copies.

Monitors: taps on every copy() implementation (state equality + exact buffer-sharing query), taps on
LandmarkManager.__setitem__ and the Landmarkable.landmarks setter (ownership), an icontract class invariant on
LandmarkManager (all groups PointClouds of one dimensionality), and a shadow model (ordered dict of digests)
maintained by the history workload.  Workloads: behavioural independence of every Copyable class (write through
every buffer, run every public mutator, both directions) and random landmark-manager histories.
"""
from collections import OrderedDict

import numpy as np

from vf.core import Workload
from vf import warm, taps, gen, tx
from vf.digest import digest, diff, shared, buffers

ID = "C06"
TECHNIQUE = "runtime monitoring: copy() taps with exact buffer-sharing query, icontract class invariant + shadow-model trace checker on the landmark manager"
LEVEL_TEXT = ("Every copy() made by all Copyable classes is judged for equal state and (via numpy.shares_memory over the complete buffer graph) for sharing nothing but the "
              "documented parts; independence is then exercised behaviourally (every buffer written, every public mutator run, both directions); landmark managers are "
              "driven through random histories against a dict model with a class invariant checked around every method; held-on-what-was-observed")
LEVEL_NOTE = "trusted: vf/digest.py; the documented sharing (alignment source/target, chain members, read-only PWA cache) is whitelisted explicitly"
DESIGN_REF = "DESIGN.md section 7, C06"
RULE = ("objects: 8 shape classes, 3 image classes, landmark managers, 12 homogeneous transforms, chains, TPS, PWA (cached and not), WithDims, PCAVectorModel, PCAModel, "
        "LinearVectorModel, MeanLinearVectorModel, LazyList; histories of 5-40 manager operations with arbitrary (unicode, empty, duplicate) names; non-trivial = object owns >=1 "
        "array and >=1 mutation was applied / history has >=1 set and >=1 further event; distinct = (class, dims, mutators run) resp. the operation-name sequence")
ASSUMPTIONS = ["alignment source/target and chain members are shared by documented design and excluded from the sharing query",
               "reading a group returns the stored object itself (editing it edits the stored landmarks) - that is the documented way to edit landmarks"]
DECIDING_TAPS = ["copy", "LandmarkManager.__setitem__", "LandmarkManager.invariant"]
REPLAY_PATHS = ['menpo/transform/test', 'menpo/shape', 'menpo/landmark/test', 'menpo/image/test', 'menpo/model/test', 'menpo/test']      # suite replay (thorough tier): the repository's own tests under these monitors
SHARDS = {"quick": 8, "thorough": 16}

_CTX = [None]


def allowed_shared(o):
    from menpo.transform.base import Alignment
    import menpo.transform as mt
    allow = []
    if isinstance(o, Alignment):
        allow += ["._source", "._target"]
    if isinstance(o, mt.TransformChain):
        allow += [".transforms"]
    from menpo.base import LazyList
    if isinstance(o, LazyList):
        allow += ["._callables"]     # the callables are opaque, shared by design; only the list itself is copied
    return tuple(allow)


class CopyMonitor(taps.Monitor):
    name = "copy"

    def __init__(self, owner=None):
        self.owner = owner

    def pre(self, ctx, args, kw):
        o = args[0]
        if not taps.is_menpo(o):
            return None
        # a subclass override that calls Copyable.copy internally is judged at the override, not half-way through it
        definer = next(c for c in type(o).__mro__ if "copy" in c.__dict__)
        if self.owner is not None and definer is not self.owner:
            return None
        return {"d": digest(o)}

    def post(self, ctx, st, args, kw, c, exc):
        o = args[0]
        cls = type(o).__name__
        ctx.see("copied_classes", cls)
        if exc is not None:
            ctx.fail("copy_raised", cls=cls, mech=type(exc).__name__, error=repr(exc)[:200])
            return
        if type(c) is not type(o):
            ctx.fail("copy_changed_class", cls=cls, got=type(c).__name__)
            return
        if c is o:
            ctx.fail("copy_returned_the_same_object", cls=cls)
            return
        if digest(o) != st["d"]:
            ctx.fail("copy_modified_the_original", cls=cls)
        why = diff(o, c)
        if why:
            ctx.fail("copy_is_not_equal_to_the_original", cls=cls, mech=why.split(" at ")[-1].split(" ")[0][:50], why=why)
        sh = shared(c, o, allow=allowed_shared(o))
        if sh:
            ctx.fail("copy_shares_memory_with_the_original", cls=cls, mech=sh[0][0].split("[")[0][:60], pairs=sh[:4])


class SetItemMonitor(taps.Monitor):
    name = "LandmarkManager.__setitem__"

    def pre(self, ctx, args, kw):
        m, key, value = args[0], args[1], args[2]
        if not taps.is_menpo(m):
            return None
        from menpo.shape import PointCloud
        return {"before": OrderedDict((k, digest(v)) for k, v in m._landmark_groups.items()), "n_dims": m.n_dims,
                "vd": digest(value) if isinstance(value, PointCloud) else None}

    def post(self, ctx, st, args, kw, r, exc):
        from menpo.shape import PointCloud
        m, key, value = args[0], args[1], args[2]
        now = OrderedDict((k, digest(v)) for k, v in m._landmark_groups.items())
        bad = (key is None or not isinstance(value, PointCloud) or
               (st["n_dims"] is not None and getattr(value, "n_dims", None) != st["n_dims"]))
        if bad:
            if exc is None:
                mech = "none_key" if key is None else ("not_a_pointcloud" if not isinstance(value, PointCloud) else "dimensionality")
                ctx.fail("invalid_assignment_accepted", cls="LandmarkManager", mech=mech)
            elif not isinstance(exc, ValueError) and isinstance(value, PointCloud):
                ctx.fail("invalid_assignment_raised_the_wrong_error", cls="LandmarkManager", mech=type(exc).__name__)
            if now != st["before"]:
                ctx.fail("refused_assignment_changed_the_manager", cls="LandmarkManager")
            return
        if exc is not None:
            ctx.fail("valid_assignment_refused", cls="LandmarkManager", mech=type(exc).__name__, error=repr(exc)[:200])
            return
        stored = m._landmark_groups.get(key)
        if stored is None:
            ctx.fail("assigned_group_not_stored", cls="LandmarkManager")
            return
        if stored is value:
            ctx.fail("manager_stores_the_assigned_object_itself", cls=type(value).__name__)
        elif shared(stored, value):
            ctx.fail("stored_group_shares_memory_with_the_assigned_value", cls=type(value).__name__, pairs=shared(stored, value)[:3])
        if digest(stored) != st["vd"] or digest(value) != st["vd"]:
            ctx.fail("stored_group_differs_from_the_assigned_value", cls=type(value).__name__)
        # insertion order: existing keys keep their place, a new key goes last
        exp = list(st["before"].keys())
        if key not in st["before"]:
            exp.append(key)
        if list(now.keys()) != exp:
            ctx.fail("insertion_order_not_kept", cls="LandmarkManager", before=list(st["before"].keys()), after=list(now.keys()))
        for k, dg in st["before"].items():
            if k != key and now.get(k) != dg:
                ctx.fail("assignment_changed_another_group", cls="LandmarkManager")


class OwnerSetterMonitor(object):
    """Landmarkable.landmarks = manager stores a copy."""
    name = "Landmarkable.landmarks.setter"


def lm_invariant(self):
    ctx = _CTX[0]
    if ctx is None or taps.in_monitor():
        return True
    from menpo.shape import PointCloud
    ctx.tap("LandmarkManager.invariant", "calls")
    ctx.tap("LandmarkManager.invariant", "checked")
    groups = getattr(self, "_landmark_groups", None)
    if groups is None:
        return True
    dims = set()
    for k, v in groups.items():
        if not isinstance(v, PointCloud):
            ctx.fail("manager_holds_a_non_pointcloud", cls=type(v).__name__)
        else:
            dims.add(v.n_dims)
    if len(dims) > 1:
        ctx.fail("manager_holds_groups_of_different_dimensionality", cls="LandmarkManager", mech=str(sorted(dims)))
    return True   # record, never raise into the code under observation


class InvariantBroken(Exception):
    pass


def setup(ctx):
    import icontract
    _CTX[0] = ctx
    B = taps.mod("menpo.base")
    L = taps.mod("menpo.landmark.base")
    owners = taps.tap_definers(ctx, "copy", lambda c: CopyMonitor(c), base=B.Copyable)
    ctx.see("tapped_copy_definers", sorted(c.__name__ for c in owners))
    taps.tap(ctx, L.LandmarkManager, "__setitem__", SetItemMonitor())
    icontract.invariant(lm_invariant, error=InvariantBroken)(L.LandmarkManager)
    # the owner-side setter is a property: wrap its fset
    prop = L.Landmarkable.__dict__["landmarks"]
    fset = prop.fset

    def monitored_fset(self, value):
        if taps.in_monitor() or not taps.is_menpo(self) or not isinstance(value, L.LandmarkManager):
            return fset(self, value)
        ctx.tap("Landmarkable.landmarks.setter", "calls")
        vd = digest(value)
        ok_dims = value.n_dims is None or value.n_dims == self.n_dims
        try:
            fset(self, value)
        except ValueError:
            if ok_dims:
                ctx.fail("valid_manager_refused_by_owner", cls=type(self).__name__)
            return_exc = True
            raise
        with taps.quiet():
            ctx.tap("Landmarkable.landmarks.setter", "checked")
            if not ok_dims:
                ctx.fail("manager_of_wrong_dimensionality_accepted_by_owner", cls=type(self).__name__)
            stored = self._landmarks
            if stored is value:
                ctx.fail("owner_stores_the_assigned_manager_itself", cls=type(self).__name__)
            elif shared(stored, value):
                ctx.fail("owner_manager_shares_memory_with_the_assigned_manager", cls=type(self).__name__)
            if digest(stored) != vd or digest(value) != vd:
                ctx.fail("owner_manager_differs_from_the_assigned_manager", cls=type(self).__name__)

    L.Landmarkable.landmarks = property(prop.fget, monitored_fset, prop.fdel, prop.__doc__)


# ------------------------------------------------------------------------------------- objects
def pca_data(rng, n=8, d=5):
    return rng.normal(size=(n, d)) * rng.uniform(0.5, 3, d) + rng.normal(size=d)


def make_objects(rng, i):
    """(object, name, dims) for case i"""
    import menpo.transform as mt
    import menpo.shape as ms
    from menpo.model import PCAVectorModel, PCAModel, LinearVectorModel, MeanLinearVectorModel
    from menpo.base import LazyList
    fam = i % 6
    d = 2 + (i // 6) % 2
    if fam == 0:
        cls = gen.SHAPE_CLASSES[(i // 12) % 8]
        o = gen.shape(rng, cls, d=d, with_landmarks=int(rng.integers(0, 3)))
        if rng.random() < 0.25:
            # coordinates held as a read-only *view* of an array somebody else may still write to (a memory-mapped scan,
            # the result of from_vector(as_vector())): read-only is a property of the view, not of the memory
            base = np.array(o.points, copy=True)
            v = base.view()
            v.flags.writeable = False
            o.points = v
        return o, cls, d
    if fam == 1:
        cls = ["Image", "MaskedImage", "BooleanImage"][(i // 12) % 3]
        o = gen.image(rng, cls, shape=tuple(int(v) for v in rng.integers(3, 8, d)), dtype=[np.float64, np.uint8][(i // 36) % 2])
        for g in range(int(rng.integers(0, 3))):
            o.landmarks["g%d" % g] = gen.shape(rng, None, d=d, n=4)
        return o, cls, d
    if fam == 2:
        K = tx.kinds(d)
        kind = K[(i // 12) % len(K)]
        return tx.make(rng, kind, d)[0], kind, d
    if fam == 3:
        which = (i // 12) % 4
        if which == 0:
            m_ = PCAVectorModel(pca_data(rng, int(rng.integers(4, 10)), int(rng.integers(3, 8))))
            if m_.n_components > 1 and rng.random() < 0.5:
                # a model with a history: fewer active components than it holds (by count or by variance kept)
                m_.n_active_components = int(rng.integers(1, m_.n_components)) if rng.random() < 0.6 else float(rng.uniform(0.3, 0.9)) * m_._total_variance_ratio()
            return m_, "PCAVectorModel", 0
        if which == 1:
            k = int(rng.integers(4, 8))
            if rng.random() < 0.4:
                # a model of images (appearance): its template is an image with a mask / landmarks of its own
                import menpo.image as mi
                shp_ = (int(rng.integers(3, 6)), int(rng.integers(3, 6)))
                msk_ = gen.mask(rng, shp_, "random")
                if msk_.sum() < 3:
                    msk_[:] = True
                samples = []
                for _ in range(int(rng.integers(4, 8))):
                    im_ = mi.MaskedImage(rng.normal(size=(1,) + shp_), mask=msk_.copy()) if rng.random() < 2 and (i // 48) % 2 else mi.Image(rng.normal(size=(1,) + shp_))
                    samples.append(im_)
                samples[0].landmarks["lm"] = ms.PointCloud(rng.uniform(0, 2, (3, 2)))
                return PCAModel(samples), "PCAModel", 2
            samples = [ms.PointCloud(rng.normal(size=(k, d))) for _ in range(int(rng.integers(4, 9)))]
            m_ = PCAModel(samples)
            if m_.n_components > 1 and rng.random() < 0.5:
                m_.n_active_components = int(rng.integers(1, m_.n_components))
            return m_, "PCAModel", d
        if which == 2:
            return LinearVectorModel(rng.normal(size=(3, 6))), "LinearVectorModel", 0
        return MeanLinearVectorModel(rng.normal(size=(3, 6)), rng.normal(size=6)), "MeanLinearVectorModel", 0
    if fam == 4:
        s = gen.shape(rng, None, d=d, with_landmarks=int(rng.integers(1, 4)))
        return s.landmarks, "LandmarkManager", d
    arrs = [rng.normal(size=3) for _ in range(int(rng.integers(0, 5)))]
    ll = LazyList.init_from_iterable(arrs)
    ll = ll.map(lambda x: x * 2) if rng.random() < 0.5 else ll
    if rng.random() < 0.6:
        # what importers and users hang on a lazy list (menpo's video importer attaches fps ...): frame times, a region of interest
        import menpo.shape as ms
        ll.fps = 25.0
        ll.timestamps = rng.normal(size=max(1, len(arrs)))
        ll.roi = ms.PointCloud(rng.normal(size=(4, 2)))
    return ll, "LazyList", 0


def perturb(buf):
    if not buf.flags.writeable or buf.size == 0:
        return False
    if buf.dtype == bool:
        buf[...] = ~buf
    elif buf.dtype.kind in "iu":
        buf[...] = buf + 1
    elif buf.dtype.kind == "f":
        buf[...] = buf * 1.5 + 0.75
    else:
        return False
    return True


def mutators(rng, o, d):
    """Public mutators applicable to o, as (name, callable(obj))."""
    import menpo.transform as mt
    import menpo.shape as ms
    import menpo.image as mi
    from menpo.transform.base import Alignment
    from menpo.model import PCAVectorModel, PCAModel, LinearVectorModel
    from menpo.landmark.base import LandmarkManager, Landmarkable
    from menpo.base import LazyList, Vectorizable
    out = []
    if isinstance(o, Landmarkable):
        out.append(("set_landmark_group", lambda x: x.landmarks.__setitem__("new", gen.shape(rng, "PointCloud", d=x.n_dims, n=3))))
        if o.has_landmarks:
            k0 = o.landmarks.group_labels[0]
            out.append(("edit_landmark_group_points", lambda x: perturb(x.landmarks[k0].points)))
            out.append(("delete_landmark_group", lambda x: x.landmarks.__delitem__(k0)))
    if isinstance(o, LandmarkManager):
        k0 = o.group_labels[0]
        out.append(("manager_set", lambda x: x.__setitem__("new", gen.shape(rng, "PointCloud", d=x.n_dims, n=3))))
        out.append(("manager_edit_group", lambda x: perturb(x[k0].points)))
        out.append(("manager_delete", lambda x: x.__delitem__(k0)))
    if isinstance(o, Vectorizable) and not isinstance(o, mi.BooleanImage):
        def fvi(x):
            v = np.array(x.as_vector(), dtype=float)
            if isinstance(x, mt.Rotation):
                from props.c05 import unit_quaternion
                v = unit_quaternion(rng)
            else:
                v = v * 1.25 + 0.5
            x._from_vector_inplace(v)
        if not (isinstance(o, (mt.Rotation,)) and d != 3) and not (isinstance(o, mt.Similarity) and type(o).__name__ in ("Similarity", "AlignmentSimilarity") and d == 3):
            out.append(("_from_vector_inplace", fvi))
    if isinstance(o, Alignment):
        def st(x):
            t = x.target.copy()
            t.points = t.points + 0.37
            x.set_target(t)
        out.append(("set_target", st))
    if isinstance(o, mt.Homogeneous):
        def cbi(x):
            u = x.copy() if not isinstance(x, Alignment) else x.as_non_alignment()
            try:
                x.compose_before_inplace(u)
            except ValueError:
                pass
        out.append(("compose_before_inplace", cbi))
        def cai(x):
            u = x.copy() if not isinstance(x, Alignment) else x.as_non_alignment()
            try:
                x.compose_after_inplace(u)
            except ValueError:
                pass
        out.append(("compose_after_inplace", cai))
    if isinstance(o, mt.Rotation):
        out.append(("set_rotation_matrix", lambda x: x.set_rotation_matrix(gen.rotation_matrix(rng, x.n_dims))))
    if isinstance(o, mt.TransformChain):
        out.append(("chain_compose_before_inplace", lambda x: x.compose_before_inplace(mt.Translation(np.ones(d)))))
        out.append(("chain_compose_after_inplace", lambda x: x.compose_after_inplace(mt.Translation(np.ones(d)))))
    if isinstance(o, PCAVectorModel):
        out.append(("n_active_components", lambda x: setattr(x, "n_active_components", max(1, x.n_active_components - 1))))
        out.append(("trim_components", lambda x: x.trim_components(max(1, x.n_active_components - 1))))
        def inc(x):
            if isinstance(x, PCAModel):
                x.increment([x.template_instance.from_vector(rng.normal(size=x.n_features)) for _ in range(3)])
            else:
                x.increment(rng.normal(size=(3, x.n_features)))
        out.append(("increment", inc))
        out.append(("orthonormalize_inplace", lambda x: x.orthonormalize_inplace()))
    elif isinstance(o, LinearVectorModel):
        out.append(("orthonormalize_inplace", lambda x: x.orthonormalize_inplace()))
        out.append(("components_setter", lambda x: setattr(x, "components", x.components * 2.0)))
    if isinstance(o, LazyList):
        out.append(("append_to_callables", lambda x: x._callables.append(lambda: 1)))
    return out


def w_independence(ctx, rng, i):
    o, name, d = make_objects(rng, i)
    cls = type(o).__name__
    ran = []
    # --- write through every buffer of one copy: the original and a sibling copy stay as they were
    a, b = o.copy(), o.copy()
    d_o, d_b = digest(o), digest(b)
    allow = allowed_shared(o)
    nbuf = 0
    for path, buf in buffers(a):
        if any(path.startswith(p) for p in allow):
            continue
        if perturb(buf):
            nbuf += 1
            if digest(o) != d_o:
                ctx.fail("write_into_copy_reaches_the_original", cls=cls, mech=path.split("[")[0][:60], buffer=path)
                d_o = digest(o)
            if digest(b) != d_b:
                ctx.fail("write_into_copy_reaches_a_sibling_copy", cls=cls, mech=path.split("[")[0][:60], buffer=path)
                d_b = digest(b)
    # --- and the other direction: write into the original, the sibling copy is unaffected
    c = o.copy()
    d_c = digest(c)
    for path, buf in buffers(o):
        if any(path.startswith(p) for p in allow):
            continue
        if perturb(buf) and digest(c) != d_c:
            ctx.fail("write_into_original_reaches_the_copy", cls=cls, mech=path.split("[")[0][:60], buffer=path)
            d_c = digest(c)
    # --- every public mutator, on a copy (original must not notice) and on the original (copy must not notice)
    o, name, d = make_objects(np.random.default_rng(int(rng.integers(0, 2 ** 31))), i)
    probe_pts = tx.probe(np.random.default_rng(17), d, 6) if d in (2, 3) else None

    def behaviour(z, apply_first):
        """what z answers to its read-only queries and (transforms) where it sends a fixed set of points.  Before the copy is
        taken the application comes last, afterwards first: whatever the object remembers about its last input is then the
        same on both sides of the copy"""
        out = []

        def app():
            if isinstance(z, taps.mod("menpo.transform.base").Transform) and probe_pts is not None:
                try:
                    nd = z.n_dims
                    out.append(("apply(probe)", np.array(z.apply(probe_pts[:, :nd].copy() if nd else probe_pts.copy()), copy=True)))
                except Exception as e:
                    out.append(("apply(probe)", "raises:" + type(e).__name__))
        def model_api():
            # linear models: what the model does with a fixed sample / fixed weights through its own API (object- or vector-level)
            from menpo.model import LinearVectorModel, PCAModel
            if not isinstance(z, LinearVectorModel):
                return
            fixed = np.random.default_rng(23).normal(size=z.n_features)
            try:
                sample = z.template_instance.from_vector(fixed) if isinstance(z, PCAModel) else fixed
            except Exception:
                return
            for nm, f in (("project(fixed)", lambda: z.project(sample)), ("reconstruct(fixed)", lambda: z.reconstruct(sample)),
                          ("instance([0.7])", lambda: z.instance(np.array([0.7]))), ("component(0)", lambda: z.component(0)),
                          ("project_out(fixed)", lambda: z.project_out(sample))):
                try:
                    r = f()
                    out.append((nm, np.array(r.as_vector() if hasattr(r, "as_vector") else r, dtype=float, copy=True)))
                except Exception as e:
                    out.append((nm, "raises:" + type(e).__name__))
            # ... and the model computes with its *own* state: the answers follow from its own mean and (active) components
            from menpo.model import PCAVectorModel
            if isinstance(z, PCAVectorModel):
                try:
                    C, mu = np.asarray(z.components, dtype=float), np.asarray(z.mean_vector, dtype=float)
                    w = (fixed - mu) @ C.T
                    ref = {"project(fixed)": w, "reconstruct(fixed)": w @ C + mu, "instance([0.7])": 0.7 * C[0] + mu, "project_out(fixed)": fixed - mu - w @ C}        # (the residual is defined with the mean subtracted)
                except Exception:
                    ref = {}
                got = dict(out)
                ctx.tap("model_answers_from_its_own_state", "calls")
                for nm, e in ref.items():
                    g = got.get(nm)
                    if g is None:
                        continue
                    ctx.tap("model_answers_from_its_own_state", "checked")
                    if not isinstance(g, str):
                        g = g.ravel()
                    if isinstance(g, str) or g.shape != e.shape or not (tx.maxdiff(g, e) <= 1e-7 * max(1.0, float(np.abs(e).max()))):
                        ctx.fail("copy_or_original_does_not_compute_with_its_own_state", cls=type(z).__name__, mech=nm.split("(")[0],
                                 got=g if isinstance(g, str) else float(tx.maxdiff(g, e)) if g.shape == e.shape else "shape %s vs %s" % (g.shape, e.shape))
                        break
        if apply_first:
            app()
        out.extend(warm.snapshot(z))
        model_api()
        if not apply_first:
            app()
        return sorted(out, key=lambda kv: kv[0])
    for mname, fn in mutators(rng, o, d) + [("apply_to_other_points", lambda z: z.apply(tx.probe(rng, z.n_dims or d, 6, box=0.5 * tx.BOX)))
                                              for _ in [0] if isinstance(o, taps.mod("menpo.transform.base").Transform) and d in (2, 3)]:
        for direction in ("copy", "original"):
            x = o.copy()
            with taps.quiet():
                b_other = behaviour(x, apply_first=False)     # history: the object has answered its queries / been applied before it is copied
            y = x.copy()
            dy, dx = digest(y), digest(x)
            target, other, dother = (y, x, dx) if direction == "copy" else (x, y, dy)
            try:
                fn(target)
            except NotImplementedError:
                continue
            except Exception as e:
                ctx.bump("mutator_raised:%s" % type(e).__name__)
                ctx.see("mutator_raised", (cls, mname, type(e).__name__))
                continue
            ran.append(mname)
            if digest(other) != dother:
                ctx.fail("mutating_%s_is_visible_in_the_other" % ("a_copy" if direction == "copy" else "the_original"),
                         cls=cls, mech=mname)
            else:
                with taps.quiet():
                    b_after = behaviour(other, apply_first=True)
                changed = warm.changed(b_other, b_after)[:3]
                if changed:
                    ctx.fail("mutating_%s_is_visible_in_the_other" % ("a_copy" if direction == "copy" else "the_original"),
                             cls=cls, mech=mname + ":answers_changed:" + ",".join(changed))
    # --- a copy reset to the identity and then given the original's map back by in-place composition is still a copy: it owns its
    # matrix (nothing written into it afterwards reaches the original)
    import menpo.transform as _mt
    from menpo.transform.base import Alignment as _Al
    if isinstance(o, _mt.Homogeneous) and not isinstance(o, _Al) and np.asarray(o.h_matrix).shape[0] == np.asarray(o.h_matrix).shape[1] and hasattr(type(o), "init_identity"):
        for how in ("compose_before_inplace", "compose_after_inplace"):
            try:
                src_ = o.copy()
                c_ = type(o).init_identity(src_.n_dims)
                getattr(c_, how)(src_)
            except Exception:
                continue
            d_src = digest(src_)
            ctx.tap("identity_given_a_map_in_place", "calls"); ctx.tap("identity_given_a_map_in_place", "checked")
            try:
                sh_ = shared(c_, src_)
            except Exception:
                sh_ = []
            if sh_:
                ctx.fail("copy_shares_memory_with_the_original", cls=cls, mech="identity_then_" + how, buffer=str(sh_[0])[:80])
            for path, buf in buffers(c_):
                perturb(buf)
            if digest(src_) != d_src:
                ctx.fail("write_into_copy_reaches_the_original", cls=cls, mech="identity_then_" + how)
    # --- a copy that is then given the original's parameters back through the vector interface (from the original's own
    # as_vector(), a view of its matrix for some classes) is still a copy: it owns its matrix
    if isinstance(o, _mt.Homogeneous):
        for how in ("from_vector", "_from_vector_inplace"):
            try:
                src_ = o.copy()
                dup_ = src_.copy()
                v_ = src_.as_vector()
                r_ = dup_.from_vector(v_) if how == "from_vector" else (dup_._from_vector_inplace(v_), dup_)[1]
            except Exception:
                continue
            ctx.tap("copy_given_the_originals_vector", "calls"); ctx.tap("copy_given_the_originals_vector", "checked")
            try:
                sh_ = shared(r_, src_, allow=allowed_shared(o))
            except Exception:
                sh_ = []
            if sh_:
                ctx.fail("copy_shares_memory_with_the_original", cls=cls, mech="copy_then_" + how + "_with_the_originals_vector", buffer=str(sh_[0])[:80])
            else:
                beh_ = np.array(r_.h_matrix, dtype=float)
                for path, buf in buffers(src_):
                    if not any(path.startswith(p_) for p_ in allowed_shared(o)):
                        perturb(buf)
                if tx.maxdiff(np.asarray(r_.h_matrix, dtype=float), beh_) > 0:
                    ctx.fail("write_into_original_reaches_the_copy", cls=cls, mech="copy_then_" + how + "_with_the_originals_vector")
    # --- a PCA model copy handed the original's components back through the public setter owns them
    from menpo.model import PCAVectorModel as _PVM
    if isinstance(o, _PVM):
        try:
            src_ = o.copy()
            src_.n_active_components = src_.n_components
            dup_ = src_.copy()
            dup_.components = src_.components
            ctx.tap("model_copy_given_the_originals_components", "calls"); ctx.tap("model_copy_given_the_originals_components", "checked")
            sh_ = shared(dup_, src_)
            if sh_:
                ctx.fail("copy_shares_memory_with_the_original", cls=cls, mech="copy_then_components_setter_with_the_originals_array", buffer=str(sh_[0])[:80])
        except Exception as e_:
            ctx.bump("components_setter_raised:" + type(e_).__name__)
    ctx.see("classes", cls)
    ctx.count_case((cls, d, tuple(sorted(set(ran)))), nontrivial=nbuf > 0 or bool(ran),
                   sample={"cls": cls, "dims": d, "buffers_written": nbuf, "mutators": sorted(set(ran))} if i < 8 else None)


NAMES = ["a", "b", "", "PTS", "grüppe", "點", "a b", "0", "left_eye", "x" * 40]


def w_manager_history(ctx, rng, i):
    """Random histories against a shadow model: OrderedDict name -> digest of the value at assignment time."""
    from menpo.landmark.base import LandmarkManager
    import menpo.shape as ms
    import menpo.transform as mt
    d = 2 + i % 2
    owner = gen.shape(rng, None, d=d) if rng.random() < 0.6 else gen.image(rng, ["Image", "MaskedImage", "BooleanImage"][rng.integers(0, 3)],
                                                                                shape=tuple(int(v) for v in rng.integers(4, 9, d)))
    lm = owner.landmarks
    model = OrderedDict()
    ops = []
    n_ops = int(rng.integers(5, 41))
    assigned = []   # (value object handed in, name)
    for step in range(n_ops):
        op = ["set", "set", "set", "get", "delete", "iterate", "copy", "assign_to_owner", "transform_owner", "none_key",
              "edit_assigned", "bad_dims", "bad_type", "edit_stored", "set_own_group", "set_own_group", "assign_own_manager",
              "delete_none_key", "empty_group_and_dimension_change", "bulk_update", "bulk_update_mixed", "convert_owner", "setdefault", "set_group_without_points", "none_key", "bad_dims"][rng.integers(0, 26)]
        if op == "set":
            name = NAMES[rng.integers(0, len(NAMES))]
            val = gen.shape(rng, None, d=d, n=int(rng.integers(3, 7)))
            lm[name] = val
            model[name] = digest(val)
            assigned.append((val, name))
        elif op == "assign_own_manager":
            # fetch-edit-assign-back on the owner side: the owner keeps equal landmarks
            h = owner.landmarks
            owner.landmarks = h
            lm = owner.landmarks
        elif op == "set_own_group" and model:
            # a group fetched from this very manager assigned back under another (or the same) name: still an owned copy
            src_name = list(model)[rng.integers(0, len(model))]
            name = NAMES[rng.integers(0, len(NAMES))]
            val = lm[src_name]
            lm[name] = val
            model[name] = digest(val)
            if name != src_name:
                # editing the group under its old name must not reach the new one
                perturb(lm[src_name].points)
                model[src_name] = digest(lm[src_name])
        elif op == "get" and model:
            name = list(model)[rng.integers(0, len(model))]
            if digest(lm[name]) != model[name]:
                ctx.fail("group_read_differs_from_what_was_stored", cls="LandmarkManager", mech="get")
            try:
                lm["no such group %d" % step]
                ctx.fail("missing_group_read_succeeded", cls="LandmarkManager")
            except KeyError:
                pass
        elif op == "delete" and model:
            name = list(model)[rng.integers(0, len(model))]
            del lm[name]
            del model[name]
        elif op == "iterate":
            pass
        elif op == "copy":
            c = lm.copy()
            # the copy goes its own way from here: edit it, the manager under test must not notice
            if c.n_groups:
                perturb(c[c.group_labels[0]].points)
                c["only in the copy"] = gen.shape(rng, "PointCloud", d=d, n=3)
        elif op == "assign_to_owner":
            new_owner = gen.shape(rng, None, d=d)
            new_owner.landmarks = lm
            # edits of the manager that was assigned do not reach the owner's stored landmarks, and vice versa
            if new_owner.landmarks.n_groups:
                perturb(new_owner.landmarks[new_owner.landmarks.group_labels[0]].points)
            owner2 = new_owner
            if rng.random() < 0.5:
                # carry on with the new owner's manager (it holds equal state) - the old one must stay as it was
                before = digest(lm)
                owner2.landmarks["extra"] = gen.shape(rng, "PointCloud", d=d, n=3)
                if digest(lm) != before:
                    ctx.fail("edit_of_owner_landmarks_reaches_the_assigned_manager", cls="LandmarkManager")
        elif op == "convert_owner":
            # the owner (an image) converted to its masked / unmasked sibling - sharing the pixels or not, as asked: the landmarks put
            # onto the new image are its own, nothing done to them reaches the manager they came from
            import menpo.image as _mi6
            if isinstance(owner, _mi6.Image) and not isinstance(owner, _mi6.BooleanImage) and owner.has_landmarks:
                cp = bool(rng.random() < 0.5)
                cv_ = int(rng.integers(0, 5))
                if cv_ == 0 or owner.n_dims != 2:
                    conv = owner.as_unmasked(copy=cp) if isinstance(owner, _mi6.MaskedImage) else owner.as_masked(copy=cp)
                elif cv_ == 1:
                    conv = owner.resize(owner.shape)                # (re-framings that leave every point where it is)
                elif cv_ == 2:
                    conv = owner.rescale(1.0)
                elif cv_ == 3:
                    conv = owner.crop(np.zeros(2), np.array(owner.shape, dtype=float))
                else:
                    conv = owner.zoom(1.0)
                before = digest(owner.landmarks)
                ctx.tap("landmarks_of_a_converted_owner", "calls"); ctx.tap("landmarks_of_a_converted_owner", "checked")
                if conv.landmarks.n_groups:
                    for g_ in conv.landmarks.group_labels:
                        perturb(conv.landmarks[g_].points)
                    del conv.landmarks[conv.landmarks.group_labels[0]]
                conv.landmarks["only on the converted image"] = gen.shape(rng, "PointCloud", d=d, n=3)
                if digest(owner.landmarks) != before:
                    ctx.fail("edit_of_owner_landmarks_reaches_the_assigned_manager", cls="LandmarkManager", mech="converted_owner:copy=%s" % cp)
        elif op == "transform_owner" and hasattr(owner, "points"):
            t = mt.Translation(rng.uniform(-2, 2, d))
            moved = t.apply(owner)
            for name in model:
                if tx.maxdiff(moved.landmarks[name].points, t.apply(lm[name].points)) > 1e-9:
                    ctx.fail("owner_transform_did_not_move_a_group", cls="LandmarkManager")
            if list(moved.landmarks) != list(model):
                ctx.fail("owner_transform_lost_or_reordered_groups", cls="LandmarkManager")
        elif op == "none_key":
            try:
                got = lm[None]
                if len(model) != 1:
                    ctx.fail("none_key_resolved_without_exactly_one_group", cls="LandmarkManager", mech="n_groups=%d" % min(len(model), 2))
                elif digest(got) != list(model.values())[0]:
                    ctx.fail("none_key_resolved_to_the_wrong_group", cls="LandmarkManager")
            except ValueError:
                if len(model) == 1:
                    ctx.fail("none_key_not_resolved_with_exactly_one_group", cls="LandmarkManager")
            try:
                lm[None] = gen.shape(rng, "PointCloud", d=d, n=3)
            except ValueError:
                pass
        elif op == "delete_none_key":
            # the reserved key stands for "the one group there is": with none or several groups it names nothing
            before = digest(lm)
            try:
                del lm[None]
                if len(model) != 1:
                    ctx.fail("none_key_resolved_without_exactly_one_group", cls="LandmarkManager", mech="delete:n_groups=%d" % min(len(model), 2))
                    model.clear()
                    model.update((k, digest(v)) for k, v in lm.items())
                else:
                    model.clear()
            except (KeyError, ValueError):
                if digest(lm) != before:
                    ctx.fail("refused_delete_changed_the_manager", cls="LandmarkManager")
        elif op == "empty_group_and_dimension_change" and hasattr(owner, "points") and model:
            # a group without points next to ordinary ones, then a transform of the owner that changes the dimensionality:
            # whatever comes out (a refusal is fine) holds groups of one dimensionality only (judged by the class invariant)
            lm["zz empty"] = ms.PointCloud(np.zeros((0, d)))
            model["zz empty"] = digest(lm["zz empty"])

            from menpo.transform.base import Transform as _T

            class DropLastAxis(_T):
                n_dims = None

                def _apply(self, x, **kw):
                    return x[:, :-1]
            for tr in (DropLastAxis(), mt.WithDims(list(range(d - 1)))):
                try:
                    out = tr.apply(owner)
                    dims = set(int(g.n_dims) for g in out.landmarks.values())
                    out.landmarks.n_groups      # any public call evaluates the invariant
                    if len(dims) > 1 or (dims and out.n_dims not in dims):
                        ctx.fail("manager_holds_groups_of_different_dimensionality", cls="LandmarkManager", mech="after_owner_transform:" + type(tr).__name__)
                except (ValueError, IndexError):
                    pass
            del lm["zz empty"]
            del model["zz empty"]
        elif op == "set_group_without_points":
            # a placeholder group (no point annotated yet): a group like any other - it counts for the None key, it has a
            # dimensionality
            name = NAMES[rng.integers(0, len(NAMES))]
            val = ms.PointCloud(np.zeros((0, d)))
            lm[name] = val
            model[name] = digest(val)
            ctx.bump("groups_without_points")
        elif op == "setdefault":
            # the mapping interface's "assign unless it is there": an assignment like any other when the name is new (an owned copy,
            # the one dimensionality enforced), the stored group when it is not
            name = NAMES[rng.integers(0, len(NAMES))]
            val = gen.shape(rng, None, d=d, n=int(rng.integers(3, 7)))
            ctx.tap("setdefault", "calls"); ctx.tap("setdefault", "checked")
            if name in model:
                before_ = digest(lm)
                lm.setdefault(name, val)
                if digest(lm) != before_:
                    ctx.fail("manager_state_differs_from_model", cls="LandmarkManager", mech="setdefault_on_an_existing_name_changed_the_manager")
            else:
                lm.setdefault(name, val)
                model[name] = digest(val)
                assigned.append((val, name))
                if len(model) >= 1 and rng.random() < 0.4:
                    try:
                        lm.setdefault("of another dimensionality", gen.shape(rng, "PointCloud", d=5 - d, n=3))
                        ctx.fail("group_of_another_dimensionality_accepted", cls="LandmarkManager", mech="setdefault")
                        del lm["of another dimensionality"]
                    except ValueError:
                        pass
        elif op == "edit_assigned" and assigned:
            val, name = assigned[rng.integers(0, len(assigned))]
            perturb(val.points)
            if val.has_landmarks:
                pass
        elif op in ("bulk_update", "bulk_update_mixed"):
            # several groups at once through the mapping interface (dict / pairs / keywords): stored as copies, in order, and -
            # also into an empty manager - all of one dimensionality
            names_ = [NAMES[j] for j in rng.permutation(len(NAMES))[:int(rng.integers(2, 4))]]
            vals_ = [gen.shape(rng, None, d=d, n=int(rng.integers(3, 6))) for _ in names_]
            if op == "bulk_update_mixed":
                vals_[int(rng.integers(1, len(vals_)))] = gen.shape(rng, "PointCloud", d=5 - d, n=3)
            form = int(rng.integers(0, 2))
            try:
                lm.update(OrderedDict(zip(names_, vals_)) if form == 0 else list(zip(names_, vals_)))
                if op == "bulk_update_mixed":
                    ctx.fail("groups_of_different_dimensionality_accepted", cls="LandmarkManager", mech="update:" + ("empty_manager" if not model else "non_empty_manager"))
            except ValueError:
                pass
            # whatever was stored before a refusal stays stored: the model follows the manager's own account of its keys
            refused_at = next((j_ for j_, v_ in enumerate(vals_) if v_.n_dims != d), len(vals_)) if model or op == "bulk_update" else None
            for j_, (k_, v_) in enumerate(zip(names_, vals_)):
                if k_ not in lm:
                    continue
                if refused_at is not None and j_ < refused_at:
                    model[k_] = digest(v_)                 # handed over before any refusal: stored as it was given
                    assigned.append((v_, k_))
                elif k_ not in model or refused_at is None:
                    model[k_] = digest(lm[k_])             # (an empty manager takes its dimensionality from whichever group came first)
            if len(set(g_.n_dims for g_ in lm.values())) > 1:
                ctx.fail("groups_of_different_dimensionality_accepted", cls="LandmarkManager", mech="update:stored")
                for k_ in [k_ for k_, g_ in lm.items() if g_.n_dims != d]:
                    del lm[k_]
        elif op == "bad_dims":
            if model:
                try:
                    lm[NAMES[rng.integers(0, len(NAMES))]] = gen.shape(rng, "PointCloud", d=5 - d, n=3)
                except ValueError:
                    pass
        elif op == "bad_type":
            try:
                lm["arr"] = np.zeros((3, d))
            except (ValueError, AttributeError):
                pass
        elif op == "edit_stored" and model:
            name = list(model)[rng.integers(0, len(model))]
            perturb(lm[name].points)
            model[name] = digest(lm[name])
        else:
            continue
        ops.append(op)
        # ---- after every event the manager equals the model
        ctx.tap("manager_vs_model", "calls"); ctx.tap("manager_vs_model", "checked")
        keys = list(model)
        if lm.group_labels != keys or list(iter(lm)) != keys or len(lm) != len(keys) or lm.n_groups != len(keys):
            ctx.fail("manager_keys_or_order_differ_from_model", cls="LandmarkManager", mech=op, got=lm.group_labels, expected=keys)
            break
        for k in keys:
            if digest(lm[k]) != model[k]:
                ctx.fail("stored_group_changed_behind_the_managers_back", cls="LandmarkManager", mech=op, group=k)
                model[k] = digest(lm[k])
        if lm.n_dims != (d if keys else None):
            ctx.fail("manager_n_dims_wrong", cls="LandmarkManager", mech=op)
        if lm.has_landmarks != bool(keys) or owner.has_landmarks != bool(keys):
            ctx.fail("has_landmarks_wrong", cls="LandmarkManager", mech=op)
    ctx.count_case(("history", tuple(ops)), nontrivial=("set" in ops and len(ops) >= 2),
                   sample={"ops": ops, "owner": type(owner).__name__, "dims": d} if i < 3 else None)


WORKLOADS = [
    Workload("independence", w_independence, quick=1600, thorough=80000),
    Workload("manager_history", w_manager_history, quick=1500, thorough=80000),
]
