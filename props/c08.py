"""C08  Retargeting an alignment equals rebuilding it, whatever happened before.

Taps: every alignment constructor records its options in a shadow table keyed by object identity (propagated by a
tap on copy); Targetable.set_target is judged against a freshly constructed alignment of the same class with the
shadow options; GeneralizedProcrustesAnalysis.__init__ is judged against per-shape AlignmentSimilarity rebuilds.
"""
import numpy as np

from vf.core import Workload
from vf import taps, gen, tx, align
from vf.digest import digest

ID = "C08"
TECHNIQUE = "runtime monitoring: shadow table of constructor options + set_target post-condition against a freshly rebuilt alignment (reference model = the constructor)"
LEVEL_TEXT = ("Every set_target in random histories of 1-6 retargets (with copies taken at random points) over all alignment classes and option values is compared with a "
              "fresh construction from the same source and options: map on probe points, matrix, target, aligned source and error; wrong-size targets must be refused and "
              "leave the alignment unchanged; GPA members are compared with fresh alignments to the reported target; held-on-what-was-observed")
LEVEL_NOTE = "trusted: the constructors themselves as the reference for retargeting (their own correctness is C07's subject); tolerance 1e-8 relative"
DESIGN_REF = "DESIGN.md section 7, C08"
RULE = ("every alignment class x option values (rotation, allow_mirror, kernel class, min_singular_val) x histories of 1-6 set_target calls incl. mirrored and noisy targets, "
        "copies taken mid-history and retargeted independently, wrong-size / wrong-dimension targets; GPA without fixed target; non-trivial = >=1 accepted retarget to a target "
        "that differs from the previous one; distinct = (class, dims, options, history shape)")
ASSUMPTIONS = ["objects without a shadow entry (e.g. results of pseudoinverse) are not judged", "PWA retargets are kept fold-free"]
DECIDING_TAPS = ["set_target_vs_fresh"]
REPLAY_PATHS = ['menpo/transform/test']      # suite replay (thorough tier): the repository's own tests under these monitors
SHARDS = {"quick": 8, "thorough": 16}


class CtorRecorder(taps.Monitor):
    name = "alignment_ctor_options"

    def __init__(self, owner):
        self.owner = owner

    def pre(self, ctx, args, kw):
        if type(args[0]) is not self.owner:
            return None
        return {"opts": align.ctor_options(self.owner, args, kw)}

    def post(self, ctx, st, args, kw, r, exc):
        if exc is None:
            opts = dict(st["opts"])
            src = args[1] if len(args) > 1 else kw.get("source")
            if hasattr(args[0], "trilist") and taps.is_menpo(src):
                opts["_source_arg"] = src.copy()       # piecewise-affine constructors derive their triangulation from the source they are given
            align.SHADOW[id(args[0])] = (args[0], opts)


class CopyPropagator(taps.Monitor):
    name = "copy_propagates_options"

    def pre(self, ctx, args, kw):
        return {} if id(args[0]) in align.SHADOW else None

    def post(self, ctx, st, args, kw, c, exc):
        if exc is None and c is not None:
            o = args[0]
            if id(c) not in align.SHADOW and type(c) is type(o):
                # the copy is the same alignment: same source, same target (the one that was set, not one derived from the map),
                # same options, same map
                ctx.tap("copy_of_an_alignment", "calls"); ctx.tap("copy_of_an_alignment", "checked")
                cls = type(o).__name__
                try:
                    if tx.maxdiff(c.target.points, o.target.points) > 0 or type(c.target) is not type(o.target):
                        ctx.fail("copy_of_an_alignment_differs_from_the_original", cls=cls, mech="target", err=tx.maxdiff(c.target.points, o.target.points))
                    if tx.maxdiff(c.source.points, o.source.points) > 0:
                        ctx.fail("copy_of_an_alignment_differs_from_the_original", cls=cls, mech="source")
                    if hasattr(o, "kernel") and type(c.kernel) is not type(o.kernel):
                        ctx.fail("copy_of_an_alignment_differs_from_the_original", cls=cls, mech="kernel_class")
                    for k_ in ("min_singular_val", "allow_mirror", "rotation"):
                        if k_ in o.__dict__ and c.__dict__.get(k_) != o.__dict__[k_]:
                            ctx.fail("copy_of_an_alignment_differs_from_the_original", cls=cls, mech=k_)
                    with taps.quiet():
                        e_ = tx.maxdiff(c.aligned_source().points, o.aligned_source().points)
                    if not (e_ <= 1e-9 * max(1.0, float(np.abs(o.target.points).max()))):
                        ctx.fail("copy_of_an_alignment_differs_from_the_original", cls=cls, mech="aligned_source", err=e_)
                except Exception as ex_:
                    ctx.fail("copy_of_an_alignment_differs_from_the_original", cls=cls, mech="cannot_be_compared:" + type(ex_).__name__)
            align.SHADOW[id(c)] = (c, align.SHADOW[id(o)][1])
            if id(o) in UNRETARGETED_INVERSES:
                UNRETARGETED_INVERSES.add(id(c))


UNRETARGETED_INVERSES = set()     # an inverse is the exact inverse map, not a fit, until it is retargeted


class PinvPropagator(taps.Monitor):
    """The inverse of an alignment is an alignment of the same class and options (source and target exchanged)."""
    name = "pseudoinverse_propagates_options"

    def pre(self, ctx, args, kw):
        return {} if id(args[0]) in align.SHADOW else None

    def post(self, ctx, st, args, kw, inv, exc):
        if exc is None and inv is not None and type(inv) is type(args[0]):
            align.SHADOW[id(inv)] = (inv, {k: v for k, v in align.SHADOW[id(args[0])][1].items() if k != "_source_arg"})
            UNRETARGETED_INVERSES.add(id(inv))


class SetTargetMonitor(taps.Monitor):
    name = "set_target_vs_fresh"

    def pre(self, ctx, args, kw):
        from menpo.transform.base import Alignment
        t, new = args[0], args[1] if len(args) > 1 else kw.get("new_target")
        if not isinstance(t, Alignment) or not taps.is_menpo(new) or id(t) not in align.SHADOW:
            return None
        if not np.isfinite(new.points).all():
            return None
        return {"valid": (new.n_points == t.source.n_points and new.n_dims == t.source.n_dims),
                "d_t": digest(t), "d_src": digest(t.source), "d_new": digest(new), "opts": align.SHADOW[id(t)][1],
                "src_obj": t.source}

    def post(self, ctx, st, args, kw, r, exc):
        t, new = args[0], args[1] if len(args) > 1 else kw.get("new_target")
        cls = type(t).__name__
        if not st["valid"]:
            if exc is None:
                ctx.fail("target_of_wrong_size_accepted", cls=cls, mech="n_points" if new.n_dims == t.source.n_dims else "n_dims")
            elif not isinstance(exc, ValueError):
                ctx.fail("target_of_wrong_size_raised_the_wrong_error", cls=cls, mech=type(exc).__name__)
            if digest(t) != st["d_t"]:
                ctx.fail("refused_retarget_changed_the_alignment", cls=cls)
            return
        if exc is not None:
            ctx.fail("set_target_raised_on_a_valid_target", cls=cls, mech=type(exc).__name__, error=repr(exc)[:200])
            return
        UNRETARGETED_INVERSES.discard(id(t))
        if digest(new) != st["d_new"]:
            ctx.fail("set_target_modified_the_callers_target", cls=cls)
        if t.source is not st["src_obj"] or digest(t.source) != st["d_src"]:
            ctx.fail("set_target_modified_the_source", cls=cls)
        try:
            fresh = align.rebuild(type(t), t.source.copy(), new.copy(), st["opts"])
        except Exception as e:
            ctx.notes.append("fresh rebuild failed: %r" % (e,))
            return
        scale = max(1.0, float(np.abs(new.points).max()))
        opts = str(sorted(((k, v) for k, v in st["opts"].items() if not k.startswith("_")), key=str))
        # first the query that was most likely evaluated last before the retarget (same input values as then)
        if tx.maxdiff(t.aligned_source().points, fresh.aligned_source().points) > 1e-7 * scale:
            ctx.fail("retargeted_alignment_has_another_aligned_source_than_a_fresh_one", cls=cls, mech=opts + ":first_query")
        if tx.maxdiff(t.target.points, fresh.target.points) > 0:
            ctx.fail("retargeted_alignment_has_another_target_than_a_fresh_one", cls=cls, mech=opts, err=tx.maxdiff(t.target.points, fresh.target.points))
        import menpo.transform as mt
        from menpo.transform.piecewiseaffine.base import AbstractPWA
        if isinstance(t, mt.Homogeneous):
            e = tx.maxdiff(t.h_matrix, fresh.h_matrix)
            ctx.err("h_matrix_vs_fresh", e)
            if not (e <= 1e-8 * scale):
                ctx.fail("retargeted_alignment_has_another_matrix_than_a_fresh_one", cls=cls, mech=opts, err=e)
        if isinstance(t, AbstractPWA):
            x = gen.points_inside_mesh(np.random.default_rng(4), t.source.points, np.asarray(t.source.trilist), 10, margin=0.08)
        else:
            x = tx.probe(np.random.default_rng(4), t.source.n_dims, 10)
        try:
            e = tx.maxdiff(t.apply(x), fresh.apply(x))
            ctx.err("map_vs_fresh", e)
            if not (e <= 1e-7 * scale):
                ctx.fail("retargeted_alignment_maps_differently_from_a_fresh_one", cls=cls, mech=opts, err=e)
        except Exception as ex:
            ctx.fail("retargeted_alignment_cannot_be_applied", cls=cls, mech=type(ex).__name__)
        if tx.maxdiff(t.aligned_source().points, fresh.aligned_source().points) > 1e-7 * scale:
            ctx.fail("retargeted_alignment_has_another_aligned_source_than_a_fresh_one", cls=cls, mech=opts)
        if abs(t.alignment_error() - fresh.alignment_error()) > 1e-7 * scale:
            ctx.fail("retargeted_alignment_reports_another_error_than_a_fresh_one", cls=cls, mech=opts,
                     retargeted=float(t.alignment_error()), fresh=float(fresh.alignment_error()))
        if isinstance(t, mt.ThinPlateSplines) and t.min_singular_val != fresh.min_singular_val:
            ctx.fail("retargeted_spline_lost_an_option", cls=cls, mech="min_singular_val")


class GPAMonitor(taps.Monitor):
    name = "gpa_members_vs_fresh"

    def pre(self, ctx, args, kw):
        sources = args[1] if len(args) > 1 else kw.get("sources")
        target = args[2] if len(args) > 2 else kw.get("target")
        mirror = args[3] if len(args) > 3 else kw.get("allow_mirror", False)
        if target is not None or not all(taps.is_menpo(s) for s in sources):
            return None
        return {"srcs": [s.points.copy() for s in sources], "mirror": bool(mirror), "d": [digest(s) for s in sources]}

    def post(self, ctx, st, args, kw, r, exc):
        import menpo.transform as mt
        import menpo.shape as ms
        g = args[0]
        if exc is not None:
            ctx.fail("gpa_raised", cls="GeneralizedProcrustesAnalysis", mech=type(exc).__name__, error=repr(exc)[:200])
            return
        tgt = g.target.points.copy()
        scale = max(1.0, float(np.abs(tgt).max()))
        for k, (t, s) in enumerate(zip(g.transforms, st["srcs"])):
            fresh = mt.AlignmentSimilarity(ms.PointCloud(s), ms.PointCloud(tgt), allow_mirror=st["mirror"])
            if tx.maxdiff(t.target.points, tgt) > 1e-9 * scale:
                ctx.fail("gpa_member_is_not_targeted_at_the_reported_target", cls="GeneralizedProcrustesAnalysis", err=tx.maxdiff(t.target.points, tgt))
            e = tx.maxdiff(t.h_matrix, fresh.h_matrix)
            ctx.err("gpa_member_vs_fresh", e)
            if not (e <= 1e-8 * scale):
                ctx.fail("gpa_member_is_not_the_alignment_to_the_reported_target", cls="GeneralizedProcrustesAnalysis",
                         mech="mirror" if st["mirror"] else "proper", err=e)
            if tx.maxdiff(t.source.points, s) > 0:
                ctx.fail("gpa_changed_a_source", cls="GeneralizedProcrustesAnalysis")
        for s, dg in zip(g.sources, st["d"]):
            if digest(s) != dg:
                ctx.fail("gpa_changed_a_source", cls="GeneralizedProcrustesAnalysis", mech="digest")


def replay_case_begin():
    align.clear_shadow()
    UNRETARGETED_INVERSES.clear()


def setup(ctx):
    for c in align.alignment_classes():
        taps.tap(ctx, c, "__init__", CtorRecorder(c))
    # every class that defines copy() (found at run time: an alignment class that grows its own copy() is covered too)
    taps.tap_definers(ctx, "copy", lambda c: CopyPropagator())
    taps.tap(ctx, taps.mod("menpo.base").Targetable, "set_target", SetTargetMonitor())
    taps.tap_definers(ctx, "pseudoinverse", lambda c: PinvPropagator())
    taps.tap(ctx, taps.mod("menpo.transform.groupalign.procrustes").GeneralizedProcrustesAnalysis, "__init__", GPAMonitor())


KINDS = ["AlignmentTranslation", "AlignmentUniformScale", "AlignmentRotation", "AlignmentSimilarity", "AlignmentAffine",
         "ThinPlateSplines", "PiecewiseAffine", "PythonPWA"]


def new_target(rng, t, kind, src):
    """A fresh target point cloud for retargeting (mirrored / noisy / far away); fold-free for PWA."""
    import menpo.shape as ms
    d = src.shape[1]
    if kind in ("PiecewiseAffine", "PythonPWA"):
        tl = np.asarray(t.source.trilist)
        for _ in range(50):
            lin = np.eye(2) + rng.uniform(-0.2, 0.2, (2, 2))
            p = src @ lin.T + rng.uniform(-3, 3, 2) + rng.normal(scale=0.3, size=src.shape)
            if rng.random() < 0.35:
                # a few landmarks nudged along one axis only (a horizontal squeeze, one point dragged sideways)
                p = t.target.points.astype(float).copy()
                k = rng.integers(0, len(p), int(rng.integers(1, 4)))
                p[k, rng.integers(0, 2)] += rng.uniform(-0.4, 0.4, len(k))
            a2, b2 = gen.tri_area2(src, tl), gen.tri_area2(p, tl)
            if (np.sign(a2) == np.sign(b2)).all() and np.abs(b2).min() > 1.0:
                if rng.random() < 0.25:
                    # the target as unsigned pixel positions (uint8 / uint16), as an annotation tool stores them
                    udt = [np.uint16, np.uint8][rng.integers(0, 2)]
                    span = float(np.ptp(p, axis=0).max())
                    kk = (200.0 if udt is np.uint8 else float(rng.uniform(300, 3000))) / max(span, 1e-9)
                    pu = np.round((p - p.min(0)) * kk + 3)
                    b3 = gen.tri_area2(pu, tl)
                    if pu.max() < np.iinfo(udt).max and (np.sign(a2) == np.sign(b3)).all() and np.abs(b3).min() > 4.0:
                        return ms.PointCloud(pu.astype(udt))
                return ms.PointCloud(p)
        return ms.PointCloud(src @ lin.T)
    mode = int(rng.integers(0, 4))
    L = gen.well_conditioned(rng, d) if mode == 0 else gen.rotation_matrix(rng, d, mirror=(mode == 1)) * rng.uniform(0.5, 2)
    p = src @ L.T + rng.uniform(-5, 5, d) + rng.normal(scale=[0, 0.01, 0.5, 1.0][rng.integers(0, 4)], size=src.shape)
    if kind == "ThinPlateSplines":
        p = src + rng.normal(scale=0.6, size=src.shape) + rng.uniform(-2, 2, d)
    elif kind in ("AlignmentTranslation", "AlignmentSimilarity") and rng.random() < 0.15:
        # a target in map coordinates (hundreds of kilometres from the origin, in metres)
        p = p + rng.choice([-1.0, 1.0], d) * rng.uniform(1e5, 9e5, d)
    elif kind in ("AlignmentUniformScale", "AlignmentSimilarity", "AlignmentAffine", "AlignmentTranslation") and rng.random() < 0.12:
        # the target in a very different unit from the source (kilometres against micrometres): a legal, tiny or huge, scale
        p = p * 10.0 ** (rng.uniform(9, 13) * rng.choice([-1.0, 1.0]))
    cls = [ms.PointCloud, ms.PointCloud, ms.PointUndirectedGraph][rng.integers(0, 3)]
    if cls is ms.PointUndirectedGraph:
        return ms.PointUndirectedGraph(p, gen.adjacency(len(p), gen.random_undirected_edges(rng, len(p)), True))
    return ms.PointCloud(p)


def audit_live(ctx, live, just_retargeted):
    """Every live object (copies included) still is the alignment of its source to its *own* target."""
    for o in live:
        if o is just_retargeted or id(o) not in align.SHADOW or id(o) in UNRETARGETED_INVERSES:
            continue
        if np.asarray(o.source.points).dtype == np.float32 or np.asarray(o.target.points).dtype == np.float32:
            ctx.bump("single_precision_objects_not_audited")       # (a fresh fit of single-precision point sets agrees to single precision only)
            continue
        with taps.quiet():
            try:
                fresh = align.rebuild(type(o), o.source.copy(), o.target.copy(), align.SHADOW[id(o)][1])
            except Exception:
                continue
            ctx.tap("audit_other_live_objects", "calls"); ctx.tap("audit_other_live_objects", "checked")
            scale = max(1.0, float(np.abs(o.target.points).max()))
            if hasattr(o, "h_matrix"):
                e = tx.maxdiff(o.h_matrix, fresh.h_matrix)
            else:
                e = tx.maxdiff(o.aligned_source().points, fresh.aligned_source().points)
            if not (e <= 1e-8 * scale):
                ctx.fail("retargeting_one_object_changed_another_live_copy", cls=type(o).__name__, err=e)


def w_history(ctx, rng, i):
    import menpo.transform as mt
    import menpo.shape as ms
    from menpo.transform.piecewiseaffine.base import PythonPWA, CachedPWA
    from menpo.transform.rbf import R2LogR2RBF, R2LogRRBF
    align.clear_shadow()
    UNRETARGETED_INVERSES.clear()
    kind = KINDS[i % len(KINDS)]
    warp = kind in ("ThinPlateSplines", "PiecewiseAffine", "PythonPWA")
    d = 2 if warp else 2 + (i // len(KINDS)) % 2
    opts = {}
    if kind == "ThinPlateSplines":
        s, tg = tx.tps_pair(rng)
        if rng.random() < 0.3:
            # integer pixel positions as the first target (later targets are ordinary floats)
            tg = ms.PointCloud(np.round(tg.points * 2).astype(np.int64))
            opts_int = True
        elif rng.random() < 0.35:
            # the usual template pattern: built as the identity warp (source onto itself / onto an affine image of itself),
            # retargeted to the real, bent targets afterwards
            if rng.random() < 0.5:
                tg = ms.PointCloud(s.points.copy())
            else:
                tg = ms.PointCloud(s.points @ (np.eye(2) + rng.uniform(-0.2, 0.2, (2, 2))).T + rng.uniform(-3, 3, 2))
            opts_int = "affine_first_target"
        k = int(rng.integers(0, 3))
        kern = [None, R2LogR2RBF(s.points.copy()), R2LogRRBF(s.points.copy())][k]
        msv = [1e-4, 1e-6, 1e-5][rng.integers(0, 3)]
        if rng.random() < 0.3:
            # a floor that really drops something: just above one of the singular values of this source's system matrix
            kk_ = (R2LogRRBF if k == 2 else R2LogR2RBF)(s.points.copy()).apply(s.points.copy())
            pp_ = np.hstack([np.ones((s.n_points, 1)), s.points])
            sv_ = np.linalg.svd(np.block([[kk_, pp_], [pp_.T, np.zeros((3, 3))]]), compute_uv=False)
            j_ = int(rng.integers(1, 4))
            msv = float(np.sqrt(sv_[-j_] * sv_[-j_ - 1])) if sv_[-j_ - 1] > sv_[-j_] * 1.5 else msv
        if rng.random() < 0.5:
            t = mt.ThinPlateSplines(s, tg, kernel=kern, min_singular_val=msv)
        else:
            t = mt.ThinPlateSplines(s, tg, kern, msv)
        opts = {"kernel": type(kern).__name__, "msv": msv}
    elif warp:
        s, tg = tx.pwa_pair(rng)
        if rng.random() < 0.4:
            # a bare point cloud as source (the alignment triangulates it itself) and a mesh with its own, different
            # triangle list as first target: later targets are plain point clouds
            from scipy.spatial import Delaunay
            own = Delaunay(tg.points).simplices.astype(np.int64)
            own = own[rng.permutation(len(own))][:, rng.permutation(3)]
            s = ms.PointCloud(s.points)
            tg = ms.TriMesh(tg.points, trilist=own[: max(1, len(own) - int(rng.integers(0, 3)))])
            opts = {"first_target": "trimesh_own_trilist"}
        t = (CachedPWA if kind == "PiecewiseAffine" else PythonPWA)(s, tg)
    else:
        n = int(rng.integers(d + 1, 14))
        s, tg = ms.PointCloud(gen.general_position(rng, n, d)), ms.PointCloud(gen.general_position(rng, n, d))
        if rng.random() < 0.25:
            tg = ms.PointCloud(np.round(tg.points * 3).astype(np.int64))
        if rng.random() < 0.25:
            s = ms.PointCloud(np.round(s.points * 3).astype(np.int64))
        if rng.random() < 0.2:
            # built from single-precision point sets (a float32 pipeline); later targets are ordinary doubles, anywhere
            s, tg = ms.PointCloud(np.asarray(s.points, dtype=np.float32)), ms.PointCloud(np.asarray(tg.points, dtype=np.float32))
        if kind == "AlignmentSimilarity":
            opts = {"rotation": gen.flag(rng, 0.6), "allow_mirror": gen.flag(rng, 0.5)}
            if rng.random() < 0.5:
                t = mt.AlignmentSimilarity(s, tg, opts["rotation"], opts["allow_mirror"])
            else:
                t = mt.AlignmentSimilarity(s, tg, **opts)
        elif kind == "AlignmentRotation":
            opts = {"allow_mirror": gen.flag(rng, 0.5)}
            t = mt.AlignmentRotation(s, tg, **opts)
        else:
            t = getattr(mt, kind)(s, tg)
    src = t.source.points.copy()
    live = [t]
    shape = []
    accepted = 0
    last_target = {}      # id(alignment) -> the caller's own target object handed over last
    for step in range(int(rng.integers(1, 7))):
        who = live[rng.integers(0, len(live))]
        r = rng.random()
        if r < 0.2:
            live.append(who.copy())
            shape.append("copy")
            last_target.clear()      # the copy holds the same target object: the caller no longer edits it
            continue
        if r < 0.27:
            # the inverse alignment joins the live objects: it has its own source (the old target) and retargets on its own
            try:
                live.append(who.pseudoinverse())
                shape.append("invert")
                last_target.clear()  # that target object now is the inverse's source: the caller no longer edits it
            except Exception:
                pass
            continue
        if r < 0.3:
            # wrong sizes are refused and change nothing
            bad = ms.PointCloud(rng.normal(size=(len(src) + 1, d))) if rng.random() < 0.5 else ms.PointCloud(rng.normal(size=(len(src), 5 - d)))
            if (len(src) * d) % (5 - d) == 0 and rng.random() < 0.4:
                # the same amount of numbers, arranged as another number of points of the other dimensionality
                bad = ms.PointCloud(rng.normal(size=((len(src) * d) // (5 - d), 5 - d)))
            try:
                who.set_target(bad)
            except Exception:
                pass
            shape.append("bad")
            continue
        if r < 0.34:
            # a creeping target: many tiny steps (the last iterations of a fit); every step counts
            cur = who.target.points.astype(float)
            step_v = rng.normal(size=cur.shape)
            for _k in range(int(rng.integers(10, 40))):
                cur = cur + 4e-6 * np.maximum(np.abs(cur), 1.0) * step_v
                who.set_target(ms.PointCloud(cur.copy()))
            shape.append("creep")
            accepted += 1
            continue
        if r < 0.44 and r >= 0.4 and not warp:
            # a sibling made from the alignment's own class and other parameters (from_vector) joins the live objects: whatever
            # happens to it later is its own business
            try:
                sib = who.from_vector(np.array(who.as_vector(), dtype=float) * 1.05 + 0.01)
                live.append(sib)
                UNRETARGETED_INVERSES.add(id(sib))          # (the map of the given parameters, not a fit, until it is retargeted)
                shape.append("sibling")
                last_target.clear()
                audit_live(ctx, live, sib)
            except NotImplementedError:
                pass
            continue
        if r < 0.4 and not warp:
            # parameter update in between (the alignment re-syncs its target), then retarget again
            held = last_target.get(id(who))
            held_dig = digest(held) if held is not None else None
            try:
                v = np.array(who.as_vector())
                who._from_vector_inplace(v)
                shape.append("from_vector")
            except NotImplementedError:
                continue
            # the target object the caller handed over stays the caller's: a parameter update gives the alignment a target of its
            # own making, and no other live object (the original of a copy, a copy of the original) notices anything
            ctx.tap("parameter_update_between_retargets", "calls"); ctx.tap("parameter_update_between_retargets", "checked")
            if held is not None and digest(held) != held_dig:
                ctx.fail("retargeting_one_object_changed_another_live_copy", cls=type(who).__name__, mech="parameter_update_wrote_into_the_target_object_the_caller_handed_over")
            last_target.pop(id(who), None)
            audit_live(ctx, live, who)
            continue
        # history: the same point array applied before and after the retarget (whatever the object remembers about
        # its last input must not survive the retarget)
        P = gen.points_inside_mesh(rng, who.source.points, np.asarray(who.source.trilist), 6, margin=0.08) if warp and kind != "ThinPlateSplines" else tx.probe(rng, d, 6)
        before = who.apply(P)
        nt = new_target(rng, who, kind, who.source.points.copy())
        mine = last_target.get(id(who))
        if mine is not None and rng.random() < 0.3:
            # the caller refreshes the coordinates of the target object it handed over before and hands the same object over again
            mine.points = nt.points.copy() if rng.random() < 0.5 else mine.points * 0 + nt.points
            nt = mine
            shape.append("same_object")
        elif rng.random() < 0.2 and kind != "ThinPlateSplines" or rng.random() < 0.1:
            nt.points = np.round(nt.points * 4).astype(np.int64) if not warp else nt.points
        last_target[id(who)] = nt
        who.set_target(nt)
        after = who.apply(P)
        try:
            fresh_after = align.rebuild(type(who), who.source.copy(), nt.copy(), align.SHADOW[id(who)][1]).apply(P.copy())
            if tx.maxdiff(after, fresh_after) > 1e-7 * max(1.0, float(np.abs(fresh_after).max())):
                ctx.fail("same_points_applied_after_retarget_give_a_stale_result", cls=type(who).__name__, mech=kind, err=tx.maxdiff(after, fresh_after))
        except KeyError:
            pass
        accepted += 1
        shape.append("set")
        audit_live(ctx, live, who)
    # every live object (copies included) still retargets like a fresh one
    for who in live:
        who.set_target(new_target(rng, who, kind, who.source.points.copy()))
        accepted += 1
    ctx.count_case((kind, d, str(sorted(((k_, bool(v_) if isinstance(v_, (bool, np.bool_, int)) else v_) for k_, v_ in opts.items()), key=str)), tuple(shape)), nontrivial=accepted >= 1,
                   sample={"kind": kind, "dims": d, "options": {k: str(v) for k, v in opts.items()}, "history": shape} if i < 8 else None)


def w_gpa(ctx, rng, i):
    import menpo.transform as mt
    import menpo.shape as ms
    align.clear_shadow()
    d = 2 + i % 2
    n = int(rng.integers(4, 12))
    k = int(rng.integers(2, 7))
    base = gen.general_position(rng, n, d)
    mirror = bool(rng.random() < 0.5)
    shapes = []
    for _ in range(k):
        # mixed chirality so that mirroring matters, noise so that several iterations happen
        L = gen.rotation_matrix(rng, d, mirror=bool(rng.random() < 0.4)) * rng.uniform(0.5, 2)
        shapes.append(ms.PointCloud(base @ L.T + rng.uniform(-4, 4, d) + rng.normal(scale=[0.01, 0.3, 1.0][rng.integers(0, 3)], size=base.shape)))
    g = mt.GeneralizedProcrustesAnalysis(shapes, allow_mirror=mirror)
    ctx.see("gpa_iterations", int(g.n_iterations))
    ctx.count_case(("gpa", d, k, mirror, int(min(g.n_iterations, 5))), nontrivial=g.n_iterations > 1)


WORKLOADS = [Workload("history", w_history, quick=2400, thorough=100000), Workload("gpa", w_gpa, quick=300, thorough=10000)]
