"""C05  Vectorisation round-trips the whole object and never mutates it.

Taps on Vectorizable.as_vector and on every from_vector implementation (Vectorizable, Image, MaskedImage,
BooleanImage, TexturedTriMesh, Homogeneous) with OLD digests; the workload drives every Vectorizable class with
its own vector (round trip), random right-length vectors, hostile arrays and every kind of wrong length.
"""
import numpy as np

from vf.tx import amax as _amax

from vf.core import Workload
from vf import taps, gen, tx, warm
from vf.digest import digest, diff, writeable_flags, shared

ID = "C05"
TECHNIQUE = "runtime monitoring: post-condition taps on as_vector / from_vector with OLD state digests and full-state round-trip comparison"
LEVEL_TEXT = ("Every as_vector / from_vector call made on all Vectorizable classes (8 shape classes, Image/MaskedImage/BooleanImage with any mask, 12 homogeneous-family "
              "transforms incl. alignments) with own, random, hostile and wrong-length vectors is judged for read-only result, n_parameters, non-mutation, full-state "
              "round trip and well-formedness; held-on-what-was-observed")
LEVEL_NOTE = "trusted: vf/digest.py state comparison; transforms compared within 1e-10; images and shapes bit-exact"
DESIGN_REF = "DESIGN.md section 7, C05"
RULE = ("objects: every shape class 2D/3D with 0-2 landmark groups; images 1-4 channels, 2D/3D, uint8/float32/float64, masks all-true/random/half-plane/block/single pixel; "
        "vectorizable transforms in their vectorizable dimensions; vectors: own as_vector (read-only), random finite of the right length (float32/float64/non-contiguous), "
        "lengths n-1, n+1, n+3, 0; non-trivial = object carries landmarks or a non-all-true mask or is a transform; distinct = (class, dims, dtype, mask kind, landmark count, vector kind)")
ASSUMPTIONS = ["rotations are driven with canonical unit quaternions (w > 0) only", "a wrong-length vector may raise or give a well-formed object; only objects whose basic queries fail are violations",
               "classes that raise NotImplementedError for a dimension are recorded as not vectorizable there"]
DECIDING_TAPS = ["as_vector", "from_vector"]
REPLAY_PATHS = ['menpo/transform/test', 'menpo/shape', 'menpo/image/test', 'menpo/model/test']      # suite replay (thorough tier): the repository's own tests under these monitors
SHARDS = {"quick": 8, "thorough": 16}


def is_alignment(o):
    from menpo.transform.base import Alignment
    return isinstance(o, Alignment)


class AsVectorMonitor(taps.Monitor):
    name = "as_vector"

    def pre(self, ctx, args, kw):
        o = args[0]
        if not taps.is_menpo(o):
            return None
        kc = bool(kw.get("keep_channels", args[1] if len(args) > 1 else False))
        if (kw and set(kw) != {"keep_channels"}) or len(args) > 2:
            return None
        return {"d": digest(o), "w": writeable_flags(o), "kc": kc}

    def post(self, ctx, st, args, kw, v, exc):
        o = args[0]
        cls = type(o).__name__
        if exc is not None:
            if isinstance(exc, NotImplementedError):
                ctx.see("not_vectorizable", (cls, getattr(o, "n_dims", None)))
                return
            ctx.fail("as_vector_raised", cls=cls, mech=type(exc).__name__, error=repr(exc)[:200])
            return
        if st["kc"]:
            # the documented channel-wise form of an image's vector: the same numbers as (channels, n) - read-only all the same
            ctx.tap("as_vector_keep_channels", "calls"); ctx.tap("as_vector_keep_channels", "checked")
            if not isinstance(v, np.ndarray) or v.ndim != 2:
                ctx.fail("as_vector_not_one_dimensional", cls=cls, mech="keep_channels:" + str(getattr(v, "shape", None)))
            elif v.flags.writeable:
                ctx.fail("as_vector_result_is_writeable", cls=cls, mech="keep_channels")
            if digest(o) != st["d"]:
                ctx.fail("as_vector_changed_the_object", cls=cls, mech="keep_channels")
            return
        if not isinstance(v, np.ndarray) or v.ndim != 1:
            ctx.fail("as_vector_not_one_dimensional", cls=cls, mech=str(getattr(v, "shape", None)))
            return
        if v.flags.writeable:
            ctx.fail("as_vector_result_is_writeable", cls=cls)
        try:
            n = o.n_parameters
            if n != v.shape[0]:
                ctx.fail("as_vector_length_differs_from_n_parameters", cls=cls, got=int(v.shape[0]), n_parameters=int(n))
        except NotImplementedError:
            pass
        if digest(o) != st["d"]:
            ctx.fail("as_vector_changed_the_object", cls=cls)
        w = writeable_flags(o)
        if w != st["w"]:
            changed = [p for (p, a), (_, b) in zip(st["w"], w) if a != b]
            ctx.fail("as_vector_changed_writeability_of_the_object", cls=cls, mech=str(changed[:2]))


class FromVectorMonitor(taps.Monitor):
    name = "from_vector"

    def pre(self, ctx, args, kw):
        o = args[0]
        v = args[1] if len(args) > 1 else kw.get("vector", kw.get("flattened"))
        if not taps.is_menpo(o) or not isinstance(v, np.ndarray) or v.ndim != 1:
            return None
        if len(args) > 2 or any(k in kw for k in ("n_channels",)):
            return None
        if v.dtype.kind == "f" and not np.isfinite(v).all():
            return None
        try:
            own = np.array(o.as_vector(), copy=True)
        except NotImplementedError:
            return None
        import menpo.transform as mt
        if isinstance(o, mt.Rotation) and len(v) == 4 and (abs(float(np.dot(v, v)) - 1.0) > 1e-9 or v[0] <= 0):
            return None   # only canonical unit quaternions are in the quantifier
        if isinstance(o, mt.Similarity) and not isinstance(o, (mt.UniformScale, mt.Translation)) and np.linalg.det(np.asarray(o.h_matrix)[:-1, :-1]) < 0:
            return None   # a mirrored member has no parameter vector in this parametrisation (quaternion / [a, b, tx, ty])
        return {"d": digest(o), "own": own, "v": v.copy(), "vflag": v.flags.writeable}

    def post(self, ctx, st, args, kw, r, exc):
        import menpo.transform as mt
        import menpo.image as mi
        o = args[0]
        v = args[1] if len(args) > 1 else kw.get("vector", kw.get("flattened"))
        cls = type(o).__name__
        own = st["own"]
        right = len(st["v"]) == len(own)
        if digest(o) != st["d"]:
            ctx.fail("from_vector_changed_the_object_it_was_called_on", cls=cls, mech="right_length" if right else "wrong_length")
        if not np.array_equal(v, st["v"]) or v.flags.writeable != st["vflag"]:
            ctx.fail("from_vector_changed_the_vector", cls=cls)
        if exc is not None:
            if right:
                ctx.fail("from_vector_refused_a_right_length_vector", cls=cls, mech=type(exc).__name__, error=repr(exc)[:200])
            else:
                ctx.bump("wrong_length_refused")
            return
        if type(r) is not type(o):
            ctx.fail("from_vector_changed_the_class", cls=cls, got=type(r).__name__)
            return
        if not right:
            ctx.bump("wrong_length_accepted")
            ctx.see("wrong_length_accepted_by", cls)
            try:
                r.as_vector()
                r.n_parameters
                if isinstance(r, mt.Homogeneous):
                    r.apply(tx.probe(np.random.default_rng(3), r.n_dims, 4))
                    r.h_matrix.shape
                    # ... and is what its class says it is (a Translation is a translation matrix, an Affine has the affine bottom row)
                    # ... and is consistent with itself: it maps points the way its own matrix says, and an affine-family
                    # object keeps the affine bottom row its class refuses to be constructed without
                    from vf import refmap
                    x = tx.probe(np.random.default_rng(3), r.n_dims, 4)
                    ref = refmap.reference_apply(r, x)
                    h = np.asarray(r.h_matrix, dtype=float)
                    bad = None
                    if ref is not None and tx.maxdiff(np.asarray(r.apply(x))[ref[1]], ref[0][ref[1]]) > 1e-8 * max(1.0, float(np.abs(ref[0][ref[1]]).max()) if ref[1].any() else 1.0):
                        bad = "apply disagrees with its own h_matrix"
                    elif isinstance(r, mt.Affine) and h.shape[0] == h.shape[1] and (np.abs(h[-1, :-1]).max() > 0 or h[-1, -1] != 1):
                        bad = "affine-family object with bottom row %s" % h[-1].tolist()
                    if bad:
                        ctx.fail("wrong_length_vector_gave_a_malformed_object", cls=cls, mech="inconsistent_with_its_own_matrix", error=bad[:200],
                                 given=len(st["v"]), expected=len(own))
                else:
                    getattr(r, "n_points", None)
                    getattr(r, "shape", None)
                    str(r)
            except Exception as e:
                ctx.fail("wrong_length_vector_gave_a_malformed_object", cls=cls, mech=type(e).__name__, error=repr(e)[:200],
                         given=len(st["v"]), expected=len(own))
            return
        # aliasing between the template and the instance is recorded, not judged (the statement forbids from_vector changing
        # the object it is called on, not sharing buffers with it)
        try:
            sh = shared(r, o)
            if sh:
                ctx.bump("instance_shares_a_buffer_with_its_template_observed")
                ctx.see("shared_between_template_and_instance", (cls, str(sh[0])[:60]))
        except Exception:
            pass
        # ---- right length: from_vector(v).as_vector() == v
        back = np.asarray(r.as_vector())
        given = st["v"]
        if isinstance(o, mi.BooleanImage):
            given = given.astype(bool)
        if isinstance(o, mt.Homogeneous):
            tol = 1e-10 * max(1.0, float(np.abs(given).max()) if given.size else 1.0)
            ok = back.shape == given.shape and np.abs(back - given).max() <= tol if given.size else back.shape == given.shape
        else:
            ok = back.shape == given.shape and np.array_equal(back, given)
        if not ok:
            mech = "dtype_%s_to_%s" % (given.dtype, back.dtype) if back.shape == given.shape else "shape"
            ctx.fail("from_vector_then_as_vector_does_not_return_the_vector", cls=cls, mech=mech,
                     err=float(np.abs(back.astype(float) - given.astype(float)).max()) if back.shape == given.shape and given.size else None)
        if is_alignment(r):
            e = tx.maxdiff(r.target.points, r.apply(r.source.points))
            ctx.err("alignment_target_sync", e)
            if not (e <= 1e-9 * max(1.0, float(np.abs(r.target.points).max()))):
                ctx.fail("alignment_target_not_equal_to_aligned_source_after_update", cls=cls, err=e)
            if tx.maxdiff(r.source.points, o.source.points) > 0:
                ctx.fail("alignment_source_changed_by_from_vector", cls=cls)
            # the instance answers every query its template answers (options included) and can be retargeted like it
            with taps.quiet():
                qo, qr = warm.snapshot(o), warm.snapshot(r)
                no, nr = [n for n, a in qo if not (isinstance(a, str) and a.startswith("raises:"))], [n for n, a in qr if not (isinstance(a, str) and a.startswith("raises:"))]
                ctx.tap("instance_answers_its_templates_queries", "calls"); ctx.tap("instance_answers_its_templates_queries", "checked")
                if no != nr:
                    ctx.fail("from_vector_result_cannot_answer_a_query_its_template_answers", cls=cls, mech=",".join(sorted(set(no) ^ set(nr)))[:60])
                else:
                    for name in ("allow_mirror", "rotation"):
                        a, b = dict(qo).get(name, None), dict(qr).get(name, None)
                        if isinstance(a, (bool, np.bool_)) and a != b:
                            ctx.fail("round_trip_lost_state", cls=cls, mech=name, why="option %s: %r -> %r" % (name, a, b))
                import menpo.shape as ms
                nt = np.asarray(r.target.points, dtype=float) + np.random.default_rng(len(st["v"])).normal(scale=0.3, size=r.target.points.shape)
                try:
                    o2 = o.copy()
                    o2.set_target(ms.PointCloud(nt.copy()))
                    ok_o = True
                except Exception:
                    ok_o = False
                if ok_o:
                    try:
                        r2 = r.copy()
                        r2.set_target(ms.PointCloud(nt.copy()))
                        # same source, same options, same new target: the same fit, whatever parameters either held before
                        if tx.maxdiff(r2.h_matrix, o2.h_matrix) > 1e-8 * max(1.0, float(np.abs(o2.h_matrix).max())):
                            ctx.fail("from_vector_result_retargets_differently_from_its_template", cls=cls, err=tx.maxdiff(r2.h_matrix, o2.h_matrix))
                    except Exception as e:
                        ctx.fail("from_vector_result_cannot_be_retargeted", cls=cls, mech=type(e).__name__, error=repr(e)[:160])
        # ---- round trip of the object's own vector: complete state
        same = given.shape == own.shape and (np.array_equal(st["v"], own) if st["v"].dtype == own.dtype else False)
        if same:
            ctx.tap("round_trip_state", "calls"); ctx.tap("round_trip_state", "checked")
            if isinstance(o, mt.Homogeneous):
                if np.asarray(r.h_matrix).shape != np.asarray(o.h_matrix).shape:
                    ctx.fail("round_trip_changed_the_matrix", cls=cls, mech="shape_%s_to_%s" % (np.asarray(o.h_matrix).shape, np.asarray(r.h_matrix).shape))
                    return
                if _amax(np.asarray(r.h_matrix) - np.asarray(o.h_matrix)) > 1e-10 * max(1.0, np.abs(o.h_matrix).max()):
                    ctx.fail("round_trip_changed_the_matrix", cls=cls)
                if is_alignment(o):
                    return
                why = diff(o, r, rtol=1e-10, atol=1e-12)
                if why and why.startswith("dtype differs at ._h_matrix") and np.asarray(o.h_matrix).dtype.kind in "iu":
                    why = None          # (a matrix written in whole numbers comes back as the same numbers - judged above - in floating point)
            elif isinstance(o, mi.MaskedImage):
                why = None
                if not np.array_equal(o.mask.pixels, r.mask.pixels):
                    why = "mask differs"
                elif not np.array_equal(o.pixels[..., o.mask.mask], r.pixels[..., r.mask.mask]):
                    why = "masked pixels differ"
                elif r.pixels[..., ~r.mask.mask].any():
                    why = "pixels outside the mask are not zero"
                elif o.pixels.dtype != r.pixels.dtype:
                    why = "dtype differs"
                else:
                    # (an empty manager, created lazily by any earlier read of .landmarks, is the same state as none)
                    la, lb = (x if x is not None and len(x._landmark_groups) else None for x in (o._landmarks, r._landmarks))
                    why = diff(la, lb)
            else:
                why = diff(o, r)
                if why and "_h_matrix" in why and np.asarray(getattr(o, "_h_matrix", 0.0)).dtype.kind in "iu" and \
                        np.array_equal(np.asarray(o._h_matrix, dtype=float), np.asarray(getattr(r, "_h_matrix", np.nan), dtype=float)):
                    why = None          # (a matrix written in whole numbers comes back as the same numbers in floating point)
            if why:
                mech = "landmarks" if "_landmarks" in why or "landmark" in why else why.split(" at ")[-1].split(" ")[0][:40]
                ctx.fail("round_trip_lost_state", cls=cls, mech=mech, why=why)


def setup(ctx):
    B = taps.mod("menpo.base")
    # every class that defines as_vector / from_vector (discovered at run time: an override added later is monitored too)
    o1 = taps.tap_definers(ctx, "as_vector", lambda c: AsVectorMonitor(), base=B.Vectorizable)
    o2 = taps.tap_definers(ctx, "from_vector", lambda c: FromVectorMonitor(), base=B.Vectorizable)
    ctx.see("tapped_from_vector_definers", sorted(c.__name__ for c in o2))


def unit_quaternion(rng):
    q = rng.normal(size=4)
    q /= np.linalg.norm(q)
    if q[0] < 0:
        q = -q
    if q[0] < 0.05:
        q[0] += 0.5
        q /= np.linalg.norm(q)
    return q


def make_object(rng, i):
    """(object, descriptor)"""
    import menpo.transform as mt
    fam = i % 3
    if fam == 0:
        cls = gen.SHAPE_CLASSES[(i // 3) % 8]
        d = 2 + (i // 24) % 2
        nlm = int(rng.integers(0, 3))
        if cls in ("TriMesh", "ColouredTriMesh", "TexturedTriMesh") and rng.random() < 0.15:
            # a mesh with vertices and no triangle: a one-row / one-column grid, the mesh of a one-pixel-wide depth strip
            import menpo.shape as ms
            import menpo.image as mi
            C = getattr(ms, cls)
            k = int(rng.integers(2, 8))
            if rng.random() < 0.5:
                o = C.init_2d_grid((1, k) if rng.random() < 0.5 else (k, 1))
                d = 2
            else:
                o = C.init_from_depth_image(mi.Image(rng.random((1, 1, k) if rng.random() < 0.5 else (1, k, 1))))
                d = 3
            return o, (cls, d, "f8", "no_triangles", 0)
        o = gen.shape(rng, cls, d=d, with_landmarks=nlm)
        return o, (cls, d, "f8", "-", nlm)
    if fam == 1:
        cls = ["Image", "MaskedImage", "BooleanImage"][(i // 3) % 3]
        d = 2 + (i // 9) % 2
        dt = [np.float64, np.float32, np.uint8][(i // 18) % 3]
        mk = ["all", "random", "halfplane", "single", "block"][(i // 54) % 5]
        shp = tuple(int(v) for v in rng.integers(2, 9, size=d))
        if rng.random() < 0.2:
            # an axis of length one (a single slice cut out of a volume, a one-pixel-wide strip)
            shp = tuple(1 if k == j_ else v for k, v in enumerate(shp)) if (j_ := int(rng.integers(0, d))) >= 0 else shp
        if cls == "MaskedImage" and i % 149 == 4:
            # a large image whose mask lacks one or two pixels only (dead pixels of a sensor)
            import menpo.image as mi
            shp = (int(rng.integers(330, 420)), int(rng.integers(330, 420)))
            msk = np.ones(shp, dtype=bool)
            for _ in range(int(rng.integers(1, 3))):
                msk[rng.integers(0, shp[0]), rng.integers(0, shp[1])] = False
            o = mi.MaskedImage(rng.random((1,) + shp).astype(np.float32), mask=msk)
            return o, (cls, 2, "float32", "nearly_full_large", 0)
        o = gen.image(rng, cls, shape=shp, n_channels=int(rng.integers(1, 5)), dtype=dt, mask_kind=mk)
        nlm = int(rng.integers(0, 3))
        for g in range(nlm):
            o.landmarks["g%d" % g] = gen.shape(rng, None, d=d, n=4)
        if rng.random() < 0.3:
            o.path = "somewhere/file.png"
        return o, (cls, d, np.dtype(dt).name if cls != "BooleanImage" else "bool", mk if cls != "Image" else "-", nlm)
    K = tx.HOMOG + ["NonSquareHomogeneous", "FortranHomogeneous", "WholeNumberTranslation", "ScaleWithHistory", "IntAffine", "IntHomogeneous", "IntSimilarity"]
    kind = K[(i // 3) % len(K)]
    d = 2 + (i // (3 * len(K))) % 2
    if kind == "NonSquareHomogeneous":
        # a projection between spaces of different dimension: (n_dims_output + 1) x (n_dims + 1)
        import menpo.transform as mt
        dout = d + int(rng.choice([-1, 1]))
        h = rng.normal(size=(dout + 1, d + 1))
        h[-1, -1] = 1.0
        return mt.Homogeneous(h), (kind, d, "f8", "-", 0)
    if kind == "WholeNumberTranslation":
        # pixel offsets given as whole numbers (a list of ints, an integer array); also what such a transform hands out
        import menpo.transform as mt
        off = rng.integers(-40, 40, d)
        how = int(rng.integers(0, 4))
        o = mt.Translation([int(v) for v in off]) if how == 0 else mt.Translation(off.astype([np.int64, np.int32, np.int16][rng.integers(0, 3)]))
        if how == 2:
            o = o.pseudoinverse()
        elif how == 3:
            o = o.copy()
        return o, (kind, d, "int", "-", 0)
    if kind == "ScaleWithHistory":
        # a uniform scale that someone tried to update in place with scales of other classes ("try in place, else fall back"):
        # refused or not, the object vectorises as what it now is
        import menpo.transform as mt
        o = mt.UniformScale(float(rng.uniform(0.5, 2.0)), d)
        if rng.random() < 0.3:
            o = mt.AlignmentUniformScale(*gen.src_tgt(rng, d))
        for _ in range(int(rng.integers(1, 3))):
            other = [mt.NonUniformScale(rng.uniform(0.5, 2.0, d)), mt.UniformScale(float(rng.uniform(0.5, 2.0)), d),
                     mt.NonUniformScale(rng.uniform(0.5, 2.0, d)), mt.Translation(rng.uniform(-3, 3, d))][rng.integers(0, 4)]
            try:
                with taps.quiet():
                    getattr(o, ["compose_before_inplace", "compose_after_inplace"][rng.integers(0, 2)])(other)
            except ValueError:
                pass
        return o, (kind, d, "f8", "-", 0)
    if kind == "FortranHomogeneous":
        # a matrix adopted as it is (copy=False) in column-major layout: a transposed view, the result of a solver
        import menpo.transform as mt
        h = np.eye(d + 1) + rng.normal(scale=0.4, size=(d + 1, d + 1))
        h[-1, :-1] = rng.uniform(-0.002, 0.002, d)
        h[-1, -1] = 1.0
        hf = np.asfortranarray(h) if rng.random() < 0.5 else np.ascontiguousarray(h.T).T
        return mt.Homogeneous(hf, copy=False), (kind, d, "f8", "-", 0)
    o, _ = tx.make(rng, kind, d)
    return o, (kind, d, "f8", "-", 0)


def random_vector(rng, o, n):
    import menpo.transform as mt
    import menpo.image as mi
    if isinstance(o, mt.Rotation):
        return unit_quaternion(rng) if n == 4 else rng.normal(size=n)
    if isinstance(o, mi.BooleanImage):
        return rng.random(n) < 0.5
    if isinstance(o, (mt.UniformScale, mt.NonUniformScale)):
        v = rng.uniform(0.3, 3.0, n)
        if rng.random() < 0.3 and n:
            v = v * rng.choice([-1.0, 1.0], n)     # mirrored axes / a point reflection
        if rng.random() < 0.2 and n:
            v[rng.integers(0, n)] = 0.0          # a collapsed axis is a legal (if degenerate) scale: the constructors accept it
        return v
    v = rng.normal(size=n) * 3
    k = int(rng.integers(0, 4))
    if k == 1:
        v = v.astype(np.float32)
    elif k == 2:
        big = np.zeros(2 * n)
        big[::2] = v
        v = big[::2]
    elif k == 3:
        v.flags.writeable = False
    return v


def w_objects(ctx, rng, i):
    o, desc = make_object(rng, i)
    cls = type(o).__name__
    warmed = bool(rng.random() < 0.5)
    if warmed:
        # history: the object has already answered all its read-only queries (whatever it memoised must not matter later)
        ctx.bump("queries_answered_before_vectorisation", warm.warm(o))
    desc = desc + ("warm" if warmed else "cold",)
    try:
        v = o.as_vector()
    except NotImplementedError:
        try:
            o.n_parameters
        except NotImplementedError:
            pass
        ctx.count_case(desc + ("not_vectorizable",), nontrivial=False)
        return
    n = len(v)
    kinds = []
    import menpo.image as _mi
    if isinstance(o, _mi.Image):
        vk = o.as_vector(keep_channels=True)
        if np.asarray(vk).reshape(-1).shape != np.asarray(v).shape or not np.array_equal(np.asarray(vk).reshape(-1), np.asarray(v)):
            ctx.fail("as_vector_not_repeatable", cls=cls, mech="keep_channels_form_holds_other_numbers")
    # (1) the read-only result of as_vector handed straight back
    r = o.from_vector(v)
    kinds.append("own")
    # the round-tripped object round-trips again and is itself usable
    v2 = r.as_vector()
    r.from_vector(v2)
    # (2) random right-length vectors
    for _ in range(2):
        w = random_vector(rng, o, n)
        o.from_vector(w)
        kinds.append("random_%s" % w.dtype)
    # (2b) the all-zero vector where it is a member's parameter vector (these classes are parametrised as increments over the
    # identity: zero is the identity map, a vector like any other)
    import menpo.transform as _mt5
    if isinstance(o, (_mt5.Affine,)) and not isinstance(o, (_mt5.UniformScale, _mt5.NonUniformScale, _mt5.Rotation)) and n and \
            not (isinstance(o, _mt5.Similarity) and not isinstance(o, _mt5.Translation) and o.n_dims == 3):
        try:
            z = o.from_vector(np.zeros(n))
            kinds.append("zero_vector")
            if tx.maxdiff(np.asarray(z.h_matrix, dtype=float), np.eye(o.n_dims + 1)) > 1e-12:
                ctx.fail("from_vector_then_as_vector_does_not_return_the_vector", cls=cls, mech="zero_vector_is_not_the_identity_map")
        except Exception as e:
            ctx.fail("from_vector_refused_a_right_length_vector", cls=cls, mech="zero_vector:" + type(e).__name__)
    # (3) wrong lengths
    for m in (n - 1, n + 1, n + 3, 0):
        if m < 0 or m == n:
            continue
        try:
            o.from_vector(random_vector(rng, o, m))
        except Exception:
            pass
        kinds.append("wrong")
    # (3b) images: the vector is the pixels the object holds *now* - also after they were edited in place (pixels, mask)
    if isinstance(o, _mi.Image) and not isinstance(o, _mi.BooleanImage) and o.pixels.dtype.kind == "f" and n:
        o2 = o.copy()
        o2.as_vector()
        o2.pixels[...] = o2.pixels * 0.5 + 1.25
        if isinstance(o2, _mi.MaskedImage) and o2.mask.pixels.size > 1 and not o2.mask.all_true() and rng.random() < 0.5:
            flat_ = o2.mask.pixels.reshape(-1)
            flat_[int(rng.integers(0, flat_.size))] ^= True
        exp_ = (o2.pixels[:, o2.mask.mask] if isinstance(o2, _mi.MaskedImage) else o2.pixels).reshape(-1)
        got_ = np.asarray(o2.as_vector())
        ctx.tap("vector_after_in_place_edits", "calls"); ctx.tap("vector_after_in_place_edits", "checked")
        if got_.shape != exp_.shape or not np.array_equal(got_, exp_):
            ctx.fail("as_vector_not_repeatable", cls=cls, mech="vector_does_not_follow_in_place_edits_of_the_pixels_or_mask")
        kinds.append("edited_in_place")
    # (4) as_vector twice gives equal vectors and later edits of the object do not reach an earlier vector's values
    v3 = o.as_vector()
    if not np.array_equal(np.asarray(v), np.asarray(v3)):
        ctx.fail("as_vector_not_repeatable", cls=cls)
    import menpo.image as mi
    nontriv = desc[4] > 0 or (desc[3] not in ("-", "all")) or (i % 3 == 2)
    ctx.see("classes", cls)
    ctx.count_case(desc + (tuple(sorted(set(kinds))),), nontrivial=nontriv,
                   sample={"cls": cls, "descriptor": list(desc), "n_parameters": int(n)} if i < 8 else None)


WORKLOADS = [Workload("objects", w_objects, quick=5400, thorough=270000)]
