"""C07  Alignments recover exact maps, fit optimally where promised, and interpolate.

Taps at the end of every alignment constructor and of set_target (judged against the target the caller supplied,
kept by the monitor), and on aligned_source / alignment_error.  Family judges in vf/align.py use independent
reference code (centroids, normal equations + lstsq, Kabsch/SVD + competitor search, barycentric combinations).
"""
import numpy as np

from vf.core import Workload
from vf import taps, gen, tx, align, ref
from vf.digest import digest

ID = "C07"
TECHNIQUE = "runtime monitoring: taps at the end of alignment constructors / set_target with independent least-squares references (lstsq, Kabsch, competitor search)"
LEVEL_TEXT = ("Every alignment built or retargeted (translation, uniform scale, rotation, similarity with/without rotation and mirroring, affine, TPS, PWA cached and not, "
              "GPA members) on synthesised exact targets and noisy targets is judged against independent reference solutions for exact recovery, optimality, "
              "interpolation, affinity per triangle and continuity; held-on-what-was-observed")
LEVEL_NOTE = "trusted: numpy.linalg (svd, lstsq) based references in vf/align.py and vf/ref.py; tolerance 1e-8..1e-7 relative to the data scale"
DESIGN_REF = "DESIGN.md section 7, C07"
RULE = ("sources of 3-40 points in general position (2D; 3D for the homogeneous family); targets = random member of the family applied to the source (exact recovery) "
        "plus noise at 4 levels (0, 1e-3, 1e-1, 1) incl. mirrored targets; GPA with and without fixed target; non-trivial = non-degenerate source and target differing from "
        "the source; distinct = (class, dims, options, noise level, mirrored target, n_points bucket)")
ASSUMPTIONS = ["'scale and similarity alignments reproduce centroid and size' is read as size for both and centroid for the similarity only (a scale about the origin cannot move a centroid)",
               "similarity rotations are compared by cost, not by matrix (the optimum is not unique for few or coplanar points)",
               "TPS exactness is judged only when no singular value of the system is within 3x of the floor"]
DECIDING_TAPS = ["alignment_ctor", "aligned_source", "alignment_error"]
REPLAY_PATHS = ['menpo/transform/test']      # suite replay (thorough tier): the repository's own tests under these monitors
SHARDS = {"quick": 8, "thorough": 16}


class CtorMonitor(taps.Monitor):
    name = "alignment_ctor"

    def __init__(self, owner):
        self.owner = owner

    def pre(self, ctx, args, kw):
        t = args[0]
        if type(t) is not self.owner and not (self.owner.__name__ == "PythonPWA" and type(t).__name__ == "PythonPWA"):
            return None
        if type(t) is not self.owner:
            return None
        src = args[1] if len(args) > 1 else kw.get("source")
        tgt = args[2] if len(args) > 2 else kw.get("target")
        if not (taps.is_menpo(src) and taps.is_menpo(tgt)):
            return None
        if src.n_points != tgt.n_points or src.n_dims != tgt.n_dims or src.n_points < 3:
            return None
        if not (np.isfinite(src.points).all() and np.isfinite(tgt.points).all()):
            return None
        c = src.points - src.points.mean(0)
        sv = np.linalg.svd(c, compute_uv=False)
        if sv[-1] < 1e-3 * sv[0]:
            return None    # degenerate source: outside the quantifier
        opts = align.ctor_options(self.owner, args, kw)
        from menpo.transform.piecewiseaffine.base import AbstractPWA
        if issubclass(self.owner, AbstractPWA):
            opts["_source_arg"] = src.copy()       # a mesh handed over as source keeps its own triangles: "each source triangle" means those
        return {"src": src.points.copy(), "tgt": tgt.points.copy(), "opts": opts, "sd": digest(src), "td": digest(tgt)}

    def post(self, ctx, st, args, kw, r, exc):
        t = args[0]
        cls = type(t).__name__
        if exc is not None:
            ctx.fail("alignment_constructor_raised", cls=cls, mech=type(exc).__name__, error=repr(exc)[:200])
            return
        src = args[1] if len(args) > 1 else kw.get("source")
        tgt = args[2] if len(args) > 2 else kw.get("target")
        if digest(src) != st["sd"] or digest(tgt) != st["td"]:
            ctx.fail("alignment_constructor_modified_the_callers_point_sets", cls=cls)
        align.SHADOW[id(t)] = (t, st["opts"])
        ctx.see("alignment_classes", (cls, str(sorted(((k, v) for k, v in st["opts"].items() if not k.startswith("_")), key=str))))
        judge_common(ctx, t, st["src"], st["tgt"], "ctor")
        align.judge_family(ctx, t, st["src"], st["tgt"], st["opts"], "ctor")


def judge_common(ctx, t, src, tgt, where):
    cls = type(t).__name__
    scale = max(1.0, float(np.abs(tgt).max()))
    if tx.maxdiff(t.target.points, tgt) > 0:
        ctx.fail("alignment_does_not_keep_the_target_it_was_given", cls=cls, mech=where, err=tx.maxdiff(t.target.points, tgt))
    if tx.maxdiff(t.source.points, src) > 0:
        ctx.fail("alignment_does_not_keep_the_source_it_was_given", cls=cls, mech=where)
    try:
        y = np.asarray(t.apply(src.copy()))
    except Exception as e:
        ctx.fail("alignment_cannot_be_applied_to_its_own_source", cls=cls, mech=where + ":" + type(e).__name__)
        return
    a = t.aligned_source().points
    if tx.maxdiff(a, y) > 1e-9 * scale:
        ctx.fail("aligned_source_is_not_the_transform_applied_to_the_source", cls=cls, mech=where)
    # ... however the application is split into batches, and whatever the dtype of the source coordinates
    bs = 1 + (len(src) * 7 + 3) % max(1, len(src) - 1)
    try:
        yb = np.asarray(t.apply(src.copy(), batch_size=bs))
        if tx.maxdiff(a, yb) > 1e-9 * scale:
            ctx.fail("aligned_source_is_not_the_transform_applied_to_the_source", cls=cls, mech=where + ":batched:" + src.dtype.kind, err=tx.maxdiff(a, yb))
    except Exception as e:
        ctx.fail("alignment_cannot_be_applied_to_its_own_source", cls=cls, mech=where + ":batched:" + type(e).__name__)
    e_got = float(t.alignment_error())
    e_ref = float(np.linalg.norm(y - tgt))
    if abs(e_got - e_ref) > 1e-8 * scale:
        ctx.fail("alignment_error_is_not_the_distance_to_the_supplied_target", cls=cls, mech=where, reported=e_got, actual=e_ref)


class SetTargetMonitor(taps.Monitor):
    name = "set_target"

    def pre(self, ctx, args, kw):
        from menpo.transform.base import Alignment
        t, new = args[0], args[1] if len(args) > 1 else kw.get("new_target")
        if not isinstance(t, Alignment) or not taps.is_menpo(new) or id(t) not in align.SHADOW:
            return None
        if new.n_points != t.source.n_points or new.n_dims != t.source.n_dims or not np.isfinite(new.points).all():
            return None
        return {"tgt": new.points.copy(), "src": t.source.points.copy(), "opts": align.SHADOW[id(t)][1]}

    def post(self, ctx, st, args, kw, r, exc):
        t = args[0]
        if exc is not None:
            ctx.fail("set_target_raised_on_a_valid_target", cls=type(t).__name__, mech=type(exc).__name__, error=repr(exc)[:200])
            return
        judge_common(ctx, t, st["src"], st["tgt"], "set_target")
        align.judge_family(ctx, t, st["src"], st["tgt"], st["opts"], "set_target")


class QueryMonitor(taps.Monitor):
    def __init__(self, name):
        self.name = name

    def pre(self, ctx, args, kw):
        return {} if taps.is_menpo(args[0]) else None

    def post(self, ctx, st, args, kw, r, exc):
        t = args[0]
        cls = type(t).__name__
        if exc is not None:
            return
        y = np.asarray(t.apply(t.source.points.copy()))
        if self.name == "aligned_source":
            if tx.maxdiff(r.points, y) > 1e-9 * max(1.0, np.abs(y).max()):
                ctx.fail("aligned_source_is_not_the_transform_applied_to_the_source", cls=cls, mech="query")
        else:
            ref_e = float(np.linalg.norm(y - t.target.points))
            if abs(float(r) - ref_e) > 1e-8 * max(1.0, ref_e):
                ctx.fail("alignment_error_is_not_the_distance_between_aligned_source_and_target", cls=cls, mech="query")


def replay_case_begin():
    align.clear_shadow()


def setup(ctx):
    for c in align.alignment_classes():
        taps.tap(ctx, c, "__init__", CtorMonitor(c))
    A = taps.mod("menpo.transform.base.alignment").Alignment
    taps.tap(ctx, taps.mod("menpo.base").Targetable, "set_target", SetTargetMonitor())
    taps.tap(ctx, A, "aligned_source", QueryMonitor("aligned_source"))
    taps.tap(ctx, A, "alignment_error", QueryMonitor("alignment_error"))


KINDS = ["AlignmentTranslation", "AlignmentUniformScale", "AlignmentRotation", "AlignmentSimilarity", "AlignmentAffine",
         "ThinPlateSplines", "PiecewiseAffine", "PythonPWA"]
NOISE = [0.0, 1e-3, 1e-1, 1.0]


def family_member(rng, kind, d, opts):
    """A random member of the alignment's own family as an (L, t) pair."""
    if kind == "AlignmentTranslation":
        return np.eye(d), rng.uniform(-5, 5, d)
    near_one = 1.0 + rng.choice([-1.0, 1.0]) * 10.0 ** rng.uniform(-7.5, -3) if rng.random() < 0.2 else None    # (shapes normalised to almost the same size)
    if kind == "AlignmentUniformScale":
        return np.eye(d) * (near_one or rng.uniform(0.4, 2.5)), np.zeros(d)
    if kind == "AlignmentRotation":
        return gen.rotation_matrix(rng, d, mirror=bool(opts.get("allow_mirror") and rng.random() < 0.5)), np.zeros(d)
    if kind == "AlignmentSimilarity":
        r = gen.rotation_matrix(rng, d, mirror=bool(opts.get("allow_mirror") and rng.random() < 0.5)) if opts.get("rotation", True) else np.eye(d)
        return r * (near_one or rng.uniform(0.4, 2.5)), rng.uniform(-5, 5, d)
    return gen.well_conditioned(rng, d), rng.uniform(-5, 5, d)


def disturb(ctx, rng, t, src, tgt, opts, fold_free=False):
    """History: objects derived from the alignment (a copy, an instance from a parameter vector) are changed afterwards -
    the alignment itself still is the fit of its source to its own target."""
    import menpo.shape as ms
    if rng.random() < 0.5:
        return
    ctx.bump("alignments_judged_again_after_a_derived_object_changed")
    with taps.quiet():
        c = t.copy()
        p = np.asarray(tgt, dtype=float)
        p = p + rng.normal(scale=0.02 if fold_free else 0.5, size=p.shape) + (0 if fold_free else rng.uniform(-3, 3, p.shape[1]))
        ok = True
        if fold_free:
            tl = np.asarray(t.source.trilist)
            ok = bool((np.sign(gen.tri_area2(t.source.points, tl)) == np.sign(gen.tri_area2(p, tl))).all())
        if ok:
            c.set_target(ms.PointCloud(p))
        try:
            v = np.array(t.as_vector())
            t.from_vector(v * 1.01 + 0.01)
            c.from_vector_inplace(v * 0.99 - 0.01) if hasattr(c, "from_vector_inplace") else c._from_vector_inplace(v * 0.99 - 0.01)
        except Exception:
            pass
    judge_common(ctx, t, np.asarray(src), np.asarray(tgt, dtype=float), "after_a_copy_changed")
    align.judge_family(ctx, t, np.asarray(src, dtype=float), np.asarray(tgt, dtype=float), opts, "after_a_copy_changed")


def w_align(ctx, rng, i):
    import menpo.transform as mt
    import menpo.shape as ms
    from menpo.transform.piecewiseaffine.base import PythonPWA, CachedPWA
    from menpo.transform.rbf import R2LogR2RBF, R2LogRRBF
    align.clear_shadow()
    kind = KINDS[i % len(KINDS)]
    warp = kind in ("ThinPlateSplines", "PiecewiseAffine", "PythonPWA")
    d = 2 if warp else 2 + (i // len(KINDS)) % 2
    noise = NOISE[(i // (2 * len(KINDS))) % 4]
    n = int(rng.integers(max(3, d + 1), 41 if ctx.tier == "thorough" else 16))
    opts = {}
    if kind == "AlignmentSimilarity":
        opts = {"rotation": gen.flag(rng, 0.75), "allow_mirror": gen.flag(rng, 0.4)}
    if kind == "AlignmentRotation":
        opts = {"allow_mirror": gen.flag(rng, 0.4)}
    mirrored_target = False
    if warp:
        if kind == "ThinPlateSplines":
            s, tg = tx.tps_pair(rng, n=max(5, min(n, 14)))
            if rng.random() < 0.25:
                # two surveys of one site in map coordinates: far from the origin, a few units apart, a small non-rigid residual
                unit = 10.0 ** rng.uniform(3.5, 5.2)
                sp_ = s.points * unit / tx.BOX + (rng.uniform(1, 5, 2) * unit if rng.random() < 0.5 else 0.0)
                s = ms.PointCloud(sp_)
                tg = ms.PointCloud(sp_ + rng.uniform(-8, 8, 2) + rng.normal(scale=10.0 ** rng.uniform(-1.5, 0.3), size=sp_.shape))
                opts["unit"] = "map"
            k = int(rng.integers(0, 3))
            kern = [None, R2LogR2RBF(s.points.copy()), R2LogRRBF(s.points.copy())][k]
            t = mt.ThinPlateSplines(s, tg, kernel=kern, min_singular_val=[1e-4, 1e-6][rng.integers(0, 2)])
            opts = dict(opts, kernel=type(kern).__name__)
            if opts.get("unit") == "map":
                # (far from the origin the spline system has a singular value below the documented floor, so the construction
                # monitor does not demand exact interpolation: the spline is compared with the reference solution that applies the
                # same documented cut - which does interpolate to ~1e-12 x unit on the unchanged tree)
                from vf import refmap
                ref_ = refmap.reference_apply(t, np.asarray(s.points, dtype=float))
                got_ = np.asarray(t.apply(np.asarray(s.points, dtype=float).copy()))
                ctx.tap("map_unit_spline_vs_reference", "calls")
                if ref_ is not None:
                    ctx.tap("map_unit_spline_vs_reference", "checked")
                    e_ = tx.maxdiff(got_, ref_[0])
                    ctx.err("map_unit_spline_vs_reference_rel", e_ / unit)
                    if not (e_ <= 1e-8 * unit):
                        ctx.fail("spline_does_not_send_source_landmarks_onto_target_landmarks", cls="ThinPlateSplines", mech="map_coordinates:differs_from_the_reference_solution", err=e_, unit=unit)
        else:
            s, tg = tx.pwa_pair(rng)
            cls = CachedPWA if kind == "PiecewiseAffine" else PythonPWA
            compact = rng.random() < 0.06
            if compact:
                # a grid mesh of < 256 vertices whose triangle list is stored in the narrowest type that holds its vertex indices -
                # it has about twice as many triangles as vertices
                gshape = (int(rng.integers(12, 16)), int(rng.integers(12, 16)))
                while gshape[0] * gshape[1] > 255:
                    gshape = (gshape[0] - 1, gshape[1])
                gm = ms.TriMesh.init_2d_grid(gshape)
                sp_ = gm.points * (2.0 * tx.BOX / max(gshape)) - tx.BOX
                s = ms.TriMesh(sp_, trilist=np.asarray(gm.trilist).astype(np.uint8))
                tg = ms.PointCloud(sp_ @ (np.eye(2) + rng.uniform(-0.15, 0.15, (2, 2))).T + rng.uniform(-3, 3, 2) + rng.normal(scale=0.05, size=sp_.shape))
                opts["compact_trilist"] = True
            if not compact and rng.random() < 0.15:
                # the source mesh in integer pixel positions (signed or unsigned, 8 to 32 bits)
                sdt = [np.int16, np.int32, np.uint16, np.uint8][rng.integers(0, 4)]
                span_ = float(np.ptp(s.points, axis=0).max())
                kk_ = (200.0 if sdt is np.uint8 else float(rng.uniform(300, 3000))) / max(span_, 1e-9)
                pu_ = np.round((s.points - s.points.min(0)) * kk_ + 3)
                a2_, b2_ = gen.tri_area2(s.points, np.asarray(s.trilist)), gen.tri_area2(pu_, np.asarray(s.trilist))
                if pu_.max() < np.iinfo(sdt).max and (np.sign(a2_) == np.sign(b2_)).all() and np.abs(b2_).min() > 4.0:
                    s = ms.TriMesh(pu_.astype(sdt), trilist=np.asarray(s.trilist))
                    opts["integer_source"] = np.dtype(sdt).name
                    compact = True          # (kept as the mesh it is: no unit change, no re-triangulation below)
                    ctx.bump("warps_from_integer_pixel_sources")
            if not compact and rng.random() < 0.2:
                # the target as integer pixel positions in the compact type an annotation tool stores them in
                udt = [np.uint16, np.int16, np.uint8][rng.integers(0, 3)]
                span_ = float(np.ptp(tg.points, axis=0).max())
                kk_ = (200.0 if udt is np.uint8 else float(rng.uniform(300, 3000))) / max(span_, 1e-9)
                pu_ = np.round((tg.points - tg.points.min(0)) * kk_ + 3)
                a2_, b2_ = gen.tri_area2(s.points, np.asarray(s.trilist)), gen.tri_area2(pu_, np.asarray(s.trilist))
                if pu_.max() < np.iinfo(udt).max and (np.sign(a2_) == np.sign(b2_)).all() and np.abs(b2_).min() > 4.0:
                    tg = ms.PointCloud(pu_.astype(udt))
                    opts["integer_target"] = np.dtype(udt).name
                    ctx.bump("warps_onto_integer_pixel_targets")
            elif rng.random() < 0.35:
                # the same mesh in any unit (metres for a sub-millimetre object ... map coordinates)
                unit = 10.0 ** rng.uniform(-6, 3)
                s = ms.TriMesh(s.points * unit, trilist=s.trilist)
                tg = ms.PointCloud(tg.points * unit)
                opts["unit"] = "small" if unit < 1e-2 else "large" if unit > 30 else "unit"
            r_ = rng.random() if not compact else 0.99
            if r_ < 0.4:
                s = ms.PointCloud(s.points)      # PWA triangulates a bare point cloud itself
            elif r_ < 0.75:
                # the source is a mesh in its own right: its own triangle list (not the Delaunay one), possibly coloured / textured
                tl_f = tx.flip_an_edge(rng, s.points, tg.points, s.trilist)
                if tl_f is not None:
                    opts["own_triangulation"] = True
                else:
                    tl_f = np.asarray(s.trilist)
                mk = int(rng.integers(0, 3))
                if mk == 0:
                    s = ms.TriMesh(s.points, trilist=tl_f)
                elif mk == 1:
                    s = ms.ColouredTriMesh(s.points, trilist=tl_f, colours=rng.random((len(s.points), 3)))
                else:
                    from menpo.image import Image
                    s = ms.TexturedTriMesh(s.points, rng.random((len(s.points), 2)), Image(rng.random((1, 5, 6))), trilist=tl_f)
                opts["source_class"] = type(s).__name__
            if rng.random() < 0.4:
                # the target handed over as a mesh with a triangulation of its own (other triangles / other row order)
                from scipy.spatial import Delaunay
                own = Delaunay(tg.points).simplices.astype(np.int64)
                own = own[rng.permutation(len(own))][:, rng.permutation(3)]
                tg = ms.TriMesh(tg.points, trilist=own)
            if hasattr(s, "trilist"):
                # (a source "mesh" one of whose vertices lies inside a triangle it is not a corner of is no triangulation: the
                # edge flip above can produce one in rare configurations - such cases are not driven)
                from vf import refmap as _rm7
                sp7, tl7 = np.asarray(s.points, dtype=float), np.asarray(s.trilist)
                w7 = _rm7.barycentric(sp7, tl7, sp7)                      # (n_pts, n_tris, 3)
                inside7 = np.nan_to_num(w7.min(-1), nan=-1.0, neginf=-1.0) > 1e-9
                corner7 = np.zeros_like(inside7)
                for k7, tri7 in enumerate(tl7):
                    corner7[tri7, k7] = True
                if (inside7 & ~corner7).any():
                    ctx.count_case((kind, d, "overlapping_source_triangles"), nontrivial=False)
                    return
            t = cls(s, tg)
        # retarget once: the same judges run at the end of set_target
        new = t.target.copy()
        new.points = new.points + rng.normal(scale=0.05, size=new.points.shape) * float(np.abs(t.source.points).max()) / tx.BOX
        okfold = True
        if kind != "ThinPlateSplines":
            tl = np.asarray(t.source.trilist)
            a2, b2 = gen.tri_area2(t.source.points, tl), gen.tri_area2(new.points, tl)
            okfold = bool((np.sign(a2) == np.sign(b2)).all())
        if okfold:
            t.set_target(new)
        disturb(ctx, rng, t, t.source.points.copy(), t.target.points.copy(), align.SHADOW.get(id(t), (None, {}))[1], fold_free=(kind != "ThinPlateSplines"))
        # history: asking for the inverse (as every landmark-carrying image warp does) must leave the alignment intact
        inv = t.pseudoinverse()
        judge_common(ctx, inv, t.target.points.copy(), t.source.points.copy(), "inverse")
        align.judge_family(ctx, t, t.source.points.copy(), t.target.points.copy(), align.SHADOW.get(id(t), (None, {}))[1], "after_pseudoinverse")
        judge_common(ctx, t, t.source.points.copy(), t.target.points.copy(), "after_pseudoinverse")
    else:
        src = gen.general_position(rng, n, d)
        if rng.random() < 0.3:
            # any overall size and position: unit-normalised shapes, pixel coordinates of large images, far from the origin
            sc = 10.0 ** rng.uniform(-2, 3)
            far = 1.3 if kind == "AlignmentAffine" else 5.0       # map coordinates: up to 1e6 extents away (the affine fit squares the conditioning: up to ~200)
            src = src * sc + rng.uniform(-1, 1, d) * sc * 10.0 * 10.0 ** rng.uniform(0, far)
        int_src = bool(rng.random() < 0.25)
        if int_src:
            # landmark coordinates are often integer pixel positions: integer-typed sources are ordinary input
            ext = float(np.ptp(src, axis=0).min())
            cand = np.round(src * (max(1.0, 40.0 / max(ext, 1e-300)))).astype(np.int64)
            sv = np.linalg.svd(cand - cand.mean(0), compute_uv=False)
            if sv[-1] > 0.1 * sv[0] and len(np.unique(cand, axis=0)) == len(cand):      # still in general position after rounding
                src = cand
                if rng.random() < 0.4:
                    # unsigned pixel coordinates (image positions stored as uint16 / uint32)
                    shifted = cand - cand.min(0) + int(rng.integers(0, 20))
                    if shifted.max() < 60000:
                        src = shifted.astype([np.uint16, np.uint32][rng.integers(0, 2)])
                ctx.bump("integer_typed_sources")
        L, tr = family_member(rng, kind, d, opts)
        tgt = src @ L.T + tr
        if noise:
            tgt = tgt + rng.normal(scale=noise * max(1e-3, float(np.abs(src - src.mean(0)).max()) / 10.0), size=tgt.shape)
        if kind in ("AlignmentRotation", "AlignmentSimilarity") and rng.random() < 0.3:
            # a target whose best orthogonal fit is a reflection
            tgt = tgt.copy()
            tgt[:, 0] = -tgt[:, 0]
            mirrored_target = True
        if int_src and np.asarray(src).dtype.kind in "iu" and rng.random() < 0.8 and max(float(np.abs(tgt).max()), float(np.abs(src).max())) < 32000:
            # both point sets are integer pixel positions in a compact type (the target rounded onto the grid: a noisy target)
            if np.asarray(src).dtype.kind == "i":
                src, tgt = src.astype(np.int16), np.round(tgt).astype(np.int16)
                noise = noise or 0.3
                ctx.bump("integer_typed_sources_and_targets")
            elif float(np.min(tgt)) >= 0:
                tgt = np.round(tgt).astype(np.asarray(src).dtype)
                noise = noise or 0.3
                ctx.bump("integer_typed_sources_and_targets")
        S, T = ms.PointCloud(src), ms.PointCloud(tgt)
        if rng.random() < 0.25 and len(src) >= 5:
            # the point sets are meshes some of whose vertices no triangle uses (landmark vertices added to a surface, a mesh cut
            # by a triangle mask): an alignment is a statement about the point sets
            def loose(p_):
                k_ = int(rng.integers(3, len(p_) - 1))
                tl_ = np.array([rng.choice(k_, 3, replace=False) for _ in range(int(rng.integers(1, 5)))])
                return ms.TriMesh(p_, trilist=tl_)
            w_ = int(rng.integers(0, 3))
            if w_ in (0, 2):
                S = loose(src)
            if w_ in (1, 2):
                T = loose(tgt)
            ctx.bump("meshes_with_vertices_no_triangle_uses")
        t = getattr(mt, kind)(S, T, **opts)
        if rng.random() < 0.3:
            # a target of another size / dimensionality is refused - and the alignment goes on reporting the target (and being the
            # fit) it had
            h0_, tp0_ = np.array(t.h_matrix, dtype=float), np.array(t.target.points, copy=True)
            bad_ = ms.PointCloud(rng.normal(size=(len(src) + int(rng.integers(1, 3)), d))) if rng.random() < 0.6 else ms.PointCloud(rng.normal(size=(len(src), 5 - d)))
            ctx.tap("mismatched_target_refused", "calls"); ctx.tap("mismatched_target_refused", "checked")
            try:
                with taps.quiet():
                    t.set_target(bad_)
                ctx.fail("mismatched_target_accepted", cls=kind, mech="points_%d_to_%d:dims_%d_to_%d" % (len(src), bad_.n_points, d, bad_.n_dims))
            except Exception:
                pass
            if np.asarray(t.target.points).shape != tp0_.shape or tx.maxdiff(t.target.points, tp0_) > 0 or tx.maxdiff(np.asarray(t.h_matrix, dtype=float), h0_) > 0:
                ctx.fail("refused_target_changed_the_alignment", cls=kind, mech="target" if np.asarray(t.target.points).shape != tp0_.shape or tx.maxdiff(t.target.points, tp0_) > 0 else "matrix")
        if rng.random() < 0.3 and not int_src:
            # the same point sets in single precision (what a float32 pipeline hands over): accepted, and the same fit to
            # single-precision accuracy
            with taps.quiet():
                try:
                    t32 = getattr(mt, kind)(ms.PointCloud(np.asarray(src, dtype=np.float32)), ms.PointCloud(np.asarray(tgt, dtype=np.float32)), **opts)
                    pr_ = np.asarray(src, dtype=float)
                    e32 = tx.maxdiff(np.asarray(t32.apply(pr_.copy()), dtype=float), np.asarray(t.apply(pr_.copy()), dtype=float))
                except Exception as ex_:
                    t32, e32 = None, repr(ex_)[:160]
            ctx.tap("single_precision_point_sets", "calls"); ctx.tap("single_precision_point_sets", "checked")
            sc32 = max(1.0, float(np.abs(src).max()), float(np.abs(tgt).max()))
            c32 = float(np.linalg.cond((np.asarray(src, dtype=float) - np.asarray(src, dtype=float).mean(0)) / sc32))
            if t32 is None:
                ctx.fail("alignment_refuses_single_precision_point_sets", cls=kind, mech=e32.split("(")[0], error=e32)
            elif c32 < 1e3 and float(np.abs(np.asarray(src, dtype=float).mean(0)).max()) < 30 * float(np.ptp(np.asarray(src, dtype=float), axis=0).max()):
                ctx.err("single_precision_fit_vs_double_rel", e32 / sc32)
                if not (e32 <= 2e-2 * sc32):
                    ctx.fail("single_precision_fit_differs_from_the_double_precision_fit", cls=kind, mech=str(sorted((k_, bool(v_)) for k_, v_ in opts.items())), err=e32)
        if noise == 0.0 and not mirrored_target:
            # exact recovery of the family member
            h = np.asarray(t.h_matrix)
            e = max(np.abs(h[:d, :d] - L).max(), np.abs(h[:d, d] - tr).max())
            ctx.err("exact_recovery", e)
            ctx.tap("exact_recovery", "calls"); ctx.tap("exact_recovery", "checked")
            # the affine fit goes through the normal equations: allow for their conditioning
            a_h = np.hstack([src, np.ones((len(src), 1))])
            cond = np.linalg.cond(a_h / np.abs(a_h).max(axis=0))
            # the affine fit goes through the normal equations (condition number squared); the other families centre the data first
            rtol = max(1e-7, 1e-13 * cond ** 2) if kind == "AlignmentAffine" else max(1e-9, 3e-14 * cond)
            if not (e <= rtol * max(1.0, np.abs(tr).max(), np.abs(tgt).max())) or not (t.alignment_error() <= rtol * max(1.0, np.abs(tgt).max()) * np.sqrt(len(src))):
                ctx.fail("family_member_not_recovered", cls=kind, mech=str(sorted((k_, bool(v_) if isinstance(v_, (bool, np.bool_, int)) else v_) for k_, v_ in opts.items())), err=float(e))
        disturb(ctx, rng, t, src, tgt, opts)
        if rng.random() < 0.3:
            # the caller refreshes the coordinates of the target object it handed over (in place) and hands the same object over again
            L3, tr3 = family_member(rng, kind, d, opts)
            T.points[...] = (src @ L3.T + tr3 + (rng.normal(scale=noise, size=src.shape) if noise else 0)).astype(T.points.dtype)
            t.set_target(T)       # judged by the set_target tap against the new coordinates
            ctx.bump("retargets_with_the_held_object_edited_in_place")
        # and a retarget with another synthesised target
        L2, tr2 = family_member(rng, kind, d, opts)
        tgt2 = src @ L2.T + tr2 + (rng.normal(scale=noise, size=src.shape) if noise else 0)
        t.set_target(ms.PointCloud(tgt2))
        t.aligned_source(); t.alignment_error()
        inv = t.pseudoinverse()
        align.judge_family(ctx, t, src, tgt2 if isinstance(tgt2, np.ndarray) else np.asarray(tgt2), opts, "after_pseudoinverse")
        # the inverse is itself an alignment (from the old target to the old source): its own queries are consistent
        judge_common(ctx, inv, np.asarray(tgt2, dtype=float), src, "inverse")
        # ... and the member of the family that undoes the fit: back from the aligned source to the source, so - for targets that
        # differ from the source by a member of the family - from the target onto the source
        ctx.tap("inverse_alignment_undoes_the_fit", "calls"); ctx.tap("inverse_alignment_undoes_the_fit", "checked")
        srcf = np.asarray(src, dtype=float)
        sc_ = max(1.0, float(np.abs(srcf).max()), float(np.abs(np.asarray(tgt2, dtype=float)).max()))
        cnd_ = float(np.linalg.cond(np.asarray(t.h_matrix, dtype=float)[:d, :d]))
        if cnd_ < 1e6:
            back = np.asarray(inv.apply(np.asarray(t.apply(srcf.copy()))))
            if not (tx.maxdiff(back, srcf) <= 1e-9 * cnd_ * sc_):
                ctx.fail("inverse_alignment_does_not_undo_the_alignment", cls=kind, mech=str(sorted((k_, bool(v_) if isinstance(v_, (bool, np.bool_, int)) else v_) for k_, v_ in opts.items())), err=tx.maxdiff(back, srcf))
            if noise == 0.0 and not (float(inv.alignment_error()) <= 1e-7 * cnd_ * sc_ * np.sqrt(len(srcf))):
                ctx.fail("inverse_alignment_does_not_undo_the_alignment", cls=kind, mech="exact_member:alignment_error", err=float(inv.alignment_error()))
        if rng.random() < 0.5:
            # ... and a working one: retargeted, it is the fit of *its* source (the old target) to the new target
            isrc = np.asarray(inv.source.points, dtype=float).copy()
            L4, tr4 = family_member(rng, kind, d, opts)
            tgt4 = isrc @ L4.T + tr4 + (rng.normal(scale=noise, size=isrc.shape) if noise else 0)
            with taps.quiet():
                inv.set_target(ms.PointCloud(tgt4.copy()))
            ctx.tap("inverse_alignment_retargeted", "calls"); ctx.tap("inverse_alignment_retargeted", "checked")
            judge_common(ctx, inv, isrc, tgt4, "inverse_retargeted")
            align.judge_family(ctx, inv, isrc, tgt4, opts, "inverse_retargeted")
    ctx.count_case((kind, d, str(sorted((k_, bool(v_) if isinstance(v_, (bool, np.bool_, int)) else v_) for k_, v_ in opts.items())), noise, mirrored_target, 0 if n < 6 else 1 if n < 15 else 2), nontrivial=True,
                   sample={"kind": kind, "dims": d, "options": opts, "noise": noise, "n_points": n, "mirrored_target": mirrored_target} if i < 8 else None)


def w_gpa(ctx, rng, i):
    import menpo.transform as mt
    import menpo.shape as ms
    align.clear_shadow()
    d = 2 + i % 2
    n = int(rng.integers(4, 12))
    k = int(rng.integers(2, 6))
    base = gen.general_position(rng, n, d)
    mirror = bool(rng.random() < 0.4)
    shapes = []
    mirrored_members = bool(rng.random() < 0.5)        # some shapes are mirror images - whether or not mirroring is allowed
    for _ in range(k):
        L = gen.rotation_matrix(rng, d, mirror=bool(mirrored_members and rng.random() < 0.5)) * rng.uniform(0.5, 2)
        shapes.append(ms.PointCloud(base @ L.T + rng.uniform(-4, 4, d) + rng.normal(scale=0.2, size=base.shape)))
    fixed = ms.PointCloud(base.copy()) if rng.random() < 0.4 else None
    if not mirror and rng.random() < 0.5:
        g = mt.GeneralizedProcrustesAnalysis(shapes, target=fixed)           # mirroring not asked for
    else:
        g = mt.GeneralizedProcrustesAnalysis(shapes, target=fixed, allow_mirror=gen.flag(rng, 1.0) if mirror else gen.flag(rng, 0.0))
    for t in g.transforms:
        t.aligned_source(); t.alignment_error()
        if not mirror:
            ctx.tap("gpa_member_orientation", "calls"); ctx.tap("gpa_member_orientation", "checked")
            if np.linalg.det(np.asarray(t.h_matrix, dtype=float)[:d, :d]) < 0:
                ctx.fail("rotation_alignment_is_a_reflection_although_mirroring_was_not_allowed", cls="GeneralizedProcrustesAnalysis", mech="member_of_a_group_with_mirrored_shapes")
                break
    ctx.count_case(("gpa", d, k, mirror, fixed is not None), nontrivial=True)


WORKLOADS = [Workload("align", w_align, quick=2400, thorough=100000), Workload("gpa", w_gpa, quick=200, thorough=8000)]
