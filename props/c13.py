"""C13  Crops and patches are pixel-exact and honour their boundary contract.

Taps on Image.crop (all image classes) and Image.extract_patches / set_patches with an independent slicing resp.
nearest-neighbour reference; the workload adds path equivalence (slicing path vs resampling path), affine
coordinate images for the interpolating orders, and extract/write-back round trips.
"""
import numpy as np

from vf.tx import amax as _amax

from vf.core import Workload
from vf import taps, gen
from vf.digest import digest

ID = "C13"
TECHNIQUE = "runtime monitoring: post-condition taps on crop / extract_patches / set_patches with slicing and nearest-neighbour reference models; affine coordinate images as oracle for interpolating orders"
LEVEL_TEXT = ("Every crop (2D/3D/4D, all image classes, integer/fractional bounds inside, partly outside on each side, wholly outside; constraining on/off) is compared bit for bit "
              "with numpy slicing incl. landmarks, mask and returned transform, and the boundary contract is enforced; every patch extraction (1-5 channels, any dtype, odd/even/non-square "
              "patches, centres inside/near/beyond borders, offsets, orders 0/1/3, both modes) is compared with a reference sampler; held-on-what-was-observed")
LEVEL_NOTE = "trusted: numpy slicing and the 15-line nearest-neighbour sampler in props/c13.py; fractional patch centres within 0.05 of a rounding tie are not judged; known finding: the resampling path rounds 64-bit integers beyond 2**53 through double"
DESIGN_REF = "DESIGN.md section 7, C13"
RULE = ("crops: image class x dims (2,3,4) x dtype x bounds kind (inside / low side out / high side out / both / wholly outside / fractional) x constrain flag; patches: channels 1-5 x dtype x "
        "patch shape (odd/even/non-square) x centre kind (interior / near border / beyond border, integer or fractional) x offsets (none, 1-5) x order (0,1,3) x mode; non-trivial = crop is a proper "
        "sub-block or clipped/refused; patch set touches a border or uses offsets; distinct = the tuple of those factors")
ASSUMPTIONS = ["a request whose intersection with the image is empty is outside the judged domain when constraining is on",
               "order 1/3 patches are judged on affine coordinate images in the interior only"]
DECIDING_TAPS = ["crop", "extract_patches"]
REPLAY_PATHS = ['menpo/image/test']      # suite replay (thorough tier): the repository's own tests under these monitors
SHARDS = {"quick": 8, "thorough": 16}


def only_double_rounding(got, exp):
    """True when two 64-bit integer arrays differ only where the value cannot be held by a double (|v| > 2**53) and by no
    more than the spacing of doubles there - the signature of a trip through float64."""
    got, exp = np.asarray(got), np.asarray(exp)
    if got.shape != exp.shape or exp.dtype.kind not in "iu" or exp.dtype.itemsize < 8:
        return False
    bad = got != exp
    if not bad.any():
        return False
    e = exp[bad].astype(np.float64)
    g = got[bad].astype(np.float64)
    return bool((np.abs(e) > 2.0 ** 53).all() and (np.abs(g - e) <= np.abs(e) * 2.0 ** -51).all())


def bit_equal(a, b):
    """Same shape, same dtype, same bits (a zero keeps its sign; any NaN stands for any NaN)."""
    a, b = np.asarray(a), np.asarray(b)
    if a.shape != b.shape or a.dtype != b.dtype:
        return False
    if a.dtype.kind == "f":
        return bool((((a == b) & (np.signbit(a) == np.signbit(b))) | (np.isnan(a) & np.isnan(b))).all())
    return bool(np.array_equal(a, b))


class CropMonitor(taps.Monitor):
    name = "crop"

    def pre(self, ctx, args, kw):
        im = args[0]
        if not taps.is_menpo(im):
            return None
        mn = np.asarray(args[1] if len(args) > 1 else kw.get("min_indices"), dtype=float)
        mx = np.asarray(args[2] if len(args) > 2 else kw.get("max_indices"), dtype=float)
        cons = args[3] if len(args) > 3 else kw.get("constrain_to_boundary", False)
        rt = args[4] if len(args) > 4 else kw.get("return_transform", False)
        if mn.shape != (im.n_dims,) or mx.shape != (im.n_dims,) or not (np.isfinite(mn).all() and np.isfinite(mx).all()):
            return None
        lo, hi = np.floor(mn).astype(int), np.ceil(mx).astype(int)
        if not (hi > lo).all():
            return None
        st = {"px": im.pixels.copy(), "lo": lo, "hi": hi, "cons": bool(cons), "rt": bool(rt), "d": digest(im),
              "lms": {k: v.points.copy() for k, v in im.landmarks.items()} if im.has_landmarks else {}}
        if hasattr(im, "mask") and taps.is_menpo(getattr(im, "mask", None)):
            st["mask"] = im.mask.pixels.copy()
        return st

    def post(self, ctx, st, args, kw, res, exc):
        from menpo.image.base import ImageBoundaryError
        im = args[0]
        cls = type(im).__name__
        shape = np.array(st["px"].shape[1:])
        lo, hi = st["lo"], st["hi"]
        clo, chi = np.clip(lo, 0, shape), np.clip(hi, 0, shape)
        outside = bool((clo != lo).any() or (chi != hi).any())
        side = ("low" if (clo != lo).any() else "") + ("high" if (chi != hi).any() else "")
        nd = "%dD" % len(shape)
        if digest(im) != st["d"]:
            ctx.fail("crop_modified_the_image", cls=cls)
        if outside and not st["cons"]:
            if not isinstance(exc, ImageBoundaryError):
                ctx.fail("request_outside_the_image_not_refused", cls=cls, mech=side + ":" + ("silently_altered" if exc is None else type(exc).__name__),
                         requested_min=lo, requested_max=hi, shape=shape)
            else:
                ok = all(hasattr(exc, a) for a in ("requested_min", "requested_max", "snapped_min", "snapped_max"))
                if not ok or not np.array_equal(np.asarray(exc.snapped_min), clo) or not np.array_equal(np.asarray(exc.snapped_max), chi):
                    ctx.fail("boundary_error_reports_wrong_bounds", cls=cls, mech=side)
            return
        if (chi <= clo).any():
            # nothing of the request lies inside the image: clipped to the (empty) intersection, or refused as a boundary error -
            # not failed with some other error
            ctx.bump("empty_intersection")
            if exc is not None and not isinstance(exc, (ImageBoundaryError, ValueError)) or \
                    (isinstance(exc, ValueError) and "greater" not in str(exc) and "min" not in str(exc).lower()):
                ctx.fail("request_outside_the_image_neither_clipped_nor_refused_as_a_boundary_error", cls=cls, mech=side + ":" + type(exc).__name__, error=repr(exc)[:160])
            elif exc is None:
                r0 = res[0] if st["rt"] else res
                want = tuple(int(v) for v in np.maximum(chi - clo, 0))
                if tuple(r0.pixels.shape[1:]) != want or r0.pixels.dtype != st["px"].dtype:
                    ctx.fail("cropped_pixels_are_not_the_source_block", cls=cls, mech=nd + ":empty_intersection", expected_shape=list(want), got_shape=list(r0.pixels.shape[1:]))
            return
        if exc is not None:
            ctx.fail("valid_crop_raised", cls=cls, mech=nd + ":" + type(exc).__name__, error=repr(exc)[:200])
            return
        tr = None
        if st["rt"]:
            res, tr = res
        if type(res) is not type(im):
            ctx.fail("crop_changed_the_image_class", cls=cls, got=type(res).__name__)
            return
        sl = (slice(None),) + tuple(slice(a, b) for a, b in zip(clo, chi))
        exp = st["px"][sl]
        if res.pixels.dtype != exp.dtype:
            ctx.fail("crop_changed_the_dtype", cls=cls, mech="%s->%s" % (exp.dtype, res.pixels.dtype))
        if res.pixels.shape != exp.shape or not bit_equal(res.pixels, exp):
            nf = ""
            if res.pixels.shape == exp.shape and np.array_equal(res.pixels, exp, equal_nan=exp.dtype.kind == "f"):
                nf = ":sign_of_zero_only"
            if res.pixels.shape == exp.shape and exp.dtype.kind == "f":
                bad = ~((res.pixels == exp) | (np.isnan(res.pixels) & np.isnan(exp)))
                if bad.any() and not np.isfinite(exp[bad]).any():
                    nf = ":only_at_" + ("nan" if np.isnan(exp[bad]).all() else "inf" if np.isinf(exp[bad]).all() else "non_finite") + "_pixels"
            ctx.fail("cropped_pixels_are_not_the_source_block", cls=cls, mech=nd + (":clipped_" + side if outside else ":inside") + nf,
                     expected_shape=list(exp.shape), got_shape=list(res.pixels.shape))
        got_lms = {k: v.points for k, v in res.landmarks.items()} if res.has_landmarks else {}
        if list(got_lms) != list(st["lms"]):
            ctx.fail("crop_lost_landmark_groups", cls=cls)
        else:
            for k, p in st["lms"].items():
                if _amax(got_lms[k] - (p - clo)) > 1e-9:
                    ctx.fail("landmarks_not_shifted_by_the_crop_minimum", cls=cls, mech=nd)
        if "mask" in st:
            if not np.array_equal(res.mask.pixels, st["mask"][sl]):
                ctx.fail("mask_not_cropped_like_the_pixels", cls=cls, mech=nd)
        if tr is not None:
            p = np.array([[0.0] * len(shape), [1.0] * len(shape), list(map(float, range(len(shape))))])
            if _amax(np.asarray(tr.apply(p)) - (p + clo)) > 1e-9:
                ctx.fail("returned_transform_does_not_map_crop_to_source_coordinates", cls=cls)
        ctx.see("crop_kinds", (cls, nd, str(st["px"].dtype), side or "inside", st["cons"]))


class CropAroundMonitor(taps.Monitor):
    """crop_to_pointcloud / crop_to_pointcloud_proportion: the block between floor(min - pad) and ceil(max + pad) of the
    point cloud's bounds, pad = boundary resp. proportion x (smallest | largest) per-axis range - with crop's boundary contract."""

    def __init__(self, proportion, landmarks=False):
        self.proportion = proportion
        self.landmarks = landmarks
        self.name = ("crop_to_landmarks" if landmarks else "crop_to_pointcloud") + ("_proportion" if proportion else "")

    def pre(self, ctx, args, kw):
        im = args[0]
        if self.landmarks:
            # the landmark-group wrappers: the same contract around the points of the named group
            # signatures: (group=None, boundary=0, constrain, rt) / (boundary_proportion, group=None, minimum=True, constrain, rt)
            if not taps.is_menpo(im) or not im.has_landmarks:
                return None
            if self.proportion:
                names_ = ["boundary_proportion", "group", "minimum", "constrain_to_boundary", "return_transform"]
            else:
                names_ = ["group", "boundary", "constrain_to_boundary", "return_transform"]
            vals_ = {"group": None, "boundary": 0, "minimum": True, "constrain_to_boundary": True, "return_transform": False}
            vals_.update(dict(zip(names_, args[1:])))
            vals_.update(kw)
            try:
                pc = im.landmarks[vals_["group"]]
            except Exception:
                return None
            if self.proportion:
                args = (im, pc, vals_.get("boundary_proportion"), vals_["minimum"], vals_["constrain_to_boundary"], vals_["return_transform"])
            else:
                args = (im, pc, vals_["boundary"], vals_["constrain_to_boundary"], vals_["return_transform"])
            kw = {}
        pc = args[1] if len(args) > 1 else kw.get("pointcloud")
        if not taps.is_menpo(im) or not taps.is_menpo(pc) or pc.n_dims != im.n_dims or not np.isfinite(pc.points).all():
            return None
        P = np.asarray(pc.points, dtype=float)
        rngs = P.max(0) - P.min(0)
        if self.proportion:
            prop = args[2] if len(args) > 2 else kw.get("boundary_proportion")
            minimum = args[3] if len(args) > 3 else kw.get("minimum", True)
            cons = args[4] if len(args) > 4 else kw.get("constrain_to_boundary", True)
            rt = args[5] if len(args) > 5 else kw.get("return_transform", False)
            pad = float(prop) * float(rngs.min() if minimum else rngs.max())
        else:
            pad = args[2] if len(args) > 2 else kw.get("boundary", 0)
            cons = args[3] if len(args) > 3 else kw.get("constrain_to_boundary", True)
            rt = args[4] if len(args) > 4 else kw.get("return_transform", False)
            pad = float(pad)
        lo, hi = np.floor(P.min(0) - pad).astype(int), np.ceil(P.max(0) + pad).astype(int)
        if not (hi > lo).all():
            return None
        return {"px": im.pixels.copy(), "lo": lo, "hi": hi, "cons": bool(cons), "rt": bool(rt)}

    def post(self, ctx, st, args, kw, res, exc):
        from menpo.image.base import ImageBoundaryError
        cls = type(args[0]).__name__
        shape = np.array(st["px"].shape[1:])
        lo, hi = st["lo"], st["hi"]
        clo, chi = np.clip(lo, 0, shape), np.clip(hi, 0, shape)
        outside = bool((clo != lo).any() or (chi != hi).any())
        if outside and not st["cons"]:
            if not isinstance(exc, ImageBoundaryError):
                ctx.fail("request_outside_the_image_not_refused", cls=cls, mech=self.name + ":" + ("silently_altered" if exc is None else type(exc).__name__))
            return
        if (chi <= clo).any() or exc is not None:
            return          # empty / refused requests are judged at crop itself
        if st["rt"]:
            res = res[0]
        exp = st["px"][(slice(None),) + tuple(slice(a, b) for a, b in zip(clo, chi))]
        if res.pixels.shape != exp.shape or not bit_equal(res.pixels, exp):
            ctx.fail("cropped_pixels_are_not_the_source_block", cls=cls, mech=self.name, expected_shape=list(exp.shape), got_shape=list(res.pixels.shape))


def delta(ph):
    """Row offsets of a patch of height ph relative to its centre (before rounding)."""
    return -ph / 2.0 + (ph % 2) / 2.0 + np.arange(ph)


def ref_patches(px, centres, shape, offsets, cval, mode):
    """Reference nearest-neighbour sampler: value = pixel[round(c + offset + delta)], cval (or the clamped pixel) outside."""
    ph, pw = shape
    C, H, W = px.shape
    offs = np.zeros((1, 2)) if offsets is None else np.asarray(offsets, dtype=float)
    out = np.empty((len(centres), len(offs), C, ph, pw), dtype=px.dtype)
    tie = False
    for i, c in enumerate(centres):
        for j, o in enumerate(offs):
            r = c[0] + o[0] + delta(ph)
            q = c[1] + o[1] + delta(pw)
            if (np.abs(np.abs(r - np.floor(r)) - 0.5) < 0.05).any() or (np.abs(np.abs(q - np.floor(q)) - 0.5) < 0.05).any():
                tie = True
            ri, qi = np.round(r).astype(int), np.round(q).astype(int)
            for a in range(ph):
                for b in range(pw):
                    y, x = ri[a], qi[b]
                    if 0 <= y < H and 0 <= x < W:
                        out[i, j, :, a, b] = px[:, y, x]
                    elif mode == "nearest":
                        out[i, j, :, a, b] = px[:, min(max(y, 0), H - 1), min(max(x, 0), W - 1)]
                    else:
                        out[i, j, :, a, b] = np.array(cval).astype(px.dtype)
    return out, tie


def ref_patches_bilinear(px, centres, shape, offsets, cval, mode):
    """Reference order-1 sampler (no scipy): bilinear between the four neighbours; a location outside the image takes the fill value
    exactly ('constant': nothing is blended with it) or is moved onto the border ('nearest')."""
    ph, pw = shape
    C, H, W = px.shape
    P = np.asarray(px, dtype=float)
    offs = np.zeros((1, 2)) if offsets is None else np.asarray(offsets, dtype=float)
    out = np.empty((len(centres), len(offs), C, ph, pw))
    for i, c in enumerate(centres):
        for j, o in enumerate(offs):
            r = (c[0] + o[0] + delta(ph))[:, None] * np.ones((1, pw))
            q = (c[1] + o[1] + delta(pw))[None, :] * np.ones((ph, 1))
            outside = (r < 0) | (r > H - 1) | (q < 0) | (q > W - 1)
            rc, qc = np.clip(r, 0, H - 1), np.clip(q, 0, W - 1)
            r0, q0 = np.minimum(np.floor(rc).astype(int), max(H - 2, 0)), np.minimum(np.floor(qc).astype(int), max(W - 2, 0))
            r1, q1 = np.minimum(r0 + 1, H - 1), np.minimum(q0 + 1, W - 1)
            fr, fq = rc - r0, qc - q0
            v = (P[:, r0, q0] * (1 - fr) * (1 - fq) + P[:, r1, q0] * fr * (1 - fq) + P[:, r0, q1] * (1 - fr) * fq + P[:, r1, q1] * fr * fq)
            if mode == "constant":
                v = np.where(outside[None], float(cval), v)
            out[i, j] = v
    return out


class PatchMonitor(taps.Monitor):
    name = "extract_patches"

    def pre(self, ctx, args, kw):
        im = args[0]
        if not taps.is_menpo(im) or im.n_dims != 2:
            return None
        pc = args[1] if len(args) > 1 else kw.get("patch_centers")
        names = ["patch_shape", "sample_offsets", "as_single_array", "order", "mode", "cval"]
        vals = {"patch_shape": (16, 16), "sample_offsets": None, "as_single_array": True, "order": 0, "mode": "constant", "cval": 0.0}
        for n, v in zip(names, args[2:]):
            vals[n] = v
        for n in names:
            if n in kw:
                vals[n] = kw[n]
        if not taps.is_menpo(pc) or not np.isfinite(pc.points).all() or vals["mode"] not in ("constant", "nearest"):
            return None
        if im.pixels.dtype == bool and vals["cval"] not in (0, 1, False, True, 0.0, 1.0):
            return None
        st = dict(vals)
        st.update({"px": im.pixels.copy(), "centres": pc.points.copy(), "d": digest(im)})
        return st

    def post(self, ctx, st, args, kw, res, exc):
        im = args[0]
        cls = type(im).__name__
        ph, pw = int(st["patch_shape"][0]), int(st["patch_shape"][1])
        C = st["px"].shape[0]
        offs = st["sample_offsets"]
        n_off = 1 if offs is None else len(offs)
        mech = "%dch:order%d:%s" % (min(C, 5), st["order"], st["mode"])
        if exc is not None:
            ctx.fail("patch_extraction_raised", cls=cls, mech=mech + ":" + type(exc).__name__, error=repr(exc)[:200])
            return
        if digest(im) != st["d"]:
            ctx.fail("patch_extraction_modified_the_image", cls=cls)
        if not st["as_single_array"]:
            try:
                res = np.array([p.pixels for p in res]).reshape((len(st["centres"]), n_off, C, ph, pw))
            except Exception:
                ctx.fail("patch_list_has_the_wrong_layout", cls=cls, mech=mech)
                return
        exp_shape = (len(st["centres"]), n_off, C, ph, pw)
        if tuple(res.shape) != exp_shape:
            ctx.fail("patch_array_has_the_wrong_shape", cls=cls, mech=mech, got=list(res.shape), expected=list(exp_shape))
            return
        if st["order"] == 0:
            exp, tie = ref_patches(st["px"], st["centres"], (ph, pw), offs, st["cval"], st["mode"])
            if tie:
                ctx.bump("patches_near_rounding_tie_not_judged")
                return
            if res.dtype != exp.dtype:
                ctx.fail("patches_changed_the_dtype", cls=cls, mech="%s->%s" % (exp.dtype, res.dtype))
            if not np.array_equal(np.asarray(res), exp, equal_nan=exp.dtype.kind == "f"):
                bad = np.argwhere(~((np.asarray(res) == exp) | ((np.asarray(res) != np.asarray(res)) & (exp != exp))))
                H, W = st["px"].shape[1:]
                if only_double_rounding(np.asarray(res), exp):
                    mech = "64bit_integers_beyond_2**53_rounded_through_double"
                ctx.fail("patch_values_differ_from_nearest_neighbour_reference", cls=cls if "rounded_through_double" not in mech else "Image", mech=mech, first_bad=bad[0].tolist(), n_bad=int(len(bad)),
                         image_shape=[H, W], patch_shape=[ph, pw], centre=st["centres"][bad[0][0]].tolist())
        elif st["order"] == 1 and st["px"].dtype.kind == "f" and np.isfinite(st["px"]).all() and np.isfinite(float(st["cval"])) and min(st["px"].shape[1:]) >= 2:
            # order 1: bilinear inside; outside the image the fill value, unblended
            exp = ref_patches_bilinear(st["px"], st["centres"], (ph, pw), offs, st["cval"], st["mode"])
            got = np.asarray(res, dtype=float)
            tol = (1e-9 if st["px"].dtype == np.float64 else 1e-5) * max(1.0, float(np.abs(st["px"]).max()), abs(float(st["cval"])))
            ctx.tap("bilinear_reference", "calls"); ctx.tap("bilinear_reference", "checked")
            if not (np.abs(got - exp).max() <= tol):
                bad = np.argwhere(np.abs(got - exp) > tol)
                ctx.fail("patch_values_differ_from_the_bilinear_reference", cls=cls, mech=mech, first_bad=bad[0].tolist(), n_bad=int(len(bad)), err=float(np.abs(got - exp).max()),
                         centre=st["centres"][bad[0][0]].tolist())
        ctx.see("patch_kinds", (cls, min(C, 5), str(st["px"].dtype), (ph % 2, pw % 2, ph == pw), st["order"], st["mode"], offs is not None))


class SetPatchesMonitor(taps.Monitor):
    name = "set_patches"

    def pre(self, ctx, args, kw):
        im = args[0]
        if not taps.is_menpo(im) or im.n_dims != 2:
            return None
        patches = args[1] if len(args) > 1 else kw.get("patches")
        pc = args[2] if len(args) > 2 else kw.get("patch_centers")
        offset = args[3] if len(args) > 3 else kw.get("offset")
        oi = args[4] if len(args) > 4 else kw.get("offset_index")
        if not isinstance(patches, np.ndarray) or patches.ndim != 5 or not taps.is_menpo(pc):
            return None
        c = pc.points
        if not np.allclose(c, np.round(c)):
            return None
        off = np.zeros(2) if offset is None else np.asarray(offset, dtype=float).reshape(-1)[:2]
        ph, pw = patches.shape[-2:]
        H, W = im.shape
        r0 = c[:, 0] + off[0] - ph // 2
        q0 = c[:, 1] + off[1] - pw // 2
        if (r0 < 0).any() or (q0 < 0).any() or (r0 + ph > H).any() or (q0 + pw > W).any():
            return None     # only patches wholly inside the image are in the judged domain
        return {"px": im.pixels.copy(), "d": digest(im), "r0": r0.astype(int), "q0": q0.astype(int), "oi": 0 if oi is None else int(oi),
                "patches": patches.copy()}

    def post(self, ctx, st, args, kw, res, exc):
        im = args[0]
        cls = type(im).__name__
        if exc is not None:
            ctx.fail("set_patches_raised", cls=cls, mech=type(exc).__name__, error=repr(exc)[:200])
            return
        if digest(im) != st["d"]:
            ctx.fail("set_patches_modified_the_image_it_was_called_on", cls=cls)
        exp = st["px"].copy()
        ph, pw = st["patches"].shape[-2:]
        for k in range(len(st["r0"])):
            exp[:, st["r0"][k]:st["r0"][k] + ph, st["q0"][k]:st["q0"][k] + pw] = st["patches"][k, st["oi"]]
        if res.pixels.shape != exp.shape or not np.array_equal(res.pixels, exp):
            ctx.fail("set_patches_wrote_the_wrong_pixels", cls=cls, mech="%d_%d" % (ph % 2, pw % 2))


def setup(ctx):
    I = taps.mod("menpo.image.base").Image
    taps.tap(ctx, I, "crop", CropMonitor())
    taps.tap(ctx, I, "crop_to_pointcloud", CropAroundMonitor(False))
    taps.tap(ctx, I, "crop_to_pointcloud_proportion", CropAroundMonitor(True))
    taps.tap(ctx, I, "crop_to_landmarks", CropAroundMonitor(False, landmarks=True))
    taps.tap(ctx, I, "crop_to_landmarks_proportion", CropAroundMonitor(True, landmarks=True))
    taps.tap(ctx, I, "extract_patches", PatchMonitor())
    taps.tap(ctx, I, "set_patches", SetPatchesMonitor())


DTYPES = [np.uint8, np.uint16, np.int32, np.float32, np.float64]
CROP_DTYPES = DTYPES + [np.int64, np.uint64]


def w_crop(ctx, rng, i):
    from menpo.image.base import ImageBoundaryError
    cls = ["Image", "MaskedImage", "BooleanImage"][i % 3]
    d = [2, 2, 3, 4][(i // 3) % 4]
    dt = CROP_DTYPES[(i // 12) % 7]
    shp = tuple(int(v) for v in rng.integers(3, 12 if d < 4 else 6, d))
    strip = cls != "BooleanImage" and d == 2 and rng.random() < 0.03
    if strip:
        # a very long, narrow image (a line-scan strip, a spectrogram): one pixel too many is one pixel too many at any length
        shp = (int(rng.integers(100100, 140000)), int(rng.integers(2, 4)))
        if rng.random() < 0.5:
            shp = shp[::-1]
        dt = np.uint8
    im = gen.image(rng, cls, shape=shp, n_channels=1 if strip else int(rng.integers(1, 6)), dtype=dt if dt not in (np.int64, np.uint64) else np.int32)
    if dt in (np.int64, np.uint64) and cls != "BooleanImage":
        # 64-bit counters / identifiers / time stamps: values no double can hold exactly
        big = rng.integers(2 ** 53, 2 ** 62, im.pixels.shape, dtype=np.int64) | 1
        im.pixels = (big.astype(np.uint64) + np.uint64(2 ** 63) if dt == np.uint64 else big * rng.choice([-1, 1], big.shape)).astype(dt)
    for g in range(int(rng.integers(0, 3))):
        im.landmarks["g%d" % g] = gen.shape(rng, "PointCloud", d=d, n=4, scale=3.0)
    nonfinite = False
    if im.pixels.dtype.kind == "f" and rng.random() < 0.35:
        # depth / log / ratio images: missing and unbounded values are ordinary pixel values that a crop copies like any other
        k = rng.random(im.pixels.shape)
        im.pixels[k < 0.08] = np.inf
        im.pixels[(k >= 0.08) & (k < 0.16)] = -np.inf
        im.pixels[(k >= 0.16) & (k < 0.24)] = np.nan
        nonfinite = True
    if im.pixels.dtype.kind == "f" and rng.random() < 0.3:
        im.pixels[rng.random(im.pixels.shape) < 0.15] = -0.0          # a zero has a sign: "bit for bit" keeps it
    kind = ["inside", "low", "high", "both", "wholly", "fractional"][(i // 60) % 6]
    if strip:
        kind = ["high", "high", "inside", "low"][rng.integers(0, 4)]
    s = np.array(shp, dtype=float)
    lo = np.array([rng.integers(0, max(1, v - 1)) for v in shp], dtype=float)
    hi = np.array([rng.integers(l + 1, v + 1) for l, v in zip(lo, shp)], dtype=float)
    ax = int(rng.integers(0, d))
    if kind == "low":
        lo[ax] = -float(rng.integers(1, 4))
    elif kind == "high":
        if strip:
            ax = int(np.argmax(shp))
        hi[ax] = s[ax] + (1.0 if strip else float(rng.integers(1, 4)))
    elif kind == "both":
        lo[ax] = -float(rng.integers(1, 4)); hi[(ax + 1) % d] = s[(ax + 1) % d] + float(rng.integers(1, 4))
    elif kind == "wholly":
        lo[ax] = s[ax] + 2; hi[ax] = s[ax] + 5
    elif kind == "fractional":
        lo = lo + rng.uniform(0, 0.99, d); hi = np.maximum(hi - rng.uniform(0, 0.99, d), lo + 0.01)
        if rng.random() < 0.3:
            lo[ax] = -rng.uniform(0.1, 2.5)
    cons = gen.flag(rng, 0.25 if strip else 0.5)          # (spelled True/False, as a numpy bool, as 1/0)
    rt = bool(rng.random() < 0.3)
    try:
        if rng.random() < 0.5:
            im.crop(lo, hi, constrain_to_boundary=cons, return_transform=rt)
        else:
            im.crop(lo, hi, cons, rt)
    except ImageBoundaryError:
        pass
    except Exception:
        if kind != "wholly":
            raise
    # the crop family funnels through crop: exercise it too
    if im.has_landmarks and rng.random() < 0.5 and d in (2, 3):
        try:
            im.crop_to_landmarks(group="g0", boundary=float(rng.integers(0, 3)), constrain_to_boundary=bool(rng.random() < 0.7))
            im.crop_to_landmarks_proportion(float(rng.uniform(0, 0.5)), group="g0", minimum=bool(rng.random() < 0.5))
            im.crop_to_landmarks_proportion(float(rng.uniform(0, 1.5)), group="g0", minimum=bool(rng.random() < 0.5), constrain_to_boundary=bool(rng.random() < 0.5))
            # integer landmark positions with a fractional padding
            import menpo.shape as ms
            pc = ms.PointCloud(np.round(im.landmarks["g0"].points))
            im.crop_to_pointcloud_proportion(pc, float(rng.uniform(0.05, 1.2)), minimum=bool(rng.random() < 0.5), constrain_to_boundary=bool(rng.random() < 0.6))
            im.crop_to_pointcloud(pc, boundary=float(rng.uniform(0, 3)), constrain_to_boundary=bool(rng.random() < 0.6))
        except (ImageBoundaryError, ValueError):
            pass      # ValueError: the request is empty after flooring/ceiling (documented)
    if cls == "MaskedImage" and rng.random() < 0.5:
        if True:
            bd = int(rng.integers(0, 4))
            cb = bool(rng.random() < 0.5)
            idx = np.argwhere(im.mask.pixels[0])
            leaves = bool((idx.min(0) - bd < 0).any() or (idx.max(0) + bd > np.array(shp)).any())    # the padded box of true pixels leaves the image
            ctx.tap("crop_to_true_mask_boundary_contract", "calls")
            try:
                im.crop_to_true_mask(boundary=bd, constrain_to_boundary=cb)
                if leaves and not cb:
                    ctx.fail("request_outside_the_image_not_refused", cls=cls, mech="crop_to_true_mask:silently_altered", boundary=bd)
            except ImageBoundaryError:
                if not leaves or cb:
                    ctx.fail("boundary_error_raised_although_the_request_was_allowed", cls=cls, mech="crop_to_true_mask")
            except ValueError:
                pass
            ctx.tap("crop_to_true_mask_boundary_contract", "checked")
    ctx.count_case(("crop", cls, d, np.dtype(dt).name, kind, bool(cons), rt, nonfinite, strip), nontrivial=True,
                   sample={"cls": cls, "shape": list(shp), "min": lo.tolist(), "max": hi.tolist(), "constrain": bool(cons)} if i < 5 else None)


def coord_image(rng, shp, C, dtype=np.float64):
    """pixel_c(p) = w_c . p + b_c"""
    w = rng.uniform(-2, 2, (C, 2))
    b = rng.uniform(-5, 5, C)
    g = np.stack(np.meshgrid(np.arange(shp[0]), np.arange(shp[1]), indexing="ij"), 0).astype(float)
    px = np.einsum("cd,dhw->chw", w, g) + b[:, None, None]
    return px.astype(dtype), w, b


def w_patches(ctx, rng, i):
    import menpo.image as mi
    import menpo.shape as ms
    from menpo.image.patches import extract_patches_by_sampling, extract_patches_with_slice
    cls = ["Image", "MaskedImage", "BooleanImage"][i % 3]
    C = 1 + (i // 3) % 5
    dt = DTYPES[(i // 15) % 5]
    shp = (int(rng.integers(6, 20)), int(rng.integers(6, 20)))
    im = gen.image(rng, cls, shape=shp, n_channels=C, dtype=dt)
    C = im.n_channels
    if cls != "BooleanImage" and dt == np.int32 and rng.random() < 0.4:
        # 64-bit counters / identifiers: values no double holds exactly
        big = rng.integers(2 ** 53, 2 ** 62, im.pixels.shape, dtype=np.int64) | 1
        im.pixels = big * rng.choice([-1, 1], big.shape)
        dt = np.int64
    nonfinite = False
    if im.pixels.dtype.kind == "f" and rng.random() < 0.3:
        # missing / unbounded values are pixel values like any other for a nearest-neighbour copy
        kk = rng.random(im.pixels.shape)
        im.pixels[kk < 0.1] = np.nan
        im.pixels[(kk >= 0.1) & (kk < 0.15)] = [np.inf, -np.inf][rng.integers(0, 2)]
        nonfinite = True
    ph, pw = [(3, 3), (4, 4), (3, 4), (5, 2), (1, 1), (2, 7), (6, 6)][(i // 75) % 7]
    ck = ["interior", "border", "beyond", "fractional"][(i // 7) % 4]
    n = int(rng.integers(1, 6))
    H, W = shp
    if ck == "interior":
        c = np.stack([rng.integers(ph, max(ph + 1, H - ph), n), rng.integers(pw, max(pw + 1, W - pw), n)], 1).astype(float)
    elif ck == "border":
        c = np.stack([rng.choice([0, 1, H - 2, H - 1], n), rng.choice([0, 1, W - 2, W - 1], n)], 1).astype(float)
    elif ck == "beyond":
        c = np.stack([rng.choice([-3, -1, H, H + 2], n), rng.integers(-2, W + 2, n)], 1).astype(float)
    else:
        c = np.stack([rng.uniform(-1, H, n), rng.uniform(-1, W, n)], 1)
        f = c - np.floor(c)
        c = np.floor(c) + np.where(np.abs(f - 0.5) < 0.1, 0.2, f)     # away from rounding ties (odd and even patches)
        c = np.floor(c) + np.where(np.abs((c - np.floor(c))) < 0.1, 0.25, c - np.floor(c))
    offs = None
    if rng.random() < 0.5:
        k = int(rng.integers(1, 6))
        offs = rng.integers(-3, 4, (k, 2)).astype(float if rng.random() < 0.5 else int)
    order = [0, 0, 1, 3][(i // 2) % 4]
    mode = ["constant", "nearest"][(i // 5) % 2]
    cval = [0.0, 1.0, 7.0][rng.integers(0, 3)] if cls != "BooleanImage" else [0.0, 1.0][rng.integers(0, 2)]
    if im.pixels.dtype.kind == "f" and rng.random() < 0.2:
        cval = float("nan")          # "no data" as the fill value for whatever lies outside the image
    pc = ms.PointCloud(c)
    # the patch shape in any of its documented spellings (a tuple, an array; a list just as well)
    psk = int(rng.integers(0, 4))
    pshape = [(ph, pw), (ph, pw), np.array([ph, pw]), [ph, pw]][psk]
    res = im.extract_patches(pc, patch_shape=pshape, sample_offsets=offs, order=order, mode=mode, cval=cval,
                             as_single_array=bool(rng.random() < 0.8))
    integer = ck != "fractional"
    # ---- path equivalence: slicing path == resampling path (order 0, constant mode, integer centres / offsets)
    if integer:
        a = extract_patches_with_slice(im.pixels, c, (ph, pw), offsets=offs, cval=cval)
        b = extract_patches_by_sampling(im.pixels, c, (ph, pw), offsets=offs, order=0, mode="constant", cval=cval)
        ctx.tap("path_equivalence", "calls"); ctx.tap("path_equivalence", "checked")
        if a.shape == b.shape and only_double_rounding(b, a):
            ctx.fail("slicing_path_and_resampling_path_disagree", cls="Image", mech="64bit_integers_beyond_2**53_rounded_through_double")
        elif a.shape != b.shape or not np.array_equal(a, b, equal_nan=a.dtype.kind == "f"):
            ctx.fail("slicing_path_and_resampling_path_disagree", cls=cls, mech="%dch:%s" % (C, ck) + (":non_finite_pixels" if nonfinite else "") + (":nan_fill" if cval != cval else ""),
                     patch_shape=[ph, pw], image_shape=list(shp))
    # ---- write-back round trips on interior patches
    if ck == "interior" and cls != "BooleanImage" and not nonfinite:
        p0 = im.extract_patches(pc, patch_shape=(ph, pw), sample_offsets=offs)
        oi = 0 if offs is None else int(rng.integers(0, len(offs)))
        off = None if offs is None else tuple(int(v) for v in offs[oi])
        if True:
            cc = c + (np.array(off) if off is not None else 0)
            inside = bool((cc[:, 0] - ph // 2 >= 0).all() and (cc[:, 1] - pw // 2 >= 0).all() and (cc[:, 0] - ph // 2 + ph <= H).all() and (cc[:, 1] - pw // 2 + pw <= W).all())
        if inside:
            back = im.set_patches(p0, pc, offset=off, offset_index=oi)
            ctx.tap("write_back", "calls"); ctx.tap("write_back", "checked")
            if not np.array_equal(back.pixels, im.pixels):
                ctx.fail("writing_extracted_patches_back_does_not_restore_the_image", cls=cls, mech="%d_%d" % (ph % 2, pw % 2))
            # the documented list-of-images form of the patches is the same data
            pl = im.extract_patches(pc, patch_shape=(ph, pw), sample_offsets=offs, as_single_array=False)
            back_l = im.set_patches(pl, pc, offset=off, offset_index=oi)
            ctx.tap("write_back_list_form", "calls"); ctx.tap("write_back_list_form", "checked")
            if back_l.pixels.dtype != im.pixels.dtype or not np.array_equal(back_l.pixels, im.pixels):
                ctx.fail("writing_extracted_patches_back_does_not_restore_the_image", cls=cls, mech="list_of_images:%s" % np.dtype(dt).name)
            # the landmark-group wrapper is the same operation
            im2 = im.copy()
            im2.landmarks["centres"] = pc
            back2 = im2.set_patches_around_landmarks(p0, group="centres", offset=off, offset_index=oi)
            if not np.array_equal(back2.pixels, im.pixels):
                ctx.fail("writing_extracted_patches_back_does_not_restore_the_image", cls=cls, mech="around_landmarks:offset_index_%s" % ("0" if oi == 0 else "k"))
            blank = type(im)(np.zeros_like(im.pixels)) if cls == "Image" else im.copy()
            filled = blank.set_patches(p0, pc, offset=off, offset_index=oi)
            again = filled.extract_patches(pc, patch_shape=(ph, pw), sample_offsets=offs)
            # the last-written patch always reads back
            if not np.array_equal(again[-1, oi], p0[-1, oi]):
                ctx.fail("patch_written_into_an_image_does_not_read_back", cls=cls, mech="%d_%d" % (ph % 2, pw % 2))
    # ---- interpolating orders on an affine coordinate image: layout and channel order without re-using the sampler
    if order in (1, 3) and cls != "BooleanImage":
        H2 = W2 = 44
        px, w, b = coord_image(rng, (H2, W2), C)
        cim = mi.Image(px)
        ci = np.stack([rng.uniform(16, 28, n), rng.uniform(16, 28, n)], 1)
        ok = True
        H, W = H2, W2
        if ok:
            got = cim.extract_patches(ms.PointCloud(ci), patch_shape=(ph, pw), sample_offsets=offs, order=order, mode=mode)
            offl = np.zeros((1, 2)) if offs is None else np.asarray(offs, dtype=float)
            exp = np.empty_like(got)
            for a_ in range(len(ci)):
                for j in range(len(offl)):
                    rr = ci[a_, 0] + offl[j, 0] + delta(ph)
                    qq = ci[a_, 1] + offl[j, 1] + delta(pw)
                    inside = (rr.min() >= 8) and (rr.max() <= H - 9) and (qq.min() >= 8) and (qq.max() <= W - 9)
                    for ch in range(C):
                        exp[a_, j, ch] = w[ch, 0] * rr[:, None] + w[ch, 1] * qq[None, :] + b[ch] if inside else got[a_, j, ch]
            e = float(np.abs(got - exp).max())
            ctx.err("affine_coordinate_patch", e)
            ctx.tap("affine_coordinate_patches", "calls"); ctx.tap("affine_coordinate_patches", "checked")
            # order 1 reproduces an affine function exactly; the cubic spline's boundary conditions leave a small residual
            if not (e <= (1e-7 * max(1.0, np.abs(px).max()) if order == 1 else 0.01)):
                ctx.fail("interpolated_patches_do_not_sample_the_requested_coordinates", cls="Image", mech="%dch:order%d" % (C, order), err=e)
    ctx.count_case(("patch", cls, C, np.dtype(dt).name, (ph, pw), ck, offs is not None, order, mode), nontrivial=(ck != "interior" or offs is not None),
                   sample={"cls": cls, "channels": C, "patch_shape": [ph, pw], "centres": ck, "order": order, "mode": mode} if i < 5 else None)


def tx_maxdiff(a, b):
    a, b = np.asarray(a, dtype=float), np.asarray(b, dtype=float)
    return float("inf") if a.shape != b.shape else (float(np.abs(a - b).max()) if a.size else 0.0)


def w_many_centres(ctx, rng, i):
    """Dense sampling: a patch around every pixel of a grid (thousands of centres - several million sampling locations): every
    patch, the last one as the first, is the block of pixels around its centre on either path."""
    import menpo.image as mi
    import menpo.shape as ms
    from menpo.image.patches import extract_patches_by_sampling, extract_patches_with_slice
    ph, pw = [(16, 16), (9, 15), (12, 20), (16, 16)][rng.integers(0, 4)]
    H, W = int(rng.integers(90, 130)), int(rng.integers(90, 130))
    C = int(rng.integers(1, 3))
    px = rng.random((C, H, W))
    # (every patch, moved by its offset too, stays inside the image: what lies outside is filled differently by the two calls below)
    ys = np.arange(ph // 2 + 4, H - ph // 2 - 4, int(rng.integers(1, 3)))
    xs = np.arange(pw // 2 + 4, W - pw // 2 - 4, int(rng.integers(1, 3)))
    c = np.array([(y, x) for y in ys for x in xs], dtype=float)
    c = c[: len(c) - int(rng.integers(0, 7))]                     # (not a round number)
    offs = None if rng.random() < 0.6 else np.array([[0, 0], [int(rng.integers(-2, 3)), int(rng.integers(-2, 3))]])
    a = extract_patches_with_slice(px, c, (ph, pw), offsets=offs)
    b = extract_patches_by_sampling(px, c, (ph, pw), offsets=offs, order=0, mode="constant")
    ctx.tap("path_equivalence_many_centres", "calls"); ctx.tap("path_equivalence_many_centres", "checked")
    if a.shape != b.shape or not np.array_equal(a, b):
        bad = np.nonzero((a != b).reshape(len(c), -1).any(axis=1))[0] if a.shape == b.shape else []
        ctx.fail("slicing_path_and_resampling_path_disagree", cls="Image", mech="many_centres", n_centres=len(c), n_wrong=len(bad), first_wrong=int(bad[0]) if len(bad) else None)
    im = mi.Image(px)
    r = im.extract_patches(ms.PointCloud(c), patch_shape=(ph, pw), sample_offsets=offs, order=1, mode="nearest", as_single_array=True)
    if np.asarray(r).shape != a.shape or _amax(np.asarray(r, dtype=float) - a) > 1e-9:
        ctx.fail("patch_values_differ_from_nearest_neighbour_reference", cls="Image", mech="many_centres:order1_at_integer_centres")
    # the landmark convenience wrapper: the same patches as for the same centres given directly - also for landmarks that lie
    # outside the image (annotations of a picture that was cropped afterwards)
    H2, W2 = int(rng.integers(8, 30)), int(rng.integers(8, 30))
    im2 = [mi.Image, mi.MaskedImage][rng.integers(0, 2)](rng.random((C, H2, W2)))
    lmp = np.round(rng.uniform(-6, 1.0, (5, 2)) * 0 + rng.uniform([-6, -6], [H2 + 6, W2 + 6], (5, 2)))
    im2.landmarks["marks"] = ms.PointCloud(lmp)
    psh = (int(rng.integers(2, 7)), int(rng.integers(2, 7)))
    ctx.tap("patches_around_landmarks", "calls"); ctx.tap("patches_around_landmarks", "checked")
    ra = np.asarray(im2.extract_patches_around_landmarks(group="marks", patch_shape=psh, as_single_array=True))
    rb = np.asarray(im2.extract_patches(ms.PointCloud(lmp.copy()), patch_shape=psh, as_single_array=True))
    if ra.shape != rb.shape or not np.array_equal(ra, rb, equal_nan=True):
        ctx.fail("patch_values_differ_from_nearest_neighbour_reference", cls=type(im2).__name__, mech="around_landmarks_differs_from_the_same_centres_given_directly")
    if tx_maxdiff(im2.landmarks["marks"].points, lmp) > 0:
        ctx.fail("patch_extraction_modified_the_image", cls=type(im2).__name__, mech="landmarks_moved")
    ctx.count_case(("many_centres", ph, pw, offs is None, min(len(c) // 2000, 4)), nontrivial=True)


WORKLOADS = [Workload("crop", w_crop, quick=3600, thorough=200000), Workload("patches", w_patches, quick=3150, thorough=160000),
             Workload("many_centres", w_many_centres, quick=24, thorough=300)]
