"""C09  apply() is pure: no history, aliasing or batch-size effects.

Taps on Transform._apply_batched and AbstractPWA._apply_batched (the array-level funnel of every apply) compare each
result with a history-free twin rebuilt from the constructor recipe and applied to a private copy of the input
values - bit-exact for the same batch size, 1e-12 against the unbatched twin.  Taps on CachedPWA.index_alpha_beta /
PythonPWA.index_alpha_beta make cache hits observable.  Out-of-domain failures are judged against a brute-force
point-in-triangle reference.
"""
import numpy as np

from vf.core import Workload
from vf import taps, gen, tx, ref

ID = "C09"
TECHNIQUE = "runtime monitoring: taps on every batched apply funnel (discovered at run time) comparing each result with a history-free twin and with an independent reference map; cache hit/miss observation; brute-force containment reference"
LEVEL_TEXT = ("Every array-level application in random histories (reuse of the same array object edited in place, inputs closer than any tolerance, alternating shapes and "
              "arrays, calls on copies, every batch size 1..n+2, mixed in/out-of-domain points, failures followed by retries) is compared with a transform freshly rebuilt from "
              "its constructor arguments; held-on-what-was-observed")
LEVEL_NOTE = "trusted: the constructor recipe as 'parameters only' reference and the independent evaluations in vf/refmap.py (1e-8 relative, 1e-6 for splines and chains); the brute-force barycentric containment test with a 1e-6 margin (points within the margin are not judged)"
DESIGN_REF = "DESIGN.md section 7, C09"
RULE = ("per transform instance (all kinds, weight on the caching piecewise affine) a history of 5-30 apply calls; non-trivial = history contains a reuse / in-place edit / near-equal "
        "input, or a batch size that does not divide n, or a failing point not in the last batch; distinct = (kind, dims, sorted set of history-event kinds, batch-size classes)")
ASSUMPTIONS = ["points are generated clearly inside or clearly outside the PWA source triangulation", "transforms built by the workload are deterministic functions of their constructor arguments"]
DECIDING_TAPS = ["_apply_batched"]
SHARDS = {"quick": 8, "thorough": 16}

TWINS = {}     # id(transform) -> (transform, recipe)
CACHE = {"outer": 0, "inner": 0}


def containment(points, src, tl, margin=1e-6):
    """(inside_clearly, outside_clearly) boolean arrays by brute force."""
    a, b, c = src[tl[:, 0]], src[tl[:, 1]], src[tl[:, 2]]
    inside = np.zeros(len(points), dtype=bool)
    near = np.zeros(len(points), dtype=bool)
    for k in range(len(tl)):
        m = np.array([[b[k, 0] - a[k, 0], c[k, 0] - a[k, 0]], [b[k, 1] - a[k, 1], c[k, 1] - a[k, 1]]])
        if abs(np.linalg.det(m)) < 1e-12:
            continue                      # a zero-area triangle contains no point
        st = np.linalg.solve(m, (points - a[k]).T).T
        w = np.stack([1 - st[:, 0] - st[:, 1], st[:, 0], st[:, 1]], axis=1).min(axis=1)
        inside |= w > margin
        near |= np.abs(w) <= margin
    return inside, ~inside & ~near


class BatchedMonitor(taps.Monitor):
    name = "_apply_batched"

    def pre(self, ctx, args, kw):
        t, x = args[0], args[1]
        bs = args[2] if len(args) > 2 else kw.get("batch_size")
        if id(t) not in TWINS or not isinstance(x, np.ndarray) or x.ndim != 2:
            return None
        from menpo.transform.piecewiseaffine.base import AbstractPWA as _P
        if not np.isfinite(x).all() and not isinstance(t, _P):
            return None       # non-finite query points are driven only where "outside the domain" is defined: piecewise-affine maps
        return {"x": x.copy(), "bs": bs}

    def post(self, ctx, st, args, kw, r, exc):
        from menpo.transform.piecewiseaffine.base import TriangleContainmentError, AbstractPWA
        t, x = args[0], args[1]
        cls = type(t).__name__
        recipe = TWINS[id(t)][1]
        if not np.array_equal(x, st["x"], equal_nan=x.dtype.kind == "f"):
            ctx.fail("apply_modified_its_input_array", cls=cls)
        twin = recipe()
        t_exc, t_res = None, None
        try:
            t_res = twin._apply_batched(st["x"].copy(), st["bs"])
        except Exception as e:
            t_exc = e
        bsk = "none" if st["bs"] is None else ("divides" if len(st["x"]) % st["bs"] == 0 else "not_dividing")
        if exc is not None or t_exc is not None:
            if (exc is None) != (t_exc is None) or type(exc) is not type(t_exc):
                ctx.fail("application_outcome_depends_on_history", cls=cls, mech="%s_vs_twin_%s" % (type(exc).__name__, type(t_exc).__name__),
                         batch=bsk)
                return
            if isinstance(exc, TriangleContainmentError) and isinstance(t, AbstractPWA):
                m = np.asarray(exc.points_outside_source_domain)
                n = len(st["x"])
                if m.shape != (n,) or m.dtype != bool:
                    ctx.fail("containment_error_does_not_flag_one_entry_per_input_point", cls=cls, mech=bsk, got=list(m.shape), n_points=n)
                    return
                inside, outside = containment(st["x"].astype(float), twin.source.points, np.asarray(twin.source.trilist))
                if (m & inside).any() or (~m & outside).any():
                    where = "last_batch" if st["bs"] and (np.nonzero(outside)[0] >= n - (n % st["bs"] or st["bs"])).all() else "earlier_batch"
                    ctx.fail("containment_error_flags_the_wrong_points", cls=cls, mech=bsk + ":" + where, flagged=m, truly_outside=outside)
                ctx.tap("containment_mask", "calls"); ctx.tap("containment_mask", "checked")
            return
        r = np.asarray(r)
        if isinstance(t, AbstractPWA):
            # success means every point was inside: none may be clearly outside the source triangulation
            inside, outside = containment(st["x"].astype(float), twin.source.points, np.asarray(twin.source.trilist))
            ctx.tap("containment_mask", "calls"); ctx.tap("containment_mask", "checked")
            if outside.any():
                ctx.fail("out_of_domain_points_not_reported", cls=cls, mech=bsk, n_outside=int(outside.sum()), n_points=int(len(outside)))
                return
        rounded = len(TWINS[id(t)]) > 2     # parameters that went through a parameter vector / a retarget agree up to rounding only
        if r.shape != t_res.shape or r.dtype != t_res.dtype or (tx.maxdiff(r, t_res) > 1e-10 * max(1.0, float(np.abs(t_res).max()) if t_res.size else 1.0) if rounded
                                                                else not np.array_equal(r, t_res)):
            e = tx.maxdiff(r, t_res)
            ctx.fail("result_differs_from_a_history_free_twin", cls=cls, mech=bsk, err=e, dtype="%s_vs_%s" % (r.dtype, np.asarray(t_res).dtype))
            return
        # ... and, leaving the library's own code path, the map its parameters define (an independent evaluation)
        try:
            from vf import refmap
            import menpo.transform as _mt
            ref_ = refmap.reference_apply(t, st["x"]) if np.isfinite(st["x"]).all() else None
        except Exception:
            ref_ = None
        if ref_ is not None and ref_[1].any() and ref_[0].shape == r.shape:
            ctx.tap("independent_reference_map", "calls"); ctx.tap("independent_reference_map", "checked")
            sc_ = max(1.0, float(np.abs(ref_[0][ref_[1]]).max()))
            e_ = tx.maxdiff(np.asarray(r, dtype=float)[ref_[1]], ref_[0][ref_[1]])
            if not (e_ <= (1e-6 if isinstance(t, _mt.ThinPlateSplines) or hasattr(t, "transforms") else 1e-8) * sc_ * (4.0 if r.dtype == np.float32 else 1.0) + (1e-5 * sc_ if st["x"].dtype == np.float32 else 0.0)):
                ctx.fail("result_differs_from_the_map_the_parameters_define", cls=cls, mech=bsk, err=e_)
        if st["bs"] is not None:
            try:
                unb = np.asarray(recipe()._apply_batched(st["x"].copy(), None))
            except Exception:
                return
            e = tx.maxdiff(r, unb)
            ctx.err("batched_vs_unbatched", e)
            if not (e <= 1e-12 * max(1.0, float(np.abs(unb).max()) if unb.size else 1.0)):
                ctx.fail("batched_result_differs_from_unbatched", cls=cls, mech=bsk + ":" + str(x.dtype), err=e)


class CacheOuter(taps.Monitor):
    name = "CachedPWA.index_alpha_beta"

    def pre(self, ctx, args, kw):
        return {"inner": CACHE["inner"]}

    def post(self, ctx, st, args, kw, r, exc):
        if CACHE["inner"] == st["inner"] and exc is None:
            ctx.bump("pwa_cache_hits")
        else:
            ctx.bump("pwa_cache_misses")


class CacheInner(taps.Monitor):
    name = "PythonPWA.index_alpha_beta"

    def pre(self, ctx, args, kw):
        CACHE["inner"] += 1
        return {}


def setup(ctx):
    B = taps.mod("menpo.transform.base")
    P = taps.mod("menpo.transform.piecewiseaffine.base")
    # every class that defines its own batched funnel (discovered at run time: an override added later is monitored too)
    owners = taps.tap_definers(ctx, "_apply_batched", lambda c: BatchedMonitor(), base=B.Transform)
    ctx.see("tapped_apply_batched_definers", sorted(c.__name__ for c in owners))
    taps.tap(ctx, P.CachedPWA, "index_alpha_beta", CacheOuter())
    taps.tap(ctx, P.PythonPWA, "index_alpha_beta", CacheInner())


def domain_points(rng, t, d, n, outside=0.0):
    """n points for t: inside the PWA domain (clearly), optionally a fraction clearly outside."""
    from menpo.transform.piecewiseaffine.base import AbstractPWA
    pw = t if isinstance(t, AbstractPWA) else None
    if pw is None and hasattr(t, "transforms") and t.transforms and isinstance(t.transforms[0], AbstractPWA):
        pw = t.transforms[0]
    if pw is not None:
        p = gen.points_inside_mesh(rng, pw.source.points, np.asarray(pw.source.trilist), n, margin=0.05)
        if outside:
            k = rng.random(n) < outside
            far = rng.uniform(1.3 * tx.BOX, 2 * tx.BOX, (n, 2)) * rng.choice([-1, 1], (n, 2))
            p[k] = far[k]
        return p
    return rng.uniform(-0.7 * tx.BOX, 0.7 * tx.BOX, (n, d))


def reparameterise(rng, who, kind, d, old_recipe, alone=True):
    """Replace the parameters of `who`; returns the recipe of a history-free twin with the new parameters (None: not possible here)."""
    import menpo.shape as ms
    from menpo.transform.base import Alignment
    from menpo.transform.piecewiseaffine.base import AbstractPWA
    import menpo.transform as mt
    with taps.quiet():
        if isinstance(who, (AbstractPWA, mt.ThinPlateSplines)):
            p = who.target.points + rng.normal(scale=0.15, size=who.target.points.shape)
            if isinstance(who, AbstractPWA):
                tl = np.asarray(who.source.trilist)
                if not (np.sign(gen.tri_area2(who.source.points, tl)) == np.sign(gen.tri_area2(p, tl))).all():
                    return None
            if rng.random() < 0.4 and id(who) not in SHARED_ENDS:
                # the caller refreshes the target object the alignment holds, in place, and hands the same object over again
                # (not once an inverse is alive: an inverse holds its origin's source and target objects as its own target and
                # source, so such an edit would be an edit of the other transform's source)
                tobj = who.target
                if tobj.points.dtype.kind == "f":
                    tobj.points[...] = p
                else:
                    tobj.points = p.copy()
                who.set_target(tobj)
            else:
                who.set_target(ms.PointCloud(p.copy()))
            src_given = who.source.copy()
            cls_ = type(who)
            kern, msv = (type(who.kernel), who.min_singular_val) if isinstance(who, mt.ThinPlateSplines) else (None, None)

            def rec():
                # history-free: built directly from the source and the new target (never retargeted)
                if kern is not None:
                    return cls_(src_given.copy(), ms.PointCloud(p.copy()), kernel=kern(src_given.points.copy()), min_singular_val=msv)
                return cls_(src_given.copy(), ms.PointCloud(p.copy()))
            return rec
        reg = tx.CHAIN_PARTS.get(id(who))
        parts = reg[1] if reg is not None and reg[0] is who else None
        if parts is not None and alone and id(who) in TWINS and len(TWINS[id(who)]) == 2:
            # a member of the chain (a warp, or a homogeneous member) gets new parameters through the object the caller still
            # holds: the chain is then the chain of the updated member and the other members
            j_ = int(rng.integers(0, len(parts)))
            link = parts[j_][0]
            if not isinstance(link, (AbstractPWA, mt.ThinPlateSplines, mt.Homogeneous)) or type(link).__name__ not in tx.HOMOG + ["CachedPWA", "PythonPWA", "ThinPlateSplines"]:
                return None
            rec_link = reparameterise(rng, link, type(link).__name__, d, parts[j_][1], alone=False)
            if rec_link == "drop":
                return "drop"        # (the member now holds parameters no recipe stands for: the chain leaves the judged set)
            if rec_link is None:
                return None
            recs_ = [p[1] for p in parts]
            recs_[j_] = rec_link
            assemble = reg[2]
            if rng.random() < 0.5:
                # (in between, the warp is used on its own)
                try:
                    link.apply(domain_points(rng, link, d, 3, 0.0))
                except Exception:
                    pass
            return lambda: assemble([r() for r in recs_])
        if not isinstance(who, mt.Homogeneous) or kind in ("TransformChain", "WithDims"):
            return None
        t2, recipe2 = tx.make(rng, kind, d)
        try:
            v = np.array(t2.as_vector())
            who._from_vector_inplace(v) if rng.random() < 0.5 else who.from_vector_inplace(v)
        except Exception:
            return None
        if tx.maxdiff(who.h_matrix, t2.h_matrix) > 1e-9 * max(1.0, float(np.abs(t2.h_matrix).max())):
            return "drop"      # no parameter vector stands for that member (mirrored similarity ...): C05's subject, not this property's
        return recipe2


SHARED_ENDS = set()


def w_history(ctx, rng, i):
    import menpo.shape as ms
    from menpo.transform.piecewiseaffine.base import TriangleContainmentError, AbstractPWA
    TWINS.clear()
    SHARED_ENDS.clear()
    d = 2 + (i % 5 == 4)
    K = tx.kinds(d) + ["R2LogR2RBF", "R2LogRRBF", "WeaklyProjectiveHomogeneous", "ScaledHomogeneous"]
    if d == 2 and i % 2 == 0:
        kind = ["PiecewiseAffine", "PiecewiseAffine", "PythonPWA", "TransformChain", "ThinPlateSplines", "PWA_degenerate_triangle", "PWA_unused_vertex"][(i // 2) % 7]
    else:
        kind = K[(i // 2) % len(K)]
    t, recipe = tx.make(rng, kind, d)
    TWINS[id(t)] = (t, recipe)
    live = [t]
    is_pwa = isinstance(t, AbstractPWA)
    events, bclasses = set(), set()
    prev = None          # last input array object
    last_result = None   # the array returned by the last successful array application
    last_failed = None   # values of the last failing input
    n0 = int(rng.integers(1, 13))
    for step in range(int(rng.integers(8, 31 if ctx.tier == "thorough" else 24))):
        who = live[rng.integers(0, len(live))]
        ev = ["fresh", "same_object_edited", "near_equal", "other_size", "shape", "on_copy", "repeat_values", "retry_failed",
              "int_or_f32", "on_shared_edges", "reparameterised", "inverse_taken", "previous_result_edited", "non_finite_points",
              "readonly_view_of_a_buffer", "single_precision_rounding_of_the_previous", "longer_transform_derived", "sibling_built_from_its_vector", "reparameterised", "reparameterised"][rng.integers(0, 20)]
        n = n0
        outside = 0.35 if (is_pwa and rng.random() < 0.35) else 0.0
        if kind == "PWA_unused_vertex" and step == 0:
            # the very first question put to a fresh warp: where do the source landmarks go (what aligned_source() asks)
            x = np.array(who.source.points, dtype=float, copy=True)
            ev = "source_points_first"
        elif ev == "fresh" or prev is None:
            x = domain_points(rng, who, d, n, outside)
        elif ev == "same_object_edited":
            x = prev
            x[...] = domain_points(rng, who, d, len(prev), outside)      # edited in place, same object, same shape
        elif ev == "readonly_view_of_a_buffer":
            # the caller hands over a read-only view of a buffer it keeps refilling (what as_vector() / setflags(write=False)
            # give): applied, buffer refilled through its owner, the same view applied again
            owner = domain_points(rng, who, d, n, outside)
            x = owner.view()
            x.flags.writeable = False
            try:
                who.apply(x, batch_size=None if rng.random() < 0.6 else len(x))
            except TriangleContainmentError:
                pass
            except (ValueError, TypeError, IndexError):
                pass
            owner[...] = domain_points(rng, who, d, len(owner), outside)
        elif ev == "single_precision_rounding_of_the_previous":
            # the same coordinates after a single-precision stage of a pipeline: other values (unless they were whole numbers)
            x = prev.astype(np.float32)
            if rng.random() < 0.5:
                x = x.astype(float)
        elif ev == "sibling_built_from_its_vector":
            # the transform lends its class to a sibling (from_vector with other parameters) / is asked for the parameters of an
            # inverse: queries - it goes on mapping the same values to the same results
            try:
                with taps.quiet():
                    v_ = np.array(who.as_vector(), dtype=float)
                    who.from_vector(v_ * 1.1 + 0.05)
                    if hasattr(who, "pseudoinverse_vector"):
                        who.pseudoinverse_vector(v_ * 0.9 + 0.02)
            except Exception:
                continue
            x = prev.copy()
        elif ev == "longer_transform_derived":
            # something is derived from the transform out of place (composed with a further step) and thrown away: a query
            import menpo.transform as _mt9
            try:
                with taps.quiet():
                    other_ = _mt9.Translation(rng.uniform(-3, 3, d)) if rng.random() < 0.6 else _mt9.UniformScale(float(rng.uniform(0.5, 2.0)), d)
                    (who.compose_before if rng.random() < 0.5 else who.compose_after)(other_)
            except Exception:
                continue
            x = prev.copy()
        elif ev == "near_equal":
            x = prev + rng.choice([1e-3, 1e-6, 1e-9, 1e-12]) * rng.choice([-1, 1], prev.shape)
        elif ev == "other_size":
            x = domain_points(rng, who, d, int(rng.integers(1, 14)), outside)
        elif ev == "repeat_values":
            x = prev.copy()
        elif ev == "retry_failed":
            if last_failed is None:
                continue
            x = last_failed.copy()
        elif ev == "on_copy":
            c = who.copy()
            TWINS[id(c)] = (c,) + tuple(TWINS[id(who)][1:])
            live.append(c)
            x = prev.copy()
            who = c
        elif ev == "non_finite_points":
            if not is_pwa:
                continue
            # nan / inf coordinates are points outside the domain like any other: mixed with inside and finite outside points
            x = domain_points(rng, who, d, int(rng.integers(4, 12)), 0.35)
            k = rng.integers(0, len(x), int(rng.integers(1, 3)))
            x[k, rng.integers(0, 2)] = [np.nan, np.inf, -np.inf][rng.integers(0, 3)]
        elif ev == "inverse_taken":
            # asking for the inverse is a query: afterwards the transform maps the same values to the same results
            try:
                with taps.quiet():
                    inv_ = who.pseudoinverse()
            except Exception:
                continue
            x = prev.copy()
            if rng.random() < 0.5 and id(who) in TWINS:
                # ... and the inverse is a transform in its own right: asked about the very values its origin has just been
                # applied to, it answers like an inverse taken from a transform that was never applied to anything
                rec_who = TWINS[id(who)][1]
                TWINS[id(inv_)] = (inv_, (lambda rec_who=rec_who: rec_who().pseudoinverse())) + tuple(TWINS[id(who)][2:])
                live.append(inv_)
                SHARED_ENDS.update((id(who), id(inv_)))
                who = inv_
                events.add("inverse_applied_to_its_origins_input")
        elif ev == "previous_result_edited":
            # the caller scribbles over the array it got back earlier (it is the caller's array) and asks again
            if last_result is None:
                continue
            try:
                last_result[...] = -777.0
            except Exception:
                continue
            x = prev.copy() if rng.random() < 0.5 else prev
        elif ev == "reparameterised":
            # the transform's parameters are replaced (parameter vector / new target): from now on only the new parameters count
            # (a chain and its copies hold the same member objects: a member is only retargeted while the chain is the only one alive)
            new_recipe = reparameterise(rng, who, kind, d, TWINS[id(who)][1], alone=len(live) == 1)
            if new_recipe == "drop":
                TWINS.pop(id(who), None)
                live = [o for o in live if o is not who]
                if not live:
                    break
                continue
            if new_recipe is None:
                continue
            TWINS[id(who)] = (who, new_recipe, "reparameterised")
            x = prev.copy() if rng.random() < 0.6 else domain_points(rng, who, d, n, 0.0)
        elif ev == "on_shared_edges":
            if not is_pwa:
                continue
            # points exactly on mesh vertices / shared edges (as integer pixel grids over integer meshes are), mixed with
            # a few points outside the domain
            sp, tl = who.source.points, np.asarray(who.source.trilist)
            k = int(rng.integers(3, 10))
            verts = sp[rng.integers(0, len(sp), k)]
            e = tl[rng.integers(0, len(tl), k)]
            mids = 0.5 * (sp[e[:, 0]] + sp[e[:, 1]])
            x = np.vstack([verts, mids])
            n_out = int(rng.integers(0, 4))
            if n_out:
                far = rng.uniform(1.3 * tx.BOX, 2 * tx.BOX, (n_out, 2)) * rng.choice([-1, 1], (n_out, 2))
                x = np.vstack([x, far])
            x = x[rng.permutation(len(x))]
        elif ev == "int_or_f32":
            x = np.round(domain_points(rng, who, d, n, 0.0))
            x = x.astype([np.int64, np.float32, np.int32][rng.integers(0, 3)])
        else:  # shape
            x = domain_points(rng, who, d, n, outside)
        if kind == "WithDims" and rng.random() < 0.4:
            # the same selector asked about points of another dimensionality (it selects columns, whatever their number)
            x = rng.uniform(-5, 5, (len(x), [2, 3, 4, 5][rng.integers(0, 4)]))
            ev = "other_width"
        bs = None
        if rng.random() < 0.6:
            bs = int(rng.integers(1, len(x) + 3))
            bclasses.add("divides" if len(x) % bs == 0 else "not_dividing")
        events.add(ev)
        try:
            if ev == "shape":
                pc = ms.PointCloud(x)
                if rng.random() < 0.6:
                    pc.landmarks["a"] = ms.PointCloud(x[::-1].copy())
                r1 = who.apply(pc, batch_size=bs)
                if pc.has_landmarks:
                    # the same shape applied again: same points, same landmarks, and the shape handed in is as it was
                    r2 = who.apply(pc, batch_size=bs)
                    ctx.tap("shape_applied_twice", "calls"); ctx.tap("shape_applied_twice", "checked")
                    if tx.maxdiff(r1.points, r2.points) > 0 or tx.maxdiff(r1.landmarks["a"].points, r2.landmarks["a"].points) > 0:
                        ctx.fail("second_application_to_the_same_shape_gives_another_result", cls=type(who).__name__, mech="landmarks" if tx.maxdiff(r1.points, r2.points) == 0 else "points")
                    if tx.maxdiff(pc.landmarks["a"].points, x[::-1]) > 0 or tx.maxdiff(pc.points, x) > 0:
                        ctx.fail("application_changed_the_shape_it_was_given", cls=type(who).__name__)
            else:
                last_result = who.apply(x, batch_size=bs)
            if x.dtype == float and ev not in ("other_width", "readonly_view_of_a_buffer"):
                prev = x
        except TriangleContainmentError:
            if np.isfinite(x).all():
                last_failed = np.array(x, dtype=float, copy=True)
            events.add("failed")
            if x.dtype == float and np.isfinite(x).all() and ev != "readonly_view_of_a_buffer":
                prev = x
        except (ValueError, TypeError, IndexError):
            events.add("refused")
    # exhaustive batch sizes on one input for this instance
    x = domain_points(rng, t, d, int(rng.integers(2, 13)), 0.0)
    for bs in range(1, len(x) + 3):
        t.apply(x, batch_size=bs)
    if is_pwa:
        # a failing point in every position, every batch size: the mask is judged by the tap
        xo = domain_points(rng, t, d, int(rng.integers(3, 9)), 0.0)
        for pos in range(len(xo)):
            y = xo.copy()
            y[pos] = [2 * tx.BOX, -2 * tx.BOX]
            for bs in [None] + list(range(1, len(y) + 2)):
                try:
                    t.apply(y, batch_size=bs)
                    ctx.fail("out_of_domain_point_accepted", cls=type(t).__name__)
                except TriangleContainmentError:
                    pass
        events.add("failing_point_every_position")
    nontriv = bool(events & {"same_object_edited", "near_equal", "repeat_values", "retry_failed"}) or "not_dividing" in bclasses
    ctx.see("kinds", kind)
    ctx.count_case((kind, d, tuple(sorted(events)), tuple(sorted(bclasses))), nontrivial=nontriv,
                   sample={"kind": kind, "dims": d, "events": sorted(events), "batch_classes": sorted(bclasses)} if i < 6 else None)


def w_constrain(ctx, rng, i):
    """BooleanImage.constrain_to_pointcloud goes through PWA apply failures: the mask it builds equals brute force."""
    import menpo.image as mi
    import menpo.shape as ms
    TWINS.clear()
    shp = (int(rng.integers(6, 16)), int(rng.integers(6, 16)))
    n = int(rng.integers(3, 8))
    pts = rng.uniform(0, 1, (n, 2)) * (np.array(shp) - 1)
    from scipy.spatial import Delaunay
    try:
        tl = Delaunay(pts).simplices
    except Exception:
        ctx.count_case(("constrain", "degenerate"), nontrivial=False)
        return
    img = mi.BooleanImage.init_blank(shp)
    bs = [None, 1, 7, 50][rng.integers(0, 4)]
    out = img.constrain_to_pointcloud(ms.PointCloud(pts), batch_size=bs)
    idx = np.stack(np.meshgrid(np.arange(shp[0]), np.arange(shp[1]), indexing="ij"), -1).reshape(-1, 2).astype(float)
    inside, outside = containment(idx, pts, tl)
    got = out.mask.ravel()
    if (got & outside).any() or (~got & inside).any():
        ctx.fail("constrained_mask_differs_from_brute_force_containment", cls="BooleanImage", mech="batch_%s" % ("none" if bs is None else "some"))
    ctx.tap("constrain_mask", "calls"); ctx.tap("constrain_mask", "checked")
    ctx.count_case(("constrain", shp, n, bs), nontrivial=bs is not None and (shp[0] * shp[1]) % bs != 0)


def w_large(ctx, rng, i):
    """Inputs far larger than anything else here (the size at which implementations start to split work internally):
    un-batched and batched applications agree, and a failure still flags exactly the outside points, once per input point."""
    from menpo.transform.piecewiseaffine.base import TriangleContainmentError, AbstractPWA
    TWINS.clear()
    kind = ["PiecewiseAffine", "PythonPWA", "ThinPlateSplines", "Affine"][i % 4]
    t, recipe = tx.make(rng, kind, 2)
    TWINS[id(t)] = (t, recipe)
    is_pwa = isinstance(t, AbstractPWA)
    n_cells = len(t.trilist) if is_pwa else (t.n_points if kind == "ThinPlateSplines" else 8)
    n = int(1.3 * (1 << 24) / n_cells) + int(rng.integers(0, 1000))      # points x triangles (centres) well above 2**24
    x = domain_points(rng, t, 2, 4096, 0.0)
    x = x[rng.integers(0, len(x), n)] * (1 - 1e-3 * rng.random((n, 1)))   # distinct points; the Delaunay source mesh covers a convex region around the origin
    mode = ["few_outside", "all_inside"][(i // 4) % 2] if is_pwa else "all_inside"
    if mode == "few_outside":
        k = rng.integers(0, n, 5)
        x[k] = [2 * tx.BOX, -2 * tx.BOX]
    try:
        t.apply(x)                                      # judged by the tap (twin, containment mask)
    except TriangleContainmentError:
        pass
    try:
        t.apply(x, batch_size=int(rng.integers(100000, 400000)))
    except TriangleContainmentError:
        pass
    ctx.count_case(("large", kind, mode), nontrivial=True, sample={"kind": kind, "n_points": n, "cells": int(n_cells), "mode": mode} if i < 4 else None)


WORKLOADS = [Workload("history", w_history, quick=1500, thorough=60000), Workload("constrain", w_constrain, quick=200, thorough=6000),
             Workload("large", w_large, quick=4, thorough=32)]
