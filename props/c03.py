"""C03  Composition obeys its law, is closed and type-sound, leaves operands intact.

Taps on compose_before / compose_after (+ _inplace) of Transform and ComposableTransform and on Affine.decompose.
Reference: clones of both operands taken before the call, evaluated sequentially on fixed probe points.
"""
import numpy as np

from vf.core import Workload
from vf import taps, gen, tx
from vf.digest import digest

ID = "C03"
TECHNIQUE = "runtime monitoring: post-condition taps on the compose_* entry points with operand clones as sequential reference, class-honesty predicate"
LEVEL_TEXT = ("Every compose call made by all ordered pairs of 17 (2D) / 14 (3D) transform kinds, both directions, in-place or not, and by random programs of "
              "2-8 compose calls is judged on the composition law (probe points), operand digests, closure and class honesty; held-on-what-was-observed")
LEVEL_NOTE = "trusted: sequential application of operand clones as the reference map; tolerances 1e-8 relative; reflections are accepted as 'Rotation' (alignment with mirroring and SVD decomposition produce them by design)"
DESIGN_REF = "DESIGN.md section 7, C03"
RULE = ("all ordered pairs of transform kinds x dims x {before, after} x {in-place, not} with random finite parameters (several draws per pair), plus random programs of "
        "2-8 compose calls; non-trivial = neither operand is the identity and the reference map could be evaluated on >=3 probe points; distinct = (kind a, kind b, dims, "
        "direction, in-place) for pairs and the operation/kind sequence for programs")
ASSUMPTIONS = ["an accepted in-place composition is judged on 'same map, argument unchanged, receiver still an honest member of its class' (the last only when both operands were honest before)",
               "pairs whose dimensionalities do not chain (e.g. WithDims output fed to a 2D warp) are not judged"]
DECIDING_TAPS = ["compose", "compose_inplace"]
REPLAY_PATHS = ['menpo/transform/test', 'menpo/image/test']      # suite replay (thorough tier): the repository's own tests under these monitors
SHARDS = {"quick": 8, "thorough": 16}

_PROBE = {}


def probe_pts(d):
    if d not in _PROBE:
        _PROBE[d] = tx.probe(np.random.default_rng(1234 + d), d, 11)
    return _PROBE[d]


def reference(first, second):
    """(points, values, ok) of second(first(x)) on probe points, trying 2D then 3D input."""
    from menpo.transform.piecewiseaffine.base import TriangleContainmentError
    cands = []
    nd = None
    try:
        nd = first.n_dims
    except Exception:
        pass
    for d in ([nd] if nd in (2, 3) else [2, 3]):
        x = probe_pts(d)
        try:
            y, ok1 = tx.safe_apply(first, x)
            if not ok1.any():
                continue
            z, ok2 = tx.safe_apply(second, y[ok1])
            ok = ok1.copy()
            ok[np.nonzero(ok1)[0]] = ok2
            full = np.zeros((len(x), z.shape[1]))
            full[np.nonzero(ok1)[0]] = z
            if np.isfinite(full[ok]).all():
                return x, full, ok
        except Exception:
            continue
    return None


def is_transform(t):
    from menpo.transform.base import Transform
    return isinstance(t, Transform) and taps.is_menpo(t)


class ComposeMonitor(taps.Monitor):
    name = "compose"

    def __init__(self, direction):
        self.direction = direction

    def pre(self, ctx, args, kw):
        a, b = args[0], args[1] if len(args) > 1 else kw.get("transform")
        if not (is_transform(a) and is_transform(b)):
            return None
        try:
            a0, b0 = a.copy(), b.copy()
        except Exception:
            return None
        first, second = (a0, b0) if self.direction == "before" else (b0, a0)
        ref = reference(first, second)
        if ref is None:
            return None
        import menpo.transform as mt
        honest_in = (isinstance(a, mt.Homogeneous) and isinstance(b, mt.Homogeneous) and not tx.honest(a) and not tx.honest(b))
        return {"ref": ref, "da": digest(a), "db": digest(b), "honest_in": honest_in}

    def post(self, ctx, st, args, kw, c, exc):
        import menpo.transform as mt
        from menpo.transform.base import Alignment
        a, b = args[0], args[1] if len(args) > 1 else kw.get("transform")
        ka, kb = type(a).__name__, type(b).__name__
        pair = "%s.%s(%s)" % (ka, self.direction, kb)
        ctx.see("pairs", pair)
        if digest(a) != st["da"]:
            ctx.fail("compose_modified_its_receiver", cls=ka, mech=self.direction + ":" + kb)
        if digest(b) != st["db"]:
            ctx.fail("compose_modified_its_argument", cls=kb, mech=self.direction + ":" + ka)
        if exc is not None:
            ctx.fail("compose_raised", cls=ka, mech=self.direction + ":" + kb + ":" + type(exc).__name__, error=repr(exc)[:200])
            return
        x, ref, ok = st["ref"]
        try:
            got, ok2 = tx.safe_apply(c, x[ok])
        except Exception as e:
            ctx.fail("composed_transform_cannot_be_applied", cls=type(c).__name__, mech=pair, error=repr(e)[:200])
            return
        r = ref[ok][ok2]
        scale = max(1.0, float(np.abs(r).max())) if r.size else 1.0
        e = tx.maxdiff(got[ok2], r)
        ctx.err("composition_law_rel", e / scale)
        if not ok2.all():
            ctx.fail("composed_transform_rejects_points_the_operands_accept", cls=type(c).__name__, mech=pair)
        if not (e <= 1e-8 * scale):
            ctx.fail("composition_law_violated", cls=ka, mech=self.direction + ":" + kb, err=e, result=type(c).__name__)
        if isinstance(a, mt.Homogeneous) and isinstance(b, mt.Homogeneous):
            if not isinstance(c, mt.Homogeneous) or isinstance(c, mt.TransformChain):
                ctx.fail("homogeneous_pair_not_closed", cls=ka, mech=self.direction + ":" + kb, result=type(c).__name__)
                return
            if isinstance(c, Alignment):
                ctx.fail("composition_returned_an_alignment", cls=ka, mech=self.direction + ":" + kb, result=type(c).__name__)
            h = np.asarray(c.h_matrix)
            # (invertibility of an affine map is that of its linear part: the homogeneous 1 says nothing about units)
            if not np.isfinite(h).all() or np.linalg.cond(h[:-1, :-1] if isinstance(c, mt.Affine) and h.shape[0] == h.shape[1] else h) > 1e10:
                ctx.fail("composed_matrix_not_invertible", cls=ka, mech=self.direction + ":" + kb)
            probs = tx.honest(c) if st["honest_in"] else []
            if not st["honest_in"]:
                ctx.bump("honesty_not_judged_operand_already_dishonest")
            if probs:
                ctx.fail("result_class_is_not_honest", cls=type(c).__name__, mech=pair, problems=probs, h_matrix=h)
            ctx.see("result_classes", "%s -> %s" % (pair, type(c).__name__))


class InplaceMonitor(taps.Monitor):
    name = "compose_inplace"

    def __init__(self, direction):
        self.direction = direction

    def pre(self, ctx, args, kw):
        a, b = args[0], args[1] if len(args) > 1 else kw.get("transform")
        if not (is_transform(a) and is_transform(b)):
            return None
        try:
            a0, b0 = a.copy(), b.copy()
        except Exception:
            return None
        first, second = (a0, b0) if self.direction == "before" else (b0, a0)
        import menpo.transform as mt
        honest_in = isinstance(a, mt.Homogeneous) and isinstance(b, mt.Homogeneous) and not tx.honest(a) and not tx.honest(b)
        return {"ref": reference(first, second), "da": digest(a), "db": digest(b), "honest_in": honest_in}

    def post(self, ctx, st, args, kw, c, exc):
        a, b = args[0], args[1] if len(args) > 1 else kw.get("transform")
        ka, kb = type(a).__name__, type(b).__name__
        if b is not a and digest(b) != st["db"]:          # (composed with itself, the argument is the receiver)
            ctx.fail("inplace_compose_modified_its_argument", cls=kb, mech=self.direction + ":" + ka)
        if exc is not None:
            if isinstance(exc, ValueError):
                ctx.bump("inplace_refused")
                if digest(a) != st["da"]:
                    ctx.fail("refused_inplace_compose_changed_the_receiver", cls=ka, mech=self.direction + ":" + kb)
                return
            ctx.fail("inplace_compose_raised", cls=ka, mech=self.direction + ":" + kb + ":" + type(exc).__name__, error=repr(exc)[:200])
            return
        if st["ref"] is None:
            return
        x, ref, ok = st["ref"]
        try:
            got, ok2 = tx.safe_apply(a, x[ok])
        except Exception as e:
            ctx.fail("inplace_composed_transform_cannot_be_applied", cls=ka, mech=self.direction + ":" + kb, error=repr(e)[:200])
            return
        r = ref[ok][ok2]
        scale = max(1.0, float(np.abs(r).max())) if r.size else 1.0
        e = tx.maxdiff(got[ok2], r)
        if not (e <= 1e-8 * scale):
            ctx.fail("inplace_composition_law_violated", cls=ka, mech=self.direction + ":" + kb, err=e)
        import menpo.transform as mt
        if isinstance(a, mt.Homogeneous) and tx.honest(a):
            ctx.see("inplace_receiver_dishonest_observed", "%s.%s_inplace(%s)" % (ka, self.direction, kb))
            if st["honest_in"]:
                # the receiver keeps its class: an accepted in-place composition of two honest members must leave it an honest member
                ctx.fail("result_class_is_not_honest", cls=ka, mech="inplace:" + self.direction + ":" + kb, problems=tx.honest(a))


class DecomposeMonitor(taps.Monitor):
    name = "Affine.decompose"

    def pre(self, ctx, args, kw):
        a = args[0]
        if not taps.is_menpo(a) or not np.isfinite(a.h_matrix).all():
            return None
        return {"d": digest(a), "h": a.h_matrix.copy()}

    def post(self, ctx, st, args, kw, parts, exc):
        a = args[0]
        cls = type(a).__name__
        if exc is not None:
            ctx.fail("decompose_raised", cls=cls, mech=type(exc).__name__, error=repr(exc)[:200])
            return
        if digest(a) != st["d"]:
            ctx.fail("decompose_modified_the_transform", cls=cls)
        h = np.eye(st["h"].shape[0])
        for p in parts:
            h = np.asarray(p.h_matrix) @ h     # parts apply left to right
            pr = tx.honest(p)
            if pr:
                ctx.fail("decomposition_part_not_honest", cls=type(p).__name__, mech=cls, problems=pr)
        e = np.abs(h - st["h"]).max()
        ctx.err("decompose_recompose", e)
        if not (e <= 1e-9 * max(1.0, np.abs(st["h"]).max())):
            ctx.fail("decomposition_does_not_recompose", cls=cls, err=float(e))
        x = probe_pts(a.n_dims)
        y = x
        for p in parts:
            y = p.apply(y)
        if tx.maxdiff(y, a.apply(x)) > 1e-8 * max(1.0, np.abs(y).max()):
            ctx.fail("decomposition_does_not_recompose", cls=cls, mech="by_application")


def setup(ctx):
    for direction in ("before", "after"):
        taps.tap_definers(ctx, "compose_" + direction, lambda c, d=direction: ComposeMonitor(d))
        taps.tap_definers(ctx, "compose_%s_inplace" % direction, lambda c, d=direction: InplaceMonitor(d))
    owners = taps.tap_definers(ctx, "decompose", lambda c: DecomposeMonitor())
    ctx.see("tapped_decompose_definers", sorted(c.__name__ for c in owners))


def is_identity(t, d):
    try:
        x = probe_pts(d)
        return tx.maxdiff(t.apply(x), x) < 1e-12
    except Exception:
        return False


def w_pairs(ctx, rng, i):
    d = 2 + i % 2
    K = tx.kinds(d)
    n = len(K)
    j = i // 2
    ka, kb = K[j % n], K[(j // n) % n]
    mode = (j // (n * n)) % 4
    direction = "before" if mode % 2 == 0 else "after"
    inplace = mode >= 2
    a, _ = tx.make(rng, ka, d)
    b, _ = tx.make(rng, kb, d)
    b_before = digest(b)
    if inplace:
        fn = getattr(a, "compose_%s_inplace" % direction, None)
        if fn is None:
            ctx.count_case((ka, kb, d, direction, "inplace", "no_such_method"), nontrivial=False)
            return
        try:
            fn(b)
        except ValueError:
            pass
    else:
        if isinstance(a, taps.mod("menpo.transform.homogeneous.affine").Affine) and rng.random() < 0.3:
            a.decompose()
        if rng.random() < 0.1:
            # affine maps with repeated singular values (two axes stretched alike, the third differently - in every position)
            import menpo.transform as _mt
            sv = [[3.0, 3.0, 0.5], [2.0, 0.7, 0.7], [1.5, 1.5, 1.5], [4.0, 1.0, 4.0]][rng.integers(0, 4)][:d] if d == 3 else [[2.0, 2.0], [3.0, 0.5]][rng.integers(0, 2)]
            hh = np.eye(d + 1)
            hh[:d, :d] = gen.rotation_matrix(rng, d) @ np.diag(sv) @ gen.rotation_matrix(rng, d)
            hh[:d, d] = rng.uniform(-3, 3, d)
            _mt.Affine(hh).decompose()
        c = getattr(a, "compose_" + direction)(b)
        # the result is independent of later edits to the operands' parameters where it claims to be one transform
        import menpo.transform as mt
        if isinstance(c, mt.Homogeneous) and isinstance(a, mt.Homogeneous) and isinstance(b, mt.Homogeneous):
            x = probe_pts(d)
            before = c.apply(x)
            for t in (a, b):
                try:
                    t.h_matrix[0, -1] += 1.0
                except Exception:
                    pass
            if tx.maxdiff(c.apply(x), before) > 0:
                ctx.fail("composed_result_shares_parameters_with_an_operand", cls=type(c).__name__, mech="%s.%s(%s)" % (ka, direction, kb))
    ctx.count_case((ka, kb, d, direction, inplace), nontrivial=not (is_identity(a, d) or is_identity(b, d)),
                   sample={"a": ka, "b": kb, "dims": d, "direction": direction, "inplace": inplace} if i < 5 else None)


IDENT = ["identity:" + c for c in ("Homogeneous", "Affine", "Similarity", "Rotation", "Translation", "UniformScale", "NonUniformScale")]


def w_hostile_reps(ctx, rng, i):
    """Operands held in unusual but legal representations: integer-dtype matrices, improper rotations."""
    d = 2 + i % 2
    K = tx.HOMOG + tx.EXTRA_HOMOG
    ka = tx.EXTRA_HOMOG[(i // 2) % len(tx.EXTRA_HOMOG)]
    kb = K[(i // (2 * len(tx.EXTRA_HOMOG))) % len(K)]
    a, _ = tx.make(rng, ka, d)
    b, _ = tx.make(rng, kb, d)
    for first, second in ((a, b), (b, a)):
        first.compose_before(second)
        first.compose_after(second)
        for direction in ("before", "after"):
            c = first.copy()
            try:
                getattr(c, "compose_%s_inplace" % direction)(second)
            except ValueError:
                pass
    ctx.count_case(("hostile", ka, kb, d), nontrivial=True)


def w_identities(ctx, rng, i):
    """init_identity of every class composed with every kind, both sides: the other operand's map, an honest class."""
    d = 2 + i % 2
    K = tx.kinds(d)
    ident = IDENT[(i // 2) % len(IDENT)]
    other = K[(i // (2 * len(IDENT))) % len(K)]
    a, _ = tx.make(rng, ident, d)
    b, _ = tx.make(rng, other, d)
    x = probe_pts(d)
    if tx.maxdiff(a.apply(x), x) > 0:
        ctx.fail("init_identity_is_not_the_identity", cls=type(a).__name__)
    if tx.honest(a):
        ctx.fail("result_class_is_not_honest", cls=type(a).__name__, mech="init_identity")
    for first, second in ((a, b), (b, a)):
        first.compose_before(second)
        first.compose_after(second)
    ctx.count_case(("identity", ident, other, d), nontrivial=True)


def w_programs(ctx, rng, i):
    """Random sequences of compose calls; the final map equals sequential application of clones of the operands."""
    import menpo.transform as mt
    d = 2 + i % 2
    K = [k for k in tx.kinds(d) if k != "WithDims"]
    homog_only = bool(rng.random() < 0.5)
    pool = tx.HOMOG if homog_only else K
    cur, _ = tx.make(rng, pool[rng.integers(0, len(pool))], d)
    seq = [cur.copy()]
    ops = [type(cur).__name__]
    operands = []
    for step in range(int(rng.integers(2, 9))):
        u, _ = tx.make(rng, pool[rng.integers(0, len(pool))], d)
        operands.append((u, digest(u)))
        direction = "before" if rng.random() < 0.5 else "after"
        inplace = rng.random() < 0.4
        uc = u.copy()
        if inplace and hasattr(cur, "compose_before_inplace"):
            try:
                getattr(cur, "compose_%s_inplace" % direction)(u)
            except ValueError:
                ops.append("refused")
                continue
        else:
            inplace = False
            cur = getattr(cur, "compose_" + direction)(u)
        if direction == "before":
            seq.append(uc)
        else:
            seq.insert(0, uc)
        ops.append("%s%s:%s" % (direction, "_inplace" if inplace else "", type(u).__name__))
    x = probe_pts(d)
    y, ok = x, np.ones(len(x), dtype=bool)
    try:
        for t in seq:
            v, o = tx.safe_apply(t, y[ok])
            full = np.zeros((len(x), v.shape[1]))
            idx = np.nonzero(ok)[0]
            full[idx] = v
            ok2 = ok.copy()
            ok2[idx] = o
            y, ok = full, ok2
        got, okc = tx.safe_apply(cur, x[ok])
        e = tx.maxdiff(got[okc], y[ok][okc])
        scale = max(1.0, float(np.abs(y[ok]).max())) if ok.any() else 1.0
        ctx.err("program_law_rel", e / scale)
        ctx.tap("program_final_map", "calls"); ctx.tap("program_final_map", "checked")
        if not (e <= 1e-7 * scale):
            ctx.fail("program_of_compositions_differs_from_sequential_application", cls=type(cur).__name__, mech="homog" if homog_only else "mixed",
                     ops=ops, err=e)
    except Exception as e:
        ctx.bump("program_reference_not_evaluable")
    for u, dg in operands:
        if digest(u) != dg:
            ctx.fail("program_modified_an_operand", cls=type(u).__name__)
    if homog_only and (not isinstance(cur, mt.Homogeneous) or isinstance(cur, mt.TransformChain)):
        ctx.fail("homogeneous_program_not_closed", cls=type(cur).__name__, ops=ops)
    ctx.count_case(("program", d, tuple(ops)), nontrivial=ok.sum() >= 3, sample={"ops": ops, "dims": d} if i < 4 else None)


def w_vector_inplace(ctx, rng, i):
    """The parameter-vector flavour of in-place composition (`compose_after_from_vector_inplace`): the receiver becomes
    receiver o from_vector(v) - the same map as the out-of-place composition with the transform of those parameters."""
    import menpo.transform as mt
    d = 2 + i % 2
    kinds_ = [k for k in tx.HOMOG if k != "Homogeneous"] + ["Homogeneous"]
    kind = kinds_[(i // 2) % len(kinds_)]
    a, _ = tx.make(rng, kind, d)
    b, _ = tx.make(rng, kind, d)
    if not hasattr(a, "compose_after_from_vector_inplace"):
        ctx.count_case(("vector_inplace", kind, d, "n/a"), nontrivial=False)
        return
    ha = np.array(a.h_matrix, dtype=float)
    try:
        v = np.array(b.as_vector(), dtype=float)
        delta = a.from_vector(v)
    except Exception:
        ctx.count_case(("vector_inplace", kind, d, "no_vector"), nontrivial=False)
        return
    if tx.maxdiff(a.h_matrix, ha) > 0:
        # (the out-of-place constructor: the receiver only lends its class and options)
        ctx.fail("from_vector_changed_the_transform_it_was_called_on", cls=type(a).__name__, mech="from_vector")
        return
    if tx.maxdiff(delta.h_matrix, b.h_matrix) > 1e-9 * max(1.0, float(np.abs(b.h_matrix).max())):
        ctx.count_case(("vector_inplace", kind, d, "no_parameters_for_that_member"), nontrivial=False)      # (mirrored similarity ...: C05's subject)
        return
    x = probe_pts(d)
    ref = a.apply(delta.apply(x))                  # compose_after: the argument first, then the receiver
    hx = np.hstack([x, np.ones((len(x), 1))]) @ (ha @ np.array(b.h_matrix, dtype=float)).T
    if ha.shape[0] == ha.shape[1] and tx.maxdiff(ref, hx[:, :-1] / hx[:, -1:]) > 1e-8 * max(1.0, float(np.abs(ref).max())):
        ctx.fail("sequential_application_differs_from_the_product_of_the_matrices", cls=type(a).__name__, mech="after_from_vector_inplace")
    recv = a.copy()
    try:
        recv.compose_after_from_vector_inplace(v)
    except Exception as e:
        ctx.fail("compose_raised", cls=type(a).__name__, mech="after_from_vector_inplace:" + type(e).__name__, error=repr(e)[:160])
        return
    ctx.tap("vector_flavour_of_inplace_composition", "calls"); ctx.tap("vector_flavour_of_inplace_composition", "checked")
    got = recv.apply(x)
    sc = max(1.0, float(np.abs(ref).max()))
    if not (tx.maxdiff(got, ref) <= 1e-8 * sc):
        ctx.fail("inplace_composition_differs_from_the_out_of_place_map", cls=type(a).__name__, mech="after_from_vector_inplace", err=tx.maxdiff(got, ref))
    if tx.maxdiff(v, np.asarray(b.as_vector(), dtype=float)) > 0:
        ctx.fail("compose_modified_its_argument", cls=type(a).__name__, mech="after_from_vector_inplace:vector")
    # a transform composed in place with itself (squaring it: "apply the same step again"): a o a, both ways
    sq_ref = a.apply(a.apply(x))
    for how in ("compose_before_inplace", "compose_after_inplace"):
        r2 = a.copy()
        try:
            getattr(r2, how)(r2)
        except ValueError:
            continue
        except Exception as e:
            ctx.fail("compose_raised", cls=type(a).__name__, mech=how + ":with_itself:" + type(e).__name__, error=repr(e)[:160])
            continue
        ctx.tap("inplace_composition_with_itself", "calls"); ctx.tap("inplace_composition_with_itself", "checked")
        if not (tx.maxdiff(r2.apply(x), sq_ref) <= 1e-8 * max(1.0, float(np.abs(sq_ref).max()))):
            ctx.fail("inplace_composition_differs_from_the_out_of_place_map", cls=type(a).__name__, mech=how + ":with_itself", err=tx.maxdiff(r2.apply(x), sq_ref))
    ctx.count_case(("vector_inplace", kind, d), nontrivial=True)


def w_units(ctx, rng, i):
    """Operands of extreme but legal magnitude: the composition law is a statement about maps, whatever their unit.
    Similarity-family members with a huge / tiny scale and a generic rotation; scale objects whose factors are tiny or
    nearly (not exactly) equal."""
    import menpo.transform as mt
    import menpo.shape as ms
    d = 2 + i % 2
    fam = (i // 2) % 4
    if fam == 3:
        # a projective map composed with the translation that makes the bottom-right entry of the product exactly zero (k * H
        # stands for the same map for every k != 0: a zero corner is a matrix like any other)
        h = np.eye(d + 1)
        h[:d, :d] = gen.well_conditioned(rng, d, 0.6, 1.6)
        p_ = np.zeros(d); p_[rng.integers(0, d)] = [1.0, 0.5, 2.0, -1.0][rng.integers(0, 4)]
        h[d, :d] = p_
        a = mt.Homogeneous(h)
        t_ = np.zeros(d); t_[np.nonzero(p_)[0][0]] = -1.0 / p_[np.nonzero(p_)[0][0]]
        b = mt.Translation(t_)
        x = np.array(probe_pts(d), copy=True)
        x = x[np.abs(x @ p_) > 0.5]                     # away from the points the product sends to infinity
        for how in ("compose_after", "compose_before_on_b", "inplace"):
            try:
                if how == "compose_after":
                    c = a.compose_after(b)
                elif how == "compose_before_on_b":
                    c = b.compose_before(a)
                else:
                    c = a.copy(); c.compose_after_inplace(b)
                got = c.apply(x)
            except Exception as e:
                ctx.fail("compose_raised", cls="Homogeneous", mech="units:zero_corner:%s:%s" % (how, type(e).__name__), error=repr(e)[:160])
                continue
            ref = a.apply(b.apply(x))
            ctx.tap("composition_law_any_unit", "calls"); ctx.tap("composition_law_any_unit", "checked")
            if not (tx.maxdiff(got, ref) <= 1e-8 * max(1.0, float(np.abs(ref).max()))):
                ctx.fail("composition_law_violated", cls="Homogeneous", mech="units:zero_corner:" + how, corner=float(np.asarray(c.h_matrix)[-1, -1]))
        ctx.count_case(("units", fam, d, "Homogeneous", "Translation"), nontrivial=True)
        return
    if fam == 0:
        mag = 10.0 ** (rng.uniform(4, 7.5) * rng.choice([-1.0, 1.0]))
        h = np.eye(d + 1)
        h[:d, :d] = gen.rotation_matrix(rng, d) * mag
        h[:d, d] = rng.uniform(-5, 5, d) * max(1.0, mag)
        if rng.random() < 0.5:
            a = mt.Similarity(h)
        else:
            src = gen.general_position(rng, int(rng.integers(d + 2, 9)), d)
            a = mt.AlignmentSimilarity(ms.PointCloud(src), ms.PointCloud(src @ h[:d, :d].T + h[:d, d]))
        kb = ["Translation", "Rotation", "UniformScale", "AlignmentTranslation", "AlignmentRotation", "AlignmentUniformScale", "Similarity", "NonUniformScale"][rng.integers(0, 8)]
        b, _ = tx.make(rng, kb, d)
    else:
        base = 10.0 ** rng.uniform(-9, -6) if fam == 1 else float(rng.uniform(0.5, 4.0))
        def factors():
            f = base * (1.0 + rng.choice([-1.0, 1.0], d) * 10.0 ** rng.uniform(-7, -5.2, d)) if fam == 2 else base * rng.uniform(1.0, 4.0, d)
            return f
        def scale_obj():
            k = int(rng.integers(0, 3))
            if k == 0:
                return mt.NonUniformScale(factors())
            if k == 1:
                return mt.UniformScale(float(factors()[0]), d)
            src = gen.general_position(rng, 6, d)
            return mt.AlignmentUniformScale(ms.PointCloud(src), ms.PointCloud(src * float(factors()[0])))
        a, b = scale_obj(), scale_obj()
        if isinstance(a, mt.UniformScale) and isinstance(b, mt.UniformScale):
            a = mt.NonUniformScale(factors())
    x = probe_pts(d)
    for direction in ("before", "after"):
        for first, second in ((a, b), (b, a)):
            recv, arg = first, second
            try:
                c = getattr(recv, "compose_" + direction)(arg)
            except Exception as e:
                ctx.fail("compose_raised", cls=type(recv).__name__, mech="units:%s:%s:%s" % (direction, type(arg).__name__, type(e).__name__), error=repr(e)[:160])
                continue
            f1, f2 = (recv, arg) if direction == "before" else (arg, recv)
            ref = f2.apply(f1.apply(x))
            got = c.apply(x)
            ctx.tap("composition_law_any_unit", "calls"); ctx.tap("composition_law_any_unit", "checked")
            mag_ = max(1e-300, float(np.abs(ref).max()))
            if not (tx.maxdiff(got, ref) <= 1e-9 * mag_):
                ctx.fail("composition_law_violated", cls=type(recv).__name__, mech="units:%s:%s" % (direction, type(arg).__name__), rel_err=tx.maxdiff(got, ref) / mag_,
                         result=type(c).__name__)
    ctx.count_case(("units", fam, d, type(a).__name__, type(b).__name__), nontrivial=True)


def w_projections(ctx, rng, i):
    """Compositions through a step that changes the dimensionality (a camera projection 3D -> 2D, an embedding 2D -> 3D held as a
    plain (n_out + 1) x (n_in + 1) Homogeneous): legal whenever the output space of the first is the input space of the second."""
    import menpo.transform as mt
    d = 2 + i % 2
    P, _ = tx.make(rng, "NonSquareHomogeneous", d)
    dout = P.h_matrix.shape[0] - 1
    partner_kinds = ["Affine", "Translation", "UniformScale", "Rotation", "Similarity", "NonUniformScale", "Homogeneous"]
    A, _ = tx.make(rng, partner_kinds[(i // 2) % len(partner_kinds)], dout)       # lives in P's output space
    B, _ = tx.make(rng, partner_kinds[(i // 3) % len(partner_kinds)], d)          # lives in P's input space
    x = probe_pts(d)
    hP, hA, hB = (np.array(v.h_matrix, dtype=float) for v in (P, A, B))

    def ref(h):
        y = np.hstack([x, np.ones((len(x), 1))]) @ h.T
        return y[:, :-1] / y[:, -1:]
    cases = [("P.compose_before(A)", lambda: P.compose_before(A), hA @ hP), ("A.compose_after(P)", lambda: A.compose_after(P), hA @ hP),
             ("P.compose_after(B)", lambda: P.compose_after(B), hP @ hB), ("B.compose_before(P)", lambda: B.compose_before(P), hP @ hB)]

    def inplace(recv, how, other):
        c = recv.copy()
        getattr(c, how)(other)
        return c
    cases += [("P.compose_before_inplace(A)", lambda: inplace(P, "compose_before_inplace", A), hA @ hP),
              ("P.compose_after_inplace(B)", lambda: inplace(P, "compose_after_inplace", B), hP @ hB)]
    for name, f, h in cases:
        exp = ref(h)
        if not np.isfinite(exp).all():
            continue
        ctx.tap("compositions_through_a_change_of_dimension", "calls")
        try:
            c = f()
        except ValueError:
            if "inplace" in name:
                ctx.bump("inplace_composition_with_a_foreign_class_refused")
                continue
            ctx.fail("compose_raised", cls="Homogeneous", mech="change_of_dimension:" + name.split("(")[0] + ":ValueError")
            continue
        except Exception as e:
            ctx.fail("compose_raised", cls="Homogeneous", mech="change_of_dimension:" + name.split("(")[0] + ":" + type(e).__name__, error=repr(e)[:160])
            continue
        ctx.tap("compositions_through_a_change_of_dimension", "checked")
        got = np.asarray(c.apply(x.copy()), dtype=float)
        if got.shape != exp.shape or not (tx.maxdiff(got, exp) <= 1e-8 * max(1.0, float(np.abs(exp).max()))):
            ctx.fail("composition_law_violated", cls=type(c).__name__, mech="change_of_dimension:" + name.split("(")[0], err=tx.maxdiff(got, exp) if got.shape == exp.shape else None)
    # a step that keeps only some of the coordinates after a dimension-specific one (a chain): the same points come out whether
    # they are pushed through at once or in batches of any size
    dims = [[0, 1], [0], [d - 1], [1, 0], list(range(d))[::-1]][rng.integers(0, 5)]
    try:
        ch = B.compose_before(mt.WithDims(dims if len(dims) > 1 or rng.random() < 0.5 else dims[0]))
        expw = np.asarray(B.apply(x.copy()), dtype=float)[:, dims]
        for bs in (None, 1, 3, len(x), len(x) + 2):
            ctx.tap("dimension_slicing_chain_in_batches", "calls"); ctx.tap("dimension_slicing_chain_in_batches", "checked")
            got = np.asarray(ch.apply(x.copy()) if bs is None else ch.apply(x.copy(), batch_size=bs), dtype=float)
            if got.shape != expw.shape or tx.maxdiff(got, expw) > 1e-9 * max(1.0, float(np.abs(expw).max())):
                ctx.fail("composition_law_violated", cls=type(ch).__name__, mech="dimension_slicing_link:batch_size_%s" % ("none" if bs is None else "given"),
                         got_shape=list(got.shape), expected_shape=list(expw.shape))
                break
    except Exception as e:
        ctx.fail("compose_raised", cls=type(B).__name__, mech="dimension_slicing_link:" + type(e).__name__, error=repr(e)[:160])
    # operands a hair away from the identity (the small steps of an iterative fit: factors 1 +- a few 1e-6): the law is exact
    # for them as for any others, at points of any size
    eps_ = rng.uniform(2e-6, 9e-6, dout) * rng.choice([-1.0, 1.0], dout)
    n1 = [mt.UniformScale(1.0 + float(eps_[0]), dout), mt.NonUniformScale(1.0 + eps_), mt.Affine(np.diag(np.r_[1.0 + eps_, 1.0]))][rng.integers(0, 3)]
    n2 = [mt.Translation(rng.uniform(-3, 3, dout)), mt.NonUniformScale(1.0 - eps_[::-1]), mt.UniformScale(1.0 + 3e-6, dout)][rng.integers(0, 3)]
    xs = probe_pts(dout) * 1e3
    for nm_, f_, h_ in (("before", lambda: n1.compose_before(n2), np.array(n2.h_matrix, dtype=float) @ np.array(n1.h_matrix, dtype=float)),
                        ("after", lambda: n1.compose_after(n2), np.array(n1.h_matrix, dtype=float) @ np.array(n2.h_matrix, dtype=float))):
        ctx.tap("near_identity_operands", "calls"); ctx.tap("near_identity_operands", "checked")
        c_ = f_()
        y_ = np.hstack([xs, np.ones((len(xs), 1))]) @ h_.T
        exp_ = y_[:, :-1] / y_[:, -1:]
        seq_ = np.asarray(n2.apply(n1.apply(xs.copy())) if nm_ == "before" else n1.apply(n2.apply(xs.copy())), dtype=float)
        sc_ = max(1.0, float(np.abs(exp_).max()))
        if tx.maxdiff(np.asarray(c_.apply(xs.copy()), dtype=float), exp_) > 1e-10 * sc_ or tx.maxdiff(seq_, exp_) > 1e-10 * sc_:
            ctx.fail("composition_law_violated", cls=type(n1).__name__, mech="near_identity_operands:" + nm_,
                     err=max(tx.maxdiff(np.asarray(c_.apply(xs.copy()), dtype=float), exp_), tx.maxdiff(seq_, exp_)) / sc_)
    for v, h in ((P, hP), (A, hA), (B, hB)):
        if tx.maxdiff(v.h_matrix, h) > 0:
            ctx.fail("compose_modified_an_operand", cls=type(v).__name__, mech="change_of_dimension")
    ctx.count_case(("projection", d, type(A).__name__, type(B).__name__), nontrivial=True)


WORKLOADS = [
    Workload("projections", w_projections, quick=300, thorough=6000),
    Workload("units", w_units, quick=800, thorough=24000),
    Workload("vector_flavour_inplace", w_vector_inplace, quick=2 * 15 * 8, thorough=2 * 15 * 200),
    Workload("pairs", w_pairs, quick=2 * (17 * 17 + 14 * 14) * 4, thorough=2 * 17 * 17 * 4 * 40),
    Workload("programs", w_programs, quick=1500, thorough=80000),
    Workload("hostile_representations", w_hostile_reps, quick=2 * 4 * 16, thorough=2 * 4 * 16 * 20),
    Workload("identities", w_identities, quick=2 * 7 * 17, thorough=2 * 7 * 17 * 10),
]
