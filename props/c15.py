"""C15  Labelled groups select exactly what labels say, in deterministic order.

Monitors: class invariant on LabelledPointUndirectedGraph (every point carries >= 1 label) evaluated by taps at the
end of every creating/editing method (icontract cannot wrap this class, see setup); taps on
with_labels / without_labels / get_label / add_label / remove_label against a set-based reference; all 33
index-based labellers judged on unique random coordinates (outputs are distinct input points, commute with
transforms, reject wrong sizes, leave the input alone).  Hash-seed determinism: the same workload runs in separate
interpreters under different PYTHONHASHSEED values; each writes a canonical event log and an offline checker
requires the logs to be identical.
"""
import hashlib
import re
from collections import OrderedDict

import numpy as np

from vf.tx import amax as _amax

from vf.core import Workload
from vf import taps, gen
from vf.digest import digest

ID = "C15"
TECHNIQUE = "runtime monitoring: class invariant at creation/edit sites + post-condition taps with a set-based reference; cross-process event-log comparison under different hash seeds"
LEVEL_TEXT = ("Every label selection / removal / addition on random labelled graphs (every subset of labels for <= 6 labels) and every one of the 33 index-based labellers (arrays, point clouds, "
              "labelled graphs; right and wrong sizes; commuting with random affine maps) is judged by an oracle computed from the inputs; the whole workload is replayed in interpreters with "
              "different hash seeds and the canonical event logs are compared offline; held-on-what-was-observed")
LEVEL_NOTE = "trusted: the set-based reference in props/c15.py; hash seeds compared: 4 (quick) / 16 (thorough) incl. the framework default 0"
DESIGN_REF = "DESIGN.md section 7, C15"
RULE = ("labelled graphs with 2-30 points, 1-8 overlapping labels covering all points, any edge set; every subset of labels (<= 6 labels) for with/without, every single label for get/remove, random "
        "add; 33 labellers x input kind (ndarray, PointCloud, labelled graph) x size (n, n-1, n+1) x random affine map; non-trivial = selection drops >=1 point or label / labeller re-indexes; "
        "distinct = (operation, n_labels, subset size, dropped-anything) resp. (labeller, input kind)")
ASSUMPTIONS = ["label order of with_labels is judged only when the caller's list is in original order; the label->mask binding is judged always",
               "the two bounding-box labellers construct new points and are outside the re-indexing clause"]
DECIDING_TAPS = ["with_labels", "labeller", "Labelled.invariant"]
REPLAY_PATHS = ['menpo/shape/test', 'menpo/landmark/test']      # suite replay (thorough tier): the repository's own tests under these monitors
SHARDS = {"quick": 8, "thorough": 16}

_CTX = [None]
LOG = []          # canonical event log of this process (compared across hash seeds)
KINDS = []


def log(kind, *parts):
    h = hashlib.sha1()
    h.update(kind.encode())
    for p in parts:
        if isinstance(p, np.ndarray):
            h.update(str(p.dtype).encode()); h.update(str(p.shape).encode()); h.update(np.ascontiguousarray(p).tobytes())
        else:
            h.update(repr(p).encode())
    LOG.append(h.hexdigest()[:12])
    KINDS.append(kind)


def edges_of(g):
    return sorted(tuple(sorted((int(a), int(b)))) for a, b in np.asarray(g.edges).reshape(-1, 2))


def state_of(g):
    return {"P": g.points.copy(), "A": np.asarray(g.adjacency_matrix.todense()).copy(),
            "L": OrderedDict((k, v.copy()) for k, v in g._labels_to_masks.items())}


def log_group(kind, g):
    if hasattr(g, "_labels_to_masks"):
        log(kind, list(g._labels_to_masks.keys()), g.points, [m.tolist() for m in g._labels_to_masks.values()], edges_of(g))
    else:
        log(kind, g.points, edges_of(g) if hasattr(g, "edges") else None)


def induced(A, keep):
    idx = np.nonzero(keep)[0]
    return A[np.ix_(idx, idx)]


class SelectMonitor(taps.Monitor):
    def __init__(self, name):
        self.name = name

    def pre(self, ctx, args, kw):
        g = args[0]
        if not taps.is_menpo(g) or "_labels_to_masks" not in g.__dict__:
            return None
        return {"s": state_of(g), "d": digest(g)}

    def post(self, ctx, st, args, kw, r, exc):
        g = args[0]
        s = st["s"]
        names = list(s["L"].keys())
        op = self.name
        if digest(g) != st["d"]:
            ctx.fail("label_operation_modified_the_group", cls="LabelledPointUndirectedGraph", mech=op)
        if exc is None and r is not None and hasattr(r, "_labels_to_masks"):
            check_invariant(ctx, r)
        arg = args[1] if len(args) > 1 else None
        if op in ("with_labels", "without_labels"):
            req = [arg] if isinstance(arg, str) else list(arg)
            unknown = [l for l in req if l not in names]
            if unknown and op == "with_labels":
                if not isinstance(exc, (ValueError, KeyError)):
                    ctx.fail("unknown_label_not_refused", cls="LabelledPointUndirectedGraph", mech=op)
                return
            req = [l for l in req if l in names]      # removing a label that is not there removes nothing
            keep_names = req if op == "with_labels" else [l for l in names if l not in req]
            if not keep_names:
                if exc is None:
                    ctx.fail("empty_label_selection_not_refused", cls="LabelledPointUndirectedGraph", mech=op)
                return
            if exc is not None:
                ctx.fail("valid_label_selection_raised", cls="LabelledPointUndirectedGraph", mech=op + ":" + type(exc).__name__, error=repr(exc)[:200])
                return
            keep = np.zeros(len(s["P"]), dtype=bool)
            for l in keep_names:
                keep |= s["L"][l]
            in_order = [l for l in names if l in keep_names] == list(dict.fromkeys(keep_names))
            self.judge_group(ctx, r, s, keep, list(dict.fromkeys(keep_names)), op, check_order=(op == "without_labels" or in_order),
                             requested_in_original_order=in_order)
            log_group(op, r)
        elif op == "get_label":
            if arg not in names:
                if not isinstance(exc, (KeyError, ValueError)):
                    ctx.fail("unknown_label_not_refused", cls="LabelledPointUndirectedGraph", mech=op)
                return
            if exc is not None:
                ctx.fail("valid_label_selection_raised", cls="LabelledPointUndirectedGraph", mech=op + ":" + type(exc).__name__)
                return
            keep = s["L"][arg]
            if not np.array_equal(r.points, s["P"][keep]):
                ctx.fail("selected_points_are_not_those_under_the_label", cls="LabelledPointUndirectedGraph", mech=op)
            elif not np.array_equal(np.asarray(r.adjacency_matrix.todense()), induced(s["A"], keep)):
                ctx.fail("selected_edges_are_not_the_induced_edges", cls="LabelledPointUndirectedGraph", mech=op)
            log_group(op, r)
        elif op == "remove_label":
            if arg not in names:
                return
            rest = [l for l in names if l != arg]
            cover = np.zeros(len(s["P"]), dtype=bool)
            for l in rest:
                cover |= s["L"][l]
            if not cover.all():
                if not isinstance(exc, ValueError):
                    ctx.fail("removing_a_label_that_uncovers_points_not_refused", cls="LabelledPointUndirectedGraph", mech="accepted" if exc is None else type(exc).__name__)
                return
            if exc is not None:
                ctx.fail("valid_label_removal_raised", cls="LabelledPointUndirectedGraph", mech=type(exc).__name__)
                return
            self.judge_group(ctx, r, s, np.ones(len(s["P"]), dtype=bool), rest, op, check_order=True)
            log_group(op, r)
        elif op == "add_label":
            if exc is not None:
                return
            label, idx = args[1], args[2]
            exp = OrderedDict(s["L"])
            m = np.zeros(len(s["P"]), dtype=bool)
            m[idx] = True
            exp[label] = m          # a new label goes last, an existing one is redefined in place
            s2 = dict(s)
            s2["L"] = exp
            self.judge_group(ctx, r, s2, np.ones(len(s["P"]), dtype=bool), list(exp.keys()), op, check_order=True)
            log_group(op, r)

    def judge_group(self, ctx, r, s, keep, keep_names, op, check_order, requested_in_original_order=True):
        cls = "LabelledPointUndirectedGraph"
        if type(r).__name__ != cls:
            ctx.fail("label_operation_returned_another_class", cls=cls, mech=op)
            return
        mech = op + ("" if requested_in_original_order else ":requested_out_of_order")
        if not np.array_equal(r.points, s["P"][keep]):
            ctx.fail("selected_points_are_not_those_under_the_labels", cls=cls, mech=mech, expected=int(keep.sum()), got=int(r.n_points))
            return
        if not np.array_equal(np.asarray(r.adjacency_matrix.todense()), induced(s["A"], keep)):
            ctx.fail("selected_edges_are_not_the_induced_edges", cls=cls, mech=mech)
        got = r._labels_to_masks
        if set(got.keys()) != set(keep_names):
            ctx.fail("remaining_labels_wrong", cls=cls, mech=mech, got=list(got.keys()), expected=keep_names)
            return
        for l in keep_names:
            if not np.array_equal(got[l], s["L"][l][keep]):
                ctx.fail("label_mask_is_not_the_restriction_of_the_original_mask", cls=cls, mech=mech, label=l)
                return
        if check_order and list(got.keys()) != keep_names:
            ctx.fail("labels_not_in_their_original_order", cls=cls, mech=mech, got=list(got.keys()), expected=keep_names)
        if list(r.labels) != list(got.keys()) or r.n_labels != len(got):
            ctx.fail("labels_property_inconsistent", cls=cls, mech=mech)


class InvariantBroken(Exception):
    pass


def labelled_invariant(self):
    ctx = _CTX[0]
    if ctx is None or taps.in_monitor():
        return True
    masks = self.__dict__.get("_labels_to_masks")
    pts = self.__dict__.get("points")
    if masks is None or pts is None:
        return True
    ctx.tap("Labelled.invariant", "calls")
    ctx.tap("Labelled.invariant", "checked")
    if len(masks) == 0:
        ctx.fail("labelled_group_without_labels", cls="LabelledPointUndirectedGraph")
        return True
    cover = np.zeros(len(pts), dtype=bool)
    for k, m in masks.items():
        if m.shape != (len(pts),) or m.dtype != bool:
            ctx.fail("label_mask_malformed", cls="LabelledPointUndirectedGraph")
            return True
        cover |= m
    if not cover.all():
        ctx.fail("a_point_carries_no_label", cls="LabelledPointUndirectedGraph", mech="%d_unlabelled" % min(3, int((~cover).sum())))
    return True


class InvariantMonitor(taps.Monitor):
    name = "Labelled.invariant_sites"

    def __init__(self, op):
        self.op = op

    def pre(self, ctx, args, kw):
        return {}

    def post(self, ctx, st, args, kw, r, exc):
        if exc is not None:
            return
        obj = r if self.op == "copy" else args[0]
        with taps.quiet():
            pass
        check_invariant(ctx, obj)


def check_invariant(ctx, self):
    masks = self.__dict__.get("_labels_to_masks")
    pts = self.__dict__.get("points")
    if masks is None or pts is None:
        return
    ctx.tap("Labelled.invariant", "calls")
    ctx.tap("Labelled.invariant", "checked")
    if len(masks) == 0:
        ctx.fail("labelled_group_without_labels", cls="LabelledPointUndirectedGraph")
        return
    cover = np.zeros(len(pts), dtype=bool)
    for k, m in masks.items():
        if m.shape != (len(pts),) or m.dtype != bool:
            ctx.fail("label_mask_malformed", cls="LabelledPointUndirectedGraph")
            return
        cover |= m
    if not cover.all():
        ctx.fail("a_point_carries_no_label", cls="LabelledPointUndirectedGraph", mech="%d_unlabelled" % min(3, int((~cover).sum())))


def setup(ctx):
    _CTX[0] = ctx
    LB = taps.mod("menpo.shape.labelled").LabelledPointUndirectedGraph
    for op in ("with_labels", "without_labels", "get_label", "add_label", "remove_label"):
        taps.tap(ctx, LB, op, SelectMonitor(op))
    # icontract.invariant cannot wrap this class: its class-level attribute scan trips over menpo's viewer descriptor
    # (menpo/visualize/base.py __get__ dereferences a None instance).  The invariant is therefore evaluated by taps at
    # the end of every method that creates or edits a labelled group.
    for op in ("__init__", "copy", "__setstate__"):
        taps.tap(ctx, LB, op, InvariantMonitor(op))


def finish(ctx):
    ctx.extra["log"] = list(LOG)
    ctx.extra["kinds"] = list(KINDS)
    ctx.extra["hashseed"] = ctx.param.get("hashseed")
    ctx.extra["slice"] = ctx.param.get("slice")
    ctx.tap("hash_seed_log", "calls", len(LOG))
    ctx.tap("hash_seed_log", "checked", len(LOG))


def plan(tier, seed, nshards, only):
    """Workers = hash seeds x slices; every hash seed runs every slice."""
    seeds = [0, 1, 2, 3] if tier == "quick" else [0, 1, 2, 3, 4, 5, 6, 7, 11, 42, 1234, 99991, 2 ** 31 - 1, 77, 500, 31337]
    nslices = 2 if tier == "quick" else 4
    if only:
        return [{"hashseed": 0, "slice": 0, "nslices": 1}], [{"PYTHONHASHSEED": "0"}], 1
    params, envs = [], []
    for hs in seeds:
        for sl in range(nslices):
            params.append({"hashseed": hs, "slice": sl, "nslices": nslices})
            envs.append({"PYTHONHASHSEED": str(hs)})
    return params, envs, len(params)


def merge(m, tier, seed):
    """Offline checker over the recorded logs: identical across hash seeds, slice by slice."""
    out = []
    by_slice = {}
    for ex in m["extra"]:
        if not ex or "log" not in ex:
            continue
        by_slice.setdefault(ex["slice"], []).append(ex)
    compared = 0
    for sl, group in sorted(by_slice.items()):
        base = group[0]
        for other in group[1:]:
            compared += 1
            if other["log"] != base["log"]:
                n = min(len(other["log"]), len(base["log"]))
                k = next((j for j in range(n) if other["log"][j] != base["log"][j]), n)
                kind = (base["kinds"] + ["<end>"])[k] if k < len(base["kinds"]) + 1 else "?"
                out.append({"clause": "results_differ_between_hash_seeds", "cls": "LabelledPointUndirectedGraph", "mech": kind,
                            "detail": {"slice": sl, "hashseed_a": base["hashseed"], "hashseed_b": other["hashseed"], "first_differing_event": k,
                                       "event_kind": kind, "events_a": len(base["log"]), "events_b": len(other["log"])}})
                break
    m["counters"]["hash_seed_log_pairs_compared"] = compared
    m["counters"]["hash_seeds"] = len(set(ex["hashseed"] for ex in m["extra"] if ex and "log" in ex))
    if compared == 0 and by_slice:
        out.append({"clause": "hash_seed_comparison_did_not_happen", "cls": "", "mech": "", "detail": {}})
    return out


# ------------------------------------------------------------------------------------- workloads
MUTATED_CALLER_MASKS = [0]
PENDING_FAILS = []


def make_group(rng, n=None, k=None):
    import menpo.shape as ms
    n = n or (2 if rng.random() < 0.08 else int(rng.integers(2, 31)))
    k = k or int(rng.integers(1, 9))
    pts = gen.points(rng, n, int(rng.integers(2, 4)))
    masks = gen.label_masks(rng, n, k)
    if rng.random() < 0.5:
        # label names that contain one another (left_eye / left_eyebrow ...), in arbitrary order
        nested = ["eye", "left_eye", "left_eyebrow", "brow", "eyebrow", "e", "left", "left_eye_2"]
        names = [nested[j] for j in rng.permutation(len(nested))[:len(masks)]]
        if rng.random() < 0.4:
            # a label is a name, not a pattern: names with wildcard / bracket / regex characters next to names they would match
            special = ["eye*", "eye_left", "pt?", "pt1", "[x]y", "xy", "*", "a.b", "a+b", "aab"]
            names = [special[j] for j in rng.permutation(len(special))[:len(masks)]]
        masks = OrderedDict(zip(names, masks.values()))
    E = gen.random_undirected_edges(rng, n)
    if rng.random() < 0.4:
        # a point joined to itself (face_lfpw_29 closes its one-point chin into such a loop): an edge like any other
        E = E + [(int(v), int(v)) for v in rng.choice(n, int(rng.integers(1, 3)), replace=False)]
    weighted = bool(E) and rng.random() < 0.35
    A = gen.adjacency(n, E, True, weights=list(rng.uniform(0.2, 9.0, len(E))) if weighted else None)
    how = int(rng.integers(0, 3)) if not weighted else 0      # (the other constructors take an edge list: no weights)
    intended = [(k_, v_.copy()) for k_, v_ in masks.items()]
    if how == 0:
        g = ms.LabelledPointUndirectedGraph(pts, A, masks)
    elif how == 1:
        # label -> indices, in any of the forms numpy accepts as an index: positions, positions counted from the end, a mask
        idx = OrderedDict()
        for l, m in masks.items():
            form = int(rng.integers(0, 4))
            pos = np.nonzero(m)[0]
            idx[l] = pos if form == 0 else (pos - n) if form == 1 else m.copy() if form == 2 else [int(v) for v in pos]
        g = ms.LabelledPointUndirectedGraph.init_from_indices_mapping(pts, np.asarray(A.todense()), idx)
    else:
        e = np.array([(i, j) for i, j in zip(*np.nonzero(np.triu(np.asarray(A.todense()))))], dtype=int).reshape(-1, 2)
        # the edge list in whatever integer type it was stored in (the narrowest that holds the vertex indices, say), or as a list
        et = [int, np.int32, np.uint8, np.int8, np.int16, np.uint16, "list"][rng.integers(0, 7)]
        if et == "list":
            e = [tuple(int(v) for v in r) for r in e] if len(e) else e
        else:
            e = e.astype(et)
        g = ms.LabelledPointUndirectedGraph.init_from_edges(pts, e, masks)
    # the group carries exactly the edges it was given ...
    if not np.array_equal(np.asarray(g.adjacency_matrix.todense()) != 0, np.asarray(A.todense()) != 0):
        PENDING_FAILS.append(("constructed_group_does_not_carry_the_edges_it_was_given", "LabelledPointUndirectedGraph:" + ["constructor", "indices_mapping", "init_from_edges"][how] + (":two_points" if n == 2 else "")))
    # the group carries exactly the labels it was given ...
    got = [(k_, np.array(v_, copy=True)) for k_, v_ in g._labels_to_masks.items()]
    if [k_ for k_, _ in got] != [k_ for k_, _ in intended] or any(not np.array_equal(a_, b_) for (_, a_), (_, b_) in zip(got, intended)):
        PENDING_FAILS.append(("constructed_group_does_not_carry_the_labels_it_was_given", "LabelledPointUndirectedGraph:" + ["constructor", "indices_mapping", "init_from_edges"][how]))
    elif how in (0, 2) and rng.random() < 0.5:
        # ... and owns them: the caller goes on using its own mask arrays and dictionary (clears / refills its buffers)
        for m_ in masks.values():
            m_[...] = ~m_ if rng.random() < 0.5 else False
        masks["added_by_the_caller_later"] = np.ones(n, dtype=bool)
        MUTATED_CALLER_MASKS[0] += 1
        got = [(k_, np.array(v_, copy=True)) for k_, v_ in g._labels_to_masks.items()]
        if [k_ for k_, _ in got] != [k_ for k_, _ in intended] or any(not np.array_equal(a_, b_) for (_, a_), (_, b_) in zip(got, intended)):
            PENDING_FAILS.append(("editing_the_mask_arrays_handed_to_the_constructor_changed_the_group", "LabelledPointUndirectedGraph:" + ["constructor", "", "init_from_edges"][how]))
            # put things back so that the rest of the case judges an intact group
            masks.pop("added_by_the_caller_later", None)
            for (k_, v_) in intended:
                masks[k_][...] = v_
    return g


def w_groups(ctx, rng, i):
    import itertools
    g = make_group(rng)
    while PENDING_FAILS:
        clause, c_ = PENDING_FAILS.pop()
        ctx.fail(clause, cls=c_.split(":")[0], mech=c_.split(":")[1] if ":" in c_ else "")
    names = g.labels
    k = len(names)
    dropped = False
    if k <= 6:
        subsets = [list(c) for r in range(0, k + 1) for c in itertools.combinations(names, r)]
    else:
        subsets = [[n for n in names if rng.random() < 0.5] for _ in range(20)]
    for sub in subsets:
        for op in ("with_labels", "without_labels"):
            if (op == "with_labels" and not sub) or (op == "without_labels" and len(sub) == k):
                continue      # an empty selection cannot be a labelled group: outside the quantifier
            # (the labels in whatever sequence the caller has them: a list, a tuple from itertools, an array of names)
            form = int(rng.integers(0, 4))
            r = getattr(g, op)(sub if form < 2 else tuple(sub) if form == 2 else np.array(sub, dtype=object))
            dropped |= r.n_points < g.n_points or r.n_labels < k
    # requested out of original order, duplicates, single string, unknown label
    if k >= 2:
        perm = [names[j] for j in rng.permutation(k)]
        g.with_labels(perm)
        g.with_labels(perm[:2][::-1])
        g.without_labels(perm[: k - 1])
    g.with_labels(names[0])
    for l in names:                     # the documented single-string forms
        if k >= 2:
            g.without_labels(l)
        g.with_labels(l)
    for bad in (["no such label"], "nope"):
        for op in ("with_labels", "without_labels"):
            try:
                getattr(g, op)(bad)
            except (ValueError, KeyError):
                pass
    for l in names:
        g.get_label(l)
        try:
            g.remove_label(l)
        except ValueError:
            pass
    if k >= 2:
        # redefining an existing label: the label now covers exactly the given points (if every point stays labelled)
        redo = names[int(rng.integers(0, k))]
        others = np.zeros(g.n_points, dtype=bool)
        for l in names:
            if l != redo:
                others |= g._labels_to_masks[l]
        new_idx = np.nonzero(~others | (rng.random(g.n_points) < 0.3))[0]
        if len(new_idx):
            g.add_label(redo, new_idx)
    idx = np.nonzero(rng.random(g.n_points) < 0.5)[0]
    if len(idx):
        # the members of the new label in any of the forms numpy accepts as an index: positions, a list, positions counted
        # from the end, a membership mask (another label's mask, say)
        form = int(rng.integers(0, 4))
        member = np.zeros(g.n_points, dtype=bool)
        member[idx] = True
        g2 = g.add_label("added", idx if form == 0 else idx.tolist() if form == 1 else (idx - g.n_points) if form == 2 else member)
        g2.with_labels(["added"])
        g2.without_labels("added")
        g2.remove_label("added")
    # chains of selections stay consistent
    cur = g
    for _ in range(3):
        if cur.n_labels < 2:
            break
        drop = cur.labels[int(rng.integers(0, cur.n_labels))]
        try:
            cur = cur.without_labels([drop])
        except ValueError:
            break
    # a group whose masks do not cover all points must be refused at construction
    import menpo.shape as ms
    masks = OrderedDict((l, m.copy()) for l, m in g._labels_to_masks.items())
    for m in masks.values():
        m[0] = False
    try:
        ms.LabelledPointUndirectedGraph(g.points, g.adjacency_matrix, masks)
        ctx.fail("group_with_an_unlabelled_point_accepted", cls="LabelledPointUndirectedGraph")
    except ValueError:
        pass
    # ... whatever is said about skipping the (costly) checks of the graph structure
    for how in ("constructor", "init_from_edges"):
        try:
            if how == "constructor":
                ms.LabelledPointUndirectedGraph(g.points, g.adjacency_matrix, OrderedDict((l, m.copy()) for l, m in masks.items()), skip_checks=True)
            else:
                e_ = np.array([(a_, b_) for a_, b_ in zip(*np.nonzero(np.triu(np.asarray(g.adjacency_matrix.todense()))))], dtype=int).reshape(-1, 2)
                ms.LabelledPointUndirectedGraph.init_from_edges(g.points, e_, OrderedDict((l, m.copy()) for l, m in masks.items()), skip_checks=True)
            ctx.fail("group_with_an_unlabelled_point_accepted", cls="LabelledPointUndirectedGraph", mech=how + ":skip_checks")
        except ValueError:
            pass
    # the same label names on another shape of the same size, with other members (one scheme, several annotators): every group
    # carries what *it* was given - through each constructor
    n2 = g.n_points
    for how in ("indices_mapping", "constructor"):
        for rep in range(2):
            masks2 = gen.label_masks(rng, n2, k)
            masks2 = OrderedDict(zip(names, masks2.values()))
            pts2 = gen.points(rng, n2, g.n_dims)
            A2 = gen.adjacency(n2, gen.random_undirected_edges(rng, n2), True)
            if how == "indices_mapping":
                g2_ = ms.LabelledPointUndirectedGraph.init_from_indices_mapping(pts2, np.asarray(A2.todense()), OrderedDict((l, np.nonzero(m)[0]) for l, m in masks2.items()))
            else:
                g2_ = ms.LabelledPointUndirectedGraph(pts2, A2, OrderedDict((l, m.copy()) for l, m in masks2.items()))
            ctx.tap("same_scheme_other_members", "calls"); ctx.tap("same_scheme_other_members", "checked")
            got2 = g2_._labels_to_masks
            if list(got2.keys()) != list(masks2.keys()) or any(not np.array_equal(got2[l], masks2[l]) for l in masks2):
                ctx.fail("constructed_group_does_not_carry_the_labels_it_was_given", cls="LabelledPointUndirectedGraph", mech=how + ":same_names_as_an_earlier_group")
            else:
                for l in names[:2]:
                    g2_.get_label(l)
    ctx.count_case(("group", k, g.n_points // 8, dropped), nontrivial=dropped, sample={"n_points": int(g.n_points), "labels": names} if i < 3 else None)


_LABELLERS = []


def labellers():
    if not _LABELLERS:
        import menpo.landmark.labels as L
        for name, f in sorted(vars(L).items()):
            if callable(f) and hasattr(f, "group_label"):
                m = re.search(r"_(\d+)(?:_mirrored)?_to_", name)
                if m:
                    _LABELLERS.append((name, f, int(m.group(1))))
    return _LABELLERS


def w_labellers(ctx, rng, i):
    import menpo.shape as ms
    from menpo.landmark import LabellingError
    import menpo.transform as mt
    Ls = labellers()
    if len(Ls) != 31 and i == 0:
        ctx.see("n_labellers_found", len(Ls))
    name, f, N = Ls[i % len(Ls)]
    OTHER_SIZES = sorted(set(n_ for _, _, n_ in Ls) - {N})        # a shape meant for another labeller is of the wrong size too
    kind = ["ndarray", "PointCloud", "Labelled", "TriMesh", "PointTree", "PointUndirectedGraph"][(i // len(Ls)) % 6]
    d = 3 if ("bu3dfe" in name or "human36M" in name or rng.random() < 0.2) else 2
    if rng.random() < 0.06:
        d = 4            # a labeller only re-indexes: the number of coordinates per point is none of its business
    pts = gen.points(rng, N, d, min_sep=0.001)

    def wrap(p):
        if kind == "ndarray":
            return p.copy()
        if kind == "PointCloud":
            return ms.PointCloud(p)
        # any shape carrying the right number of points is a legitimate input: meshes, trees, graphs
        if kind == "TriMesh":
            if p.shape[1] == 2 and len(p) >= 3:
                return ms.TriMesh(p.copy())                    # (triangulated by the constructor)
            tl = np.array([[a_, (a_ + 1) % len(p), (a_ + 2) % len(p)] for a_ in range(0, max(1, len(p) - 2), 2)], dtype=int) if len(p) >= 3 else np.zeros((0, 3), dtype=int)
            return ms.TriMesh(p.copy(), trilist=tl)
        if kind == "PointTree":
            if len(p) < 1:
                return ms.PointCloud(p)
            e, root = gen.random_tree_edges(rng, len(p))
            return ms.PointTree(p.copy(), gen.adjacency(len(p), e, False), root)
        if kind == "PointUndirectedGraph":
            return ms.PointUndirectedGraph(p.copy(), gen.adjacency(len(p), gen.random_undirected_edges(rng, len(p), 0.1), True))
        return ms.LabelledPointUndirectedGraph(p, gen.adjacency(len(p), gen.random_undirected_edges(rng, len(p), 0.1), True), gen.label_masks(rng, len(p), 3))
    x = wrap(pts)
    dg = digest(x)
    ctx.tap("labeller", "calls"); ctx.tap("labeller", "checked")
    try:
        out = f(x)
    except Exception as e:
        ctx.fail("labeller_raised_on_input_of_the_right_size", cls=name, mech="%s:%dD:%s" % (kind, d, type(e).__name__), error=repr(e)[:200])
        ctx.count_case(("labeller", name, kind, "raised"), nontrivial=False)
        return
    if out.n_dims != d or out.points.ndim != 2:
        ctx.fail("labeller_changed_the_dimensionality", cls=name, mech="%s:%dD" % (kind, d), got=list(out.points.shape))
        ctx.count_case(("labeller", name, kind, "garbled"), nontrivial=False)
        return
    if digest(x) != dg:
        ctx.fail("labeller_modified_its_input", cls=name, mech=kind)
    # output points are distinct input points
    op = np.asarray(out.points)
    idx = []
    for q in op:
        hit = np.nonzero((pts == q).all(axis=1))[0]
        idx.append(int(hit[0]) if len(hit) == 1 else -1)
    if -1 in idx:
        ctx.fail("labeller_output_contains_a_point_that_is_not_an_input_point", cls=name, mech=kind)
    elif len(set(idx)) != len(idx):
        ctx.fail("labeller_output_repeats_an_input_point", cls=name, mech=kind)
    if hasattr(out, "trilist"):
        # the mesh-flavoured labellers hand out a mesh of the points they return: every triangle indexes those points, every
        # point is used, and the mesh answers its queries
        tl_ = np.asarray(out.trilist)
        ctx.tap("trimesh_labellers_give_valid_meshes", "calls"); ctx.tap("trimesh_labellers_give_valid_meshes", "checked")
        if tl_.size and (int(tl_.max()) >= out.n_points or int(tl_.min()) < 0):
            ctx.fail("labeller_output_mesh_indexes_points_it_does_not_have", cls=name, mech=kind, n_points=int(out.n_points), max_index=int(tl_.max()))
        else:
            try:
                out.tri_areas() if d == 2 else None
            except Exception as e_:
                ctx.fail("labeller_output_mesh_indexes_points_it_does_not_have", cls=name, mech=kind + ":" + type(e_).__name__)
    if hasattr(out, "_labels_to_masks"):
        cover = np.zeros(out.n_points, dtype=bool)
        for m_ in out._labels_to_masks.values():
            cover |= m_
        if not cover.all():
            ctx.fail("labeller_left_a_point_unlabelled", cls=name, mech=kind)
    log_group("labeller:" + name, out)
    # commutes with any transform of the input
    L_, t_ = gen.well_conditioned(rng, d), rng.uniform(-5, 5, d)

    class T(object):           # (an affine map of any dimensionality, applied to bare coordinates)
        @staticmethod
        def apply(p):
            return np.asarray(p, dtype=float) @ L_.T + t_
    out_t = f(wrap(T.apply(pts)))
    if out_t.points.shape != op.shape or _amax(out_t.points - T.apply(op)) > 1e-9 * max(1.0, np.abs(op).max()):
        ctx.fail("labeller_does_not_commute_with_a_transform", cls=name, mech=kind)
    if hasattr(out, "_labels_to_masks"):
        same = list(out_t._labels_to_masks.keys()) == list(out._labels_to_masks.keys()) and all(
            np.array_equal(a, b) for a, b in zip(out_t._labels_to_masks.values(), out._labels_to_masks.values()))
        if not same or edges_of(out_t) != edges_of(out):
            ctx.fail("labelling_depends_on_the_coordinates", cls=name, mech=kind)
    # missing landmarks (NaN coordinates, as null points of an annotation file come in) / points at infinity: a labeller only
    # re-indexes - the same points in the same places, and the input left alone
    if kind in ("ndarray", "PointCloud", "Labelled") and -1 not in idx and rng.random() < 0.5:
        pn = pts.copy()
        for r_ in rng.choice(N, int(rng.integers(1, 4)), replace=False):
            pn[r_, rng.integers(0, d) if rng.random() < 0.5 else slice(None)] = [np.nan, np.nan, np.inf, -np.inf][rng.integers(0, 4)]
        xn = wrap(pn)
        dgn = digest(xn)
        ctx.tap("labeller_with_missing_landmarks", "calls"); ctx.tap("labeller_with_missing_landmarks", "checked")
        try:
            on = f(xn)
            if digest(xn) != dgn:
                ctx.fail("labeller_modified_its_input", cls=name, mech=kind + ":missing_landmarks")
            if np.asarray(on.points).shape != op.shape or not np.array_equal(np.asarray(on.points, dtype=float), pn[idx], equal_nan=True):
                ctx.fail("labeller_output_contains_a_point_that_is_not_an_input_point", cls=name, mech=kind + ":missing_landmarks")
        except Exception as e_:
            ctx.fail("labeller_raised_on_input_of_the_right_size", cls=name, mech="%s:%dD:missing_landmarks:%s" % (kind, d, type(e_).__name__), error=repr(e_)[:200])
    # mapping variant agrees
    o2, mapping = f(wrap(pts), return_mapping=True)
    if not np.array_equal(o2.points, op):
        ctx.fail("return_mapping_changes_the_result", cls=name, mech=kind)
    # wrong sizes are rejected
    for M in (N - 1, N + 1, N + 7, 0, 1, 2 * N) + tuple(OTHER_SIZES):
        if M == N or M < 0 or (M == 0 and kind == "Labelled"):
            continue
        try:
            wrong = wrap(gen.points(rng, M, d, min_sep=0.001)) if M else wrap(np.zeros((0, d)))
        except Exception:
            continue          # (no such shape of that class: nothing to hand over)
        try:
            f(wrong)
            ctx.fail("labeller_accepted_input_of_the_wrong_size", cls=name, mech="%s:%s" % (kind, "smaller" if M < N else "larger"), given=M, expected=N)
        except LabellingError:
            pass
        except Exception as e:
            ctx.fail("labeller_rejected_wrong_size_with_the_wrong_error", cls=name, mech="%s:%s:%s" % (kind, "smaller" if M < N else "larger", type(e).__name__))
    # ... also when the wrong-sized input is itself the output of another labeller (chained by mistake): labelled, with that
    # scheme's label names
    others = [(n2, f2, N2) for n2, f2, N2 in Ls if f2 is not f]
    for j_ in rng.permutation(len(others))[:3]:
        n2, f2, N2 = others[j_]
        try:
            mid = f2(gen.points(rng, N2, d, min_sep=0.001))
        except Exception:
            continue
        if mid.n_points == N:
            continue
        ctx.tap("chained_labellers", "calls"); ctx.tap("chained_labellers", "checked")
        try:
            f(mid)
            ctx.fail("labeller_accepted_input_of_the_wrong_size", cls=name, mech="output_of_another_labeller:" + ("smaller" if mid.n_points < N else "larger"), given=int(mid.n_points), expected=N, other=n2)
        except LabellingError:
            pass
        except Exception as e:
            ctx.fail("labeller_rejected_wrong_size_with_the_wrong_error", cls=name, mech="output_of_another_labeller:" + type(e).__name__)
    ctx.see("labellers", name)
    ctx.count_case(("labeller", name, kind), nontrivial=True, sample={"labeller": name, "input": kind, "n_in": N, "n_out": int(out.n_points)} if i < 3 else None)


WORKLOADS = [Workload("groups", w_groups, quick=500, thorough=15000), Workload("labellers", w_labellers, quick=31 * 6 * 2, thorough=31 * 6 * 25)]
