"""C10  PCA models satisfy the defining identities, also after trimming.

Monitors: an icontract class invariant on PCAVectorModel (hence PCAModel) evaluated around every public method and
property access (shape/count consistency, positive descending eigenvalues, orthonormal components, conservation of
the original variance against a shadow value recorded at construction / increment), taps on project / instance /
reconstruct / project_out (round trip, idempotence, orthogonality of the residual).  Oracle for the fitted model:
an independent numpy.linalg.svd of the (centred) data.
"""
import numpy as np

from vf.tx import amax as _amax

from vf.core import Workload
from vf import taps, gen

ID = "C10"
TECHNIQUE = "runtime monitoring: icontract class invariant with a shadow variance ledger + taps on the projection API + independent SVD reference"
LEVEL_TEXT = ("Every PCA model built (n above, at and below d; centred/uncentred; array-, point-cloud-, image- and masked-image-backed) is compared with numpy's SVD and then driven "
              "through histories of active-component changes (integer and variance-fraction form) and trims while a class invariant and a variance ledger are evaluated around every "
              "public call; trimmed models are compared with models built at that size; held-on-what-was-observed")
LEVEL_NOTE = "trusted: numpy.linalg.svd as reference; spectra are separated by >=5% so components are comparable one by one; tolerance 1e-8 relative"
DESIGN_REF = "DESIGN.md section 7, C10"
RULE = ("data matrices n x d with n,d in 2..40 on both sides of n = d (incl. n = d, d+-1), geometric spectra separated by >=5%, centred and uncentred, vector- and object-backed; histories of "
        "1-10 n_active_components changes (int / float) and trims; non-trivial = model has >=2 components and the history changes the active count at least once; "
        "distinct = (backing, n vs d relation, centred, history event kinds)")
ASSUMPTIONS = ["singular values of the generated data span at most four orders of magnitude (conditioning, not correctness, limits orthonormality beyond that)",
               "eigenvalues follow menpo's documented convention: second moments about the model mean divided by n-1 (also for uncentred models)",
               "variance fractions are drawn away (>=1e-6) from the cumulative ratios, so the expected component count is unambiguous"]
DECIDING_TAPS = ["PCA.invariant", "svd_reference"]
REPLAY_PATHS = ['menpo/model/test', 'menpo/math/test']      # suite replay (thorough tier): the repository's own tests under these monitors
SHARDS = {"quick": 8, "thorough": 16}

_CTX = [None]
LEDGER = {}      # id(model) -> (model, original variance recorded)


class InvariantBroken(Exception):
    pass


def pca_invariant(self):
    ctx = _CTX[0]
    if ctx is None or taps.in_monitor():
        return True
    d = self.__dict__
    if "_eigenvalues" not in d or "_components" not in d or "_n_active_components" not in d or "_trimmed_eigenvalues" not in d:
        return True          # not constructed yet
    ctx.tap("PCA.invariant", "calls")
    with taps.quiet():
        cls = type(self).__name__
        ev, comp, nac = d["_eigenvalues"], d["_components"], d["_n_active_components"]
        if comp.shape[0] != len(ev):
            ctx.fail("component_and_eigenvalue_counts_differ", cls=cls, mech="%d_vs_%d" % (min(comp.shape[0], 9), min(len(ev), 9)))
            return True
        if not (1 <= nac <= len(ev)):
            ctx.fail("active_count_out_of_range", cls=cls)
            return True
        if self.components.shape[0] != nac or len(self.eigenvalues) != nac or self.n_active_components != nac or self.n_components != len(ev):
            ctx.fail("public_counts_inconsistent", cls=cls)
        if not (ev > 0).all():
            ctx.fail("eigenvalue_not_positive", cls=cls)
        if (np.diff(ev) > 1e-10 * ev[0]).any():
            ctx.fail("eigenvalues_not_descending", cls=cls)
        if d.get("_trimmed_eigenvalues") is not None and len(d["_trimmed_eigenvalues"]) and len(ev):
            if d["_trimmed_eigenvalues"].max() > ev[-1] * (1 + 1e-9) + 1e-300:
                ctx.fail("a_discarded_eigenvalue_exceeds_a_kept_one", cls=cls)
        g = comp @ comp.T
        e = np.abs(g - np.eye(len(ev))).max()
        ctx.err("orthonormality", e)
        if not (e <= 1e-7):
            ctx.fail("components_not_orthonormal", cls=cls, err=float(e))
        ov = float(self.original_variance())
        rec = LEDGER.get(id(self))
        if rec is None or rec[0] is not self:
            LEDGER[id(self)] = (self, ov)
        elif abs(ov - rec[1]) > 1e-9 * max(1e-300, abs(rec[1])):
            ctx.fail("original_variance_changed", cls=cls, mech="shrank" if ov < rec[1] else "grew", recorded=rec[1], now=ov)
            LEDGER[id(self)] = (self, ov)
        n_disc = (len(ev) - nac) + len(d["_trimmed_eigenvalues"])
        kept_plus = float(self.variance()) + (float(self.noise_variance()) * n_disc if n_disc else 0.0)
        if abs(kept_plus - ov) > 1e-8 * max(1e-300, abs(ov)):
            ctx.fail("kept_plus_discarded_variance_differs_from_original", cls=cls, kept_plus_discarded=kept_plus, original=ov)
        if not (0 < self.variance_ratio() <= 1 + 1e-12):
            ctx.fail("variance_ratio_out_of_range", cls=cls)
        ctx.tap("PCA.invariant", "checked")
    return True


class InvariantAfter(taps.Monitor):
    """Class invariant evaluated after a method of PCAModel returns (tap form of the icontract invariant)."""

    def __init__(self, method):
        self.name = "PCAModel.invariant_after"
        self.method = method

    def pre(self, ctx, args, kw):
        return {}

    def post(self, ctx, st, args, kw, r, exc):
        if exc is None and args and taps.is_menpo(args[0]):
            taps._DEPTH[0] -= 1           # the invariant function itself decides about re-entrancy
            try:
                pca_invariant(args[0])
            finally:
                taps._DEPTH[0] += 1


class IncrementLedger(taps.Monitor):
    """increment legitimately changes the total variance: re-record afterwards."""
    name = "increment_ledger"

    def pre(self, ctx, args, kw):
        return {}

    def post(self, ctx, st, args, kw, r, exc):
        m = args[0]
        LEDGER[id(m)] = (m, float(m.original_variance()))


class ProjectionMonitor(taps.Monitor):
    def __init__(self, name):
        self.name = name

    def pre(self, ctx, args, kw):
        m = args[0]
        x = args[1] if len(args) > 1 else None
        if not taps.is_menpo(m) or not isinstance(x, np.ndarray) or x.ndim != 1 or not np.isfinite(x).all():
            return None
        if kw and not (self.name == "instance" and set(kw) == {"normalized_weights"}):
            return None
        if len(args) > 2 or "_n_active_components" not in m.__dict__:
            return None
        return {"x": x.copy(), "flags": x.flags.writeable}

    def post(self, ctx, st, args, kw, r, exc):
        from menpo.model import PCAVectorModel
        m = args[0]
        cls = type(m).__name__
        if exc is not None or not isinstance(m, PCAVectorModel):
            return
        if not np.array_equal(args[1], st["x"]):
            ctx.fail("model_operation_modified_the_array_the_caller_passed", cls=cls, mech=self.name + (":normalized" if kw.get("normalized_weights") else ""))
        x = st["x"]
        if kw.get("normalized_weights"):
            x = x * np.sqrt(np.asarray(m.eigenvalues)[: len(x)])
        scale = 100.0 * max(1.0, float(np.linalg.norm(x)))     # x 1e-8 below: 1e-6 relative to |x| (orthonormality itself is held to 1e-7)
        C = m.components
        if self.name == "instance":
            if len(x) == m.n_active_components:
                w = PCAVectorModel.project(m, np.asarray(r))
                if np.asarray(w).shape != x.shape:
                    # (a weight *vector*, one entry per active component - also when there is exactly one)
                    ctx.fail("projecting_an_instance_does_not_return_its_weights", cls=cls, mech="shape_%s_instead_of_%s" % (np.asarray(w).shape, x.shape))
                    return
                try:
                    PCAVectorModel.instance(m, w)
                except Exception as ex:
                    ctx.fail("projecting_an_instance_does_not_return_its_weights", cls=cls, mech="projected_weights_rejected_by_instance:" + type(ex).__name__)
                    return
                e = float(np.abs(w - x).max())
                ctx.err("project_of_instance", e)
                if not (e <= 1e-8 * scale):
                    ctx.fail("projecting_an_instance_does_not_return_its_weights", cls=cls, err=e)
        elif self.name == "reconstruct":
            again = PCAVectorModel.reconstruct(m, np.asarray(r))
            e = float(np.abs(again - r).max())
            if not (e <= 1e-8 * scale):
                ctx.fail("reconstruction_is_not_idempotent", cls=cls, err=e)
            resid = x - np.asarray(r)
            e2 = float(np.abs(C @ resid).max())
            if not (e2 <= 1e-8 * scale):
                ctx.fail("reconstruction_is_not_an_orthogonal_projection", cls=cls, err=e2)
        elif self.name == "project_out":
            resid = np.asarray(r).ravel()
            e = float(np.abs(C @ resid).max())
            ctx.err("residual_orthogonality", e)
            if not (e <= 1e-8 * scale):
                ctx.fail("projected_out_residual_is_not_orthogonal_to_the_model", cls=cls, err=e)
            rec = PCAVectorModel.reconstruct(m, x)
            if _amax((x - rec) - resid) > 1e-8 * scale:
                ctx.fail("project_out_is_not_the_complement_of_reconstruct", cls=cls)


def replay_case_begin():
    LEDGER.clear()


def setup(ctx):
    import icontract
    _CTX[0] = ctx
    P = taps.mod("menpo.model.pca")
    L = taps.mod("menpo.model.linear")
    for name in ("instance", "reconstruct", "project_out"):
        owner = P.PCAVectorModel if name in P.PCAVectorModel.__dict__ else L.LinearVectorModel
        taps.tap(ctx, owner, name, ProjectionMonitor(name))
    taps.tap(ctx, P.PCAVectorModel, "increment", IncrementLedger())
    icontract.invariant(pca_invariant, error=InvariantBroken)(P.PCAVectorModel)
    # PCAModel: icontract would replace its documentation-inheriting method descriptors by plain functions (changing the code
    # under observation), so the same invariant is attached by taps on its own plain methods instead; the methods it
    # inherits from PCAVectorModel carry the contract already
    import types
    for name, raw in list(P.PCAModel.__dict__.items()):
        if isinstance(raw, types.FunctionType) and (name == "__init__" or not name.startswith("_")):
            taps.tap(ctx, P.PCAModel, name, InvariantAfter(name))


# ------------------------------------------------------------------------------------- data
def spectrum_data(rng, n, d, centre):
    """n x d data with a geometric, >=5% separated spectrum."""
    r = min(n - (1 if centre else 0), d)
    r = max(r, 1)
    # geometric spectrum whose smallest/largest singular value is R (log-uniform in [1e-4, 0.3]; eigenvalue ratio >= 1e-8,
    # well above menpo's documented 1e-10 cut), adjacent values separated by >= 7 %
    R = 10.0 ** rng.uniform(-4.0, -0.5)
    q = R ** (1.0 / max(1, r - 1))
    if q > 0.93:
        q = 0.93
    q = max(q, 1e-4 ** (1.0 / max(1, r - 1)))
    s = 10.0 * q ** np.arange(r) * np.concatenate([[1.0], rng.uniform(0.985, 1.015, r - 1)])
    u, _ = np.linalg.qr(rng.normal(size=(n, n)))
    v, _ = np.linalg.qr(rng.normal(size=(d, d)))
    if centre:
        # left singular vectors orthogonal to the all-ones vector so the centred data keeps the prescribed spectrum
        ones = np.ones((n, 1)) / np.sqrt(n)
        q, _ = np.linalg.qr(np.hstack([ones, rng.normal(size=(n, n - 1))]))
        u = q[:, 1:]
    X = (u[:, :r] * s) @ v[:, :r].T
    return X + (rng.normal(size=d) * 3 if centre else 0)      # an offset would swamp the prescribed spectrum of an uncentred model


CUT = [0.0]


def reference(X, centre):
    n = X.shape[0]
    m = X.mean(0) if centre else np.zeros(X.shape[1])
    u, s, vt = np.linalg.svd(X - m, full_matrices=False)
    lam = s ** 2 / (n - 1)
    keep = lam > lam.max() * 1e-10
    CUT[0] = float(np.sqrt(max(0.0, (n - 1) * lam[~keep].sum())))     # what the documented relative cut-off discards (data units)
    return m, lam[keep], vt[keep]


def make_backed(rng, kind, n, d_hint):
    """(samples, matrix) for an object-backed model."""
    import menpo.shape as ms
    import menpo.image as mi
    if kind == "pointcloud":
        k = max(2, d_hint // 2)
        X = None
        base = spectrum_data(rng, n, 2 * k, True)
        r_ = rng.random()
        if r_ < 0.3:
            # landmark coordinates stored as integer pixel positions: the model is the model of those numbers
            base = np.round(base * 40.0)
            return [ms.PointCloud(row.reshape(k, 2).astype(np.int64)) for row in base], base
        if r_ < 0.45:
            # only the first annotation (the template on the pixel grid) is integer-typed, the others are floating point
            base = base * 40.0
            base[0] = np.round(base[0])
            return [ms.PointCloud(base[0].reshape(k, 2).astype(np.int64))] + [ms.PointCloud(row.reshape(k, 2)) for row in base[1:]], base
        samples = [ms.PointCloud(row.reshape(k, 2)) for row in base]
        return samples, base
    if kind == "image":
        shp = (max(2, int(np.sqrt(d_hint))), max(2, int(np.sqrt(d_hint))))
        base = spectrum_data(rng, n, shp[0] * shp[1], True)
        return [mi.Image(row.reshape((1,) + shp)) for row in base], base
    shp = (max(2, int(np.sqrt(d_hint)) + 1), max(2, int(np.sqrt(d_hint)) + 1))
    msk = gen.mask(rng, shp, "random")
    k = int(msk.sum())
    if k < 2:
        msk[:] = True
        k = int(msk.sum())
    base = spectrum_data(rng, n, k, True)
    out = []
    for row in base:
        px = np.zeros((1,) + shp)
        px[0][msk] = row
        out.append(mi.MaskedImage(px, mask=msk))
    return out, base


def object_api(ctx, model, w, x, scale):
    """The object-level operations of an object-backed model are the vector-level ones of that same model."""
    from menpo.model import PCAVectorModel
    cls = type(model).__name__
    ctx.tap("object_api_vs_vector_api", "calls")
    with taps.quiet():
        pairs = [("instance", model.instance_vector(w), PCAVectorModel.instance(model, w)),
                 ("reconstruct", model.reconstruct_vector(x), PCAVectorModel.reconstruct(model, x)),
                 ("project", model.project_vector(x), PCAVectorModel.project(model, x)),
                 ("project_out", model.project_out_vector(x), PCAVectorModel.project_out(model, x))]
        inst = model.instance(w)
        pairs.append(("instance_object", inst.as_vector(), PCAVectorModel.instance(model, w)))
        pairs.append(("project_object", model.project(inst), PCAVectorModel.project(model, inst.as_vector())))
        pairs.append(("reconstruct_object", model.reconstruct(inst).as_vector(), PCAVectorModel.reconstruct(model, inst.as_vector())))
    for name, a, b in pairs:
        a, b = np.asarray(a, dtype=float).ravel(), np.asarray(b, dtype=float).ravel()
        if a.shape != b.shape or _amax(a - b) > 1e-9 * 100.0 * max(1.0, scale):
            ctx.fail("object_level_operation_differs_from_the_vector_level_one_on_the_same_model", cls=cls, mech=name,
                     shapes="%s_vs_%s" % (a.shape, b.shape))
    ctx.tap("object_api_vs_vector_api", "checked")


def w_model(ctx, rng, i):
    from menpo.model import PCAVectorModel, PCAModel
    LEDGER.clear()
    backing = ["vector", "vector", "pointcloud", "image", "maskedimage"][i % 5]
    rel = ["n>d", "n=d", "n=d+1", "n=d-1", "n<d"][(i // 5) % 5]
    centre = bool((i // 25) % 2) if backing == "vector" else True
    d = int(rng.integers(3, 41 if ctx.tier == "thorough" else 20))
    n = {"n>d": d + int(rng.integers(2, 12)), "n=d": d, "n=d+1": d + 1, "n=d-1": max(2, d - 1), "n<d": max(2, d - int(rng.integers(2, d)))}[rel]
    wide = False
    if backing == "vector" and rng.random() < 0.04:
        # many features, few samples - and a round number of them (a 40 x 50 image, 1000 landmarks' coordinates)
        d = [1000, 1000, 2000][rng.integers(0, 3)]
        n = int(rng.integers(4, 13))
        rel = "n<d"
        wide = True
    far = None
    if backing == "vector":
        X = spectrum_data(rng, n, d, centre)
        if rng.random() < 0.4:
            # the data in any unit: nanometres to kilometres (the documented cut-off of the decomposition is relative)
            X = X * 10.0 ** rng.uniform(-10, 5)
        elif centre and rng.random() < 0.3:
            # data far from the origin (map coordinates, time stamps): the model of the centred data all the same
            far = 10.0 ** rng.uniform(3, 6)
            X = X + rng.choice([-1.0, 1.0], d) * far * 10.0
        Xin = X.copy() if rng.random() < 0.5 else [row.copy() for row in X]
        # (the documented n_samples argument with a sequence of samples: "this many of them")
        nkw = {"n_samples": n} if isinstance(Xin, list) and rng.random() < 0.4 else {}
        # (the flag in any spelling a caller's own computation yields: a Python bool, a numpy bool, 0 / 1)
        model = PCAVectorModel(Xin, centre=[centre, centre, np.bool_(centre), int(centre)][rng.integers(0, 4)], inplace=bool(rng.random() < 0.5), **nkw)
    else:
        samples, X = make_backed(rng, backing, n, d)
        if samples[0].as_vector().dtype.kind in "iu":
            backing = "int_" + backing
        # (integer-typed samples cannot be centred in place - the constructor refuses loudly -: the documented inplace=False is the way)
        model = PCAModel(samples, centre=[True, True, np.True_, 1][rng.integers(0, 4)], **({"inplace": False} if backing.startswith("int_") else {}))
        d = X.shape[1]
    cls = type(model).__name__
    m, lam, V = reference(X, centre)
    ctx.tap("svd_reference", "calls"); ctx.tap("svd_reference", "checked")
    # ---- fitted model vs independent SVD
    scale = max(1e-300, float(np.abs(X).max()))     # tolerances relative to the size of the data
    if model.n_samples != n:
        ctx.fail("n_samples_wrong", cls=cls)
    if _amax(model._mean - m) > 1e-9 * scale:
        ctx.fail("model_mean_is_not_the_sample_mean", cls=cls, mech="centred" if centre else "uncentred")
    if model.n_components != len(lam):
        ctx.fail("number_of_components_differs_from_rank", cls=cls, mech=rel, got=int(model.n_components), expected=int(len(lam)))
    else:
        e = float(np.abs(model.eigenvalues - lam).max() / lam[0])
        ctx.err("eigenvalues_vs_svd", e)
        if not (e <= 1e-8):
            ctx.fail("eigenvalues_are_not_the_sample_variances_along_the_components", cls=cls, mech=rel + (":centred" if centre else ":uncentred"), err=e)
        dots = np.abs(np.sum(model.components * V, axis=1))
        # adjacent eigenvalues differ by >= 10%: components match one by one (weak components get a looser bound)
        if (dots < 1 - 1e-6).any() and not backing.startswith("int_"):       # (rounded data: the weak directions are rounding noise of nearly equal variance)
            ctx.fail("components_do_not_span_the_principal_directions", cls=cls, mech=rel, worst=float(dots.min()))
        # eigenvalue k = second moment of the data along component k
        proj = (X - m) @ model.components.T
        var = (proj ** 2).sum(0) / (n - 1)
        if _amax(var - model.eigenvalues) > 1e-8 * lam[0]:
            ctx.fail("eigenvalue_is_not_the_variance_along_its_component", cls=cls, mech=rel)
        # every training sample is reconstructed exactly with all components
        for row in X[: min(n, 5)]:
            rec = PCAVectorModel.reconstruct(model, row)
            if _amax(rec - row) > 1e-8 * scale + 2 * CUT[0]:
                ctx.fail("training_sample_not_reconstructed_exactly", cls=cls, mech=rel, err=float(np.abs(rec - row).max()))
                break
    if backing != "vector":
        # the object-level mean is the sample mean, and every training sample comes back from a full reconstruction
        mo = model.mean()
        if _amax(np.asarray(mo.as_vector(), dtype=float) - m) > 1e-9 * scale:
            ctx.fail("model_mean_is_not_the_sample_mean", cls=cls, mech="object_level:" + backing)
        for smp, row in list(zip(samples, X))[:3]:
            rec = np.asarray(model.reconstruct(smp).as_vector(), dtype=float)
            if model.n_components == len(lam) and _amax(rec - row) > 1e-8 * scale + 2 * CUT[0]:
                ctx.fail("training_sample_not_reconstructed_exactly", cls=cls, mech="object_level:" + backing, err=_amax(rec - row))
                break
    # ---- identities through the public API (taps judge them)
    for _ in range(3):
        w = rng.normal(size=model.n_active_components)
        x = rng.normal(size=d) * scale
        if backing == "vector":
            model.instance(w); model.reconstruct(x); model.project_out(x); model.project(x)
        else:
            inst = model.instance(w)
            model.project(inst); model.reconstruct(inst); model.project_out(inst)
            model.instance_vector(w); model.reconstruct_vector(x); model.project_out_vector(x)
    # weights in the other documented spellings (a list, a tuple, only the leading few): the same instance
    wa = rng.normal(size=model.n_active_components)
    # ... and weights that switch single modes on (exact zeros in front of / between the non-zero ones)
    for _ in range(2):
        wz = rng.normal(size=model.n_active_components) * (rng.random(model.n_active_components) < 0.4)
        if len(wz) > 1:
            wz[0] = 0.0
            wz[-1] = wz[-1] or 1.5
        if backing == "vector":
            model.instance(wz.copy()); model.instance(np.round(wz * 2).astype(int))
        else:
            model.instance_vector(wz.copy()); model.instance(wz.copy())
        PCAVectorModel.instance_vectors(model, np.vstack([wz, rng.normal(size=len(wz))]) * np.r_[0.0, np.ones(len(wz) - 1)])
    for wl in (list(wa), tuple(float(v) for v in wa), [float(v) for v in wa[: max(1, len(wa) // 2)]]):
        ctx.tap("weights_as_python_sequences", "calls"); ctx.tap("weights_as_python_sequences", "checked")
        ref_i = np.asarray(PCAVectorModel.instance(model, np.asarray(wl, dtype=float)), dtype=float)
        got_i = model.instance(wl) if backing == "vector" else model.instance_vector(wl)
        if backing != "vector":
            model.instance(wl)
        if _amax(np.asarray(got_i, dtype=float) - ref_i) > 1e-9 * max(1.0, float(np.abs(ref_i).max())):
            ctx.fail("instance_depends_on_the_spelling_of_the_weights", cls=cls, mech=type(wl).__name__)
    wn = rng.normal(size=model.n_active_components)
    model.instance(wn, normalized_weights=True)
    # queries given as integer-typed vectors (pixel counts, integer landmarks): the same numbers, the same answers
    xi = np.round(rng.normal(size=d) * max(scale, 1e-300) * 3)
    if np.abs(xi).max() < 2 ** 40 and np.abs(xi).max() >= 2:
        xi_int = xi.astype(np.int64)
        ctx.tap("integer_typed_queries", "calls"); ctx.tap("integer_typed_queries", "checked")
        for nm in ("project", "reconstruct", "project_out"):
            a_ = np.asarray(getattr(PCAVectorModel, nm)(model, xi_int), dtype=float)
            b_ = np.asarray(getattr(PCAVectorModel, nm)(model, xi.copy()), dtype=float)
            if a_.shape != b_.shape or _amax(a_ - b_) > 1e-9 * max(1.0, float(np.abs(b_).max())):
                ctx.fail("integer_typed_query_gives_another_answer_than_the_same_numbers_as_floats", cls=cls, mech=nm, err=_amax(a_ - b_) if a_.shape == b_.shape else None)
    # ---- history of active-component changes and trims
    events = []
    total = model.n_components
    all_eigs = np.array(model._eigenvalues, copy=True)   # at this point nothing is trimmed: these are all eigenvalues
    orig = float(all_eigs.sum())
    for step in range(int(rng.integers(1, 11))):
        kind = ["int", "float", "trim_int", "trim_float", "restore", "query", "copy", "whiten", "mean_handed_out", "one_then_everything", "trim_default"][rng.integers(0, 11)]
        if kind == "one_then_everything" and (any("trim" in e for e in events) or model.variance_ratio() > 1.0 or float(np.sum(model._eigenvalues)) < orig):
            kind = "query"          # (1.0 is only a legal request while nothing has been trimmed away)
        if kind == "one_then_everything":
            # down to a single component, then "keep all the variance" in the documented fraction form
            model.n_active_components = 1
            try:
                model.n_active_components = 1.0
            except ValueError:
                # (the kept-variance ratio of an untrimmed model can come out one rounding below 1: the request is then out of the documented range)
                ctx.bump("fraction_one_refused_kept_ratio_rounds_below_one")
                model.n_active_components = model.n_components
            if model.n_active_components != model.n_components:
                ctx.fail("variance_fraction_gives_the_wrong_number_of_components", cls=cls, mech="float:1.0_after_a_single_component",
                         fraction=1.0, got=int(model.n_active_components), expected=int(model.n_components), history=events)
            events.append("int"); events.append("float")
            continue
        if kind == "mean_handed_out":
            if backing == "vector":
                continue
            # the caller takes the mean object and turns it into something else (gives it other coordinates / pixels); the model's
            # mean is still the sample mean
            mo = model.mean()
            if hasattr(mo, "points"):
                mo.points = np.asarray(mo.points, dtype=float) * 2.0 + 1.0
            else:
                mo.pixels = np.asarray(mo.pixels, dtype=float) * 2.0 + 1.0
            m2 = np.asarray(model.mean().as_vector(), dtype=float)
            ctx.tap("mean_after_handing_it_out", "calls"); ctx.tap("mean_after_handing_it_out", "checked")
            if _amax(m2 - m) > 1e-9 * scale:
                ctx.fail("model_mean_is_not_the_sample_mean", cls=cls, mech="after_the_caller_changed_a_mean_it_was_given")
            events.append(kind)
            continue
        if kind == "whiten":
            # read-only derived quantities: asking for them leaves the model as it was (the invariant keeps judging)
            wc = model.whitened_components()
            xq = rng.normal(size=d) * scale
            PCAVectorModel.project_whitened(model, xq)
            exp_w = model.components / np.sqrt(model.eigenvalues * model.n_samples + model.noise_variance())[:, None]
            if wc.shape != exp_w.shape or _amax(wc - exp_w) > 1e-9 * max(1e-300, float(np.abs(exp_w).max())):
                ctx.fail("whitened_components_are_not_the_components_over_the_scaled_eigenvalues", cls=cls)
            events.append(kind)
            w = rng.normal(size=model.n_active_components)
            x = rng.normal(size=d) * scale
            PCAVectorModel.instance(model, w); PCAVectorModel.reconstruct(model, x); PCAVectorModel.project_out(model, x)
            continue
        if kind == "copy":
            # the history continues on a copy (which has been used before, like its original)
            model = model.copy()
            events.append(kind)
            continue
        kept = np.array(model._eigenvalues, copy=True)
        cum = np.cumsum(kept) / orig
        if kind == "int":
            k = int(rng.integers(1, model.n_components + 2))
            model.n_active_components = k
            exp = min(k, model.n_components)
            if model.n_active_components != exp:
                ctx.fail("integer_active_count_not_honoured", cls=cls, got=int(model.n_active_components), expected=exp)
        elif kind in ("float", "trim_float"):
            f = float(rng.uniform(0.05, cum[-1]))
            if np.abs(cum - f).min() < 1e-6:
                continue
            exp = int(np.sum(cum < f) + 1)
            if kind == "float":
                model.n_active_components = f
            else:
                model.trim_components(f)
            if model.n_active_components != exp:
                ctx.fail("variance_fraction_gives_the_wrong_number_of_components", cls=cls, mech=kind + (":after_reduction" if events else ":fresh"),
                         fraction=f, got=int(model.n_active_components), expected=exp, history=events)
            elif model.variance_ratio() < f - 1e-9:
                ctx.fail("kept_variance_ratio_below_the_requested_fraction", cls=cls, mech=kind)
        elif kind == "trim_default":
            # the documented default: trim to the components that are active now
            k = int(model.n_active_components)
            if rng.random() < 0.5:
                model.trim_components()
            else:
                model.trim_components(None)
            if model.n_components != k or model.n_active_components != k:
                ctx.fail("trim_did_not_keep_the_requested_number", cls=cls, mech="default_form", got=int(model.n_components), expected=k)
        elif kind == "trim_int":
            k = int(rng.integers(1, model.n_components + 1))
            model.trim_components(k)
            if model.n_components != k or model.n_active_components != k:
                ctx.fail("trim_did_not_keep_the_requested_number", cls=cls)
        elif kind == "restore":
            model.n_active_components = model.n_components
        else:
            model.variance(); model.variance_ratio(); model.noise_variance(); model.eigenvalues_cumulative_ratio(); model.original_variance()
            str(model)
        events.append(kind)
        if "trim" in kind or kind in ("int", "float"):
            # equals a model built with that many components in the first place
            k = model.n_components
            if "trim" in kind:
                if backing == "vector":
                    fresh = PCAVectorModel(X.copy(), centre=centre, max_n_components=k)
                else:
                    fresh = PCAModel(samples, centre=True, max_n_components=k, **({"inplace": False} if backing.startswith("int_") else {}))
                ctx.tap("trim_vs_built", "calls"); ctx.tap("trim_vs_built", "checked")
                ok = (fresh.n_components == model.n_components and np.abs(fresh._components - model._components).max() < 1e-9 and
                      np.abs(fresh._eigenvalues - model._eigenvalues).max() < 1e-9 * lam[0] and
                      abs(fresh.original_variance() - model.original_variance()) < 1e-9 * orig)
                if not ok:
                    ctx.fail("trimmed_model_differs_from_one_built_with_that_many_components", cls=cls, mech="after_%d_trims" % min(3, sum("trim" in e for e in events)))
                else:
                    ma, fa = model.n_active_components, None
                    model.n_active_components = model.n_components
                    if abs(fresh.noise_variance() - model.noise_variance()) > 1e-9 * lam[0]:
                        ctx.fail("trimmed_model_reports_another_noise_variance_than_one_built_at_that_size", cls=cls)
                    model.n_active_components = ma
        # identities keep holding on the reduced model
        w = rng.normal(size=model.n_active_components)
        x = rng.normal(size=d) * scale
        PCAVectorModel.instance(model, w); PCAVectorModel.reconstruct(model, x); PCAVectorModel.project_out(model, x)
        PCAVectorModel.instance(model, rng.normal(size=model.n_active_components), normalized_weights=True)
        if backing != "vector":
            object_api(ctx, model, w, x, scale)
    changed = any(e in ("int", "float", "trim_int", "trim_float", "trim_default") for e in events)
    ctx.count_case((backing, rel, centre, tuple(sorted(set(events)))), nontrivial=total >= 2 and changed,
                   sample={"backing": backing, "n": n, "d": d, "centred": centre, "history": events} if i < 6 else None)


def w_alt_constructors(ctx, rng, i):
    """The alternative constructors (from a covariance / precision matrix, from components) give the same model."""
    from menpo.model import PCAVectorModel, PCAModel
    import menpo.shape as ms
    LEDGER.clear()
    d = int(rng.integers(3, 12))
    n = d + int(rng.integers(3, 15))
    # mild spectrum: pcacov's documented cut is 1e-5 of the largest eigenvalue
    s_ = 10.0 * (10.0 ** rng.uniform(-1.5, -0.3)) ** (np.arange(d) / max(1, d - 1)) * rng.uniform(0.97, 1.03, d)
    u, _ = np.linalg.qr(rng.normal(size=(n, n)))
    ones = np.ones((n, 1)) / np.sqrt(n)
    q, _ = np.linalg.qr(np.hstack([ones, rng.normal(size=(n, n - 1))]))
    v, _ = np.linalg.qr(rng.normal(size=(d, d)))
    X = (q[:, 1:d + 1] * s_) @ v.T + rng.normal(size=d) * 2
    m, lam, V = reference(X, True)
    C = np.cov(X, rowvar=False)
    kind = i % 4
    obj = bool((i // 4) % 2) and d % 2 == 0
    mean_arg = ms.PointCloud(m.reshape(-1, 2)) if obj else m
    K = PCAModel if obj else PCAVectorModel
    if kind == 0:
        model = K.init_from_covariance_matrix(C, mean_arg, n_samples=n, centred=True)
    elif kind == 1:
        model = K.init_from_covariance_matrix(np.linalg.inv(C), mean_arg, n_samples=n, centred=True, is_inverse=True)
    elif kind == 2:
        base = PCAVectorModel(X.copy())
        model = K.init_from_components(base.components.copy(), base.eigenvalues.copy(), mean_arg, n_samples=n, centred=True)
    else:
        k = int(rng.integers(1, d))
        model = K.init_from_covariance_matrix(C, mean_arg, n_samples=n, centred=True, max_n_components=k)
        lam, V = lam[:k], V[:k]
    cls = type(model).__name__
    ctx.tap("svd_reference", "calls"); ctx.tap("svd_reference", "checked")
    if model.n_components != len(lam):
        ctx.fail("number_of_components_differs_from_rank", cls=cls, mech="alt_ctor_%d" % kind, got=int(model.n_components), expected=int(len(lam)))
    else:
        if _amax(model._eigenvalues - lam) > 1e-7 * lam[0]:
            ctx.fail("eigenvalues_are_not_the_sample_variances_along_the_components", cls=cls, mech="alt_ctor_%d" % kind)
        dots = np.abs(np.sum(model._components * V, axis=1))
        if (dots < 1 - 1e-6).any() and not backing.startswith("int_"):       # (rounded data: the weak directions are rounding noise of nearly equal variance)
            ctx.fail("components_do_not_span_the_principal_directions", cls=cls, mech="alt_ctor_%d" % kind, worst=float(dots.min()))
        resid = np.abs(C @ model._components.T - model._components.T * model._eigenvalues).max()
        if not (resid <= 1e-7 * lam[0]):
            ctx.fail("component_is_not_an_eigenvector_of_the_covariance_for_its_eigenvalue", cls=cls, mech="alt_ctor_%d" % kind, err=float(resid))
    if _amax(model._mean - m) > 1e-9 * max(1.0, np.abs(m).max()):
        ctx.fail("model_mean_is_not_the_sample_mean", cls=cls, mech="alt_ctor_%d" % kind)
    if model.n_samples != n:
        ctx.fail("n_samples_wrong", cls=cls, mech="alt_ctor")
    # the same life as any other model: the invariant and the projection taps keep judging
    for _ in range(4):
        if model.n_components > 1 and rng.random() < 0.6:
            model.n_active_components = int(rng.integers(1, model.n_components + 1))
        if model.n_components > 1 and rng.random() < 0.3:
            model.trim_components(int(rng.integers(1, model.n_components + 1)))
        w = rng.normal(size=model.n_active_components)
        x = rng.normal(size=d) * 3
        PCAVectorModel.instance(model, w); PCAVectorModel.reconstruct(model, x); PCAVectorModel.project_out(model, x)
        model.variance_ratio(); model.noise_variance()
    if rng.random() < 0.4:
        # the documented uncentred form, from the scatter matrix of no more samples than features (its rank is the number of samples):
        # the same model as the ordinary constructor builds from those samples without centring
        d2 = int(rng.integers(3, 10))
        n2 = int(rng.integers(2, d2 + 1))
        X2 = rng.normal(size=(n2, d2)) * rng.uniform(0.7, 1.5, d2)
        S2 = X2.T @ X2 / (n2 - 1)
        ctx.tap("uncentred_covariance_constructor", "calls"); ctx.tap("uncentred_covariance_constructor", "checked")
        try:
            m2_ = PCAVectorModel.init_from_covariance_matrix(S2, np.zeros(d2), n_samples=n2, centred=False)
            b2_ = PCAVectorModel(X2.copy(), centre=False)
            lam2 = np.linalg.svd(X2, compute_uv=False) ** 2 / (n2 - 1)
            lam2 = lam2[lam2 > 1e-5 * lam2[0]]
            # (the two constructors cut at different documented floors - 1e-5 and 1e-10 of the largest eigenvalue: their component
            # counts are only compared when no eigenvalue lies anywhere near either floor)
            all2 = np.linalg.svd(X2, compute_uv=False) ** 2
            mild = all2.min() > 1e-3 * all2.max()
            if m2_.n_components != len(lam2) or (mild and m2_.n_components != b2_.n_components):
                ctx.fail("number_of_components_differs_from_rank", cls="PCAVectorModel", mech="alt_ctor_uncentred_covariance", got=int(m2_.n_components), expected=int(len(lam2)))
            elif _amax(m2_._eigenvalues - lam2) > 1e-7 * lam2[0]:
                ctx.fail("eigenvalues_are_not_the_sample_variances_along_the_components", cls="PCAVectorModel", mech="alt_ctor_uncentred_covariance")
            elif mild:
                rec_ = np.asarray(PCAVectorModel.reconstruct(m2_, X2[0].copy()), dtype=float)
                if _amax(rec_ - X2[0]) > 1e-7 * max(1.0, float(np.abs(X2).max())):
                    ctx.fail("training_sample_not_reconstructed_exactly", cls="PCAVectorModel", mech="alt_ctor_uncentred_covariance", err=_amax(rec_ - X2[0]))
        except Exception as e_:
            ctx.fail("unexpected_exception", cls="PCAVectorModel", mech="alt_ctor_uncentred_covariance:" + type(e_).__name__, error=repr(e_)[:160])
    ctx.count_case(("alt_ctor", kind, obj), nontrivial=True, sample={"constructor": ["covariance", "precision", "components", "covariance+max_n"][kind], "object_backed": obj} if i < 4 else None)


WORKLOADS = [Workload("model", w_model, quick=1000, thorough=40000), Workload("alt_constructors", w_alt_constructors, quick=320, thorough=8000)]
