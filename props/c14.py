"""C14  Graphs, trees and their queries agree with the edges they were built from.

Workloads: exhaustive enumeration of every labelled undirected graph on <=5 vertices and every labelled directed
graph on <=4 vertices (abstract and point-carrying), random graphs / trees / weighted graphs up to 40 vertices.
Oracles: vf/ref.py (union-find, 3-colour DFS, DFS path enumeration, Dijkstra, Kruskal, induced subgraph).
Taps on the constructors and from_mask record every construction event (incl. the internal ones) and judge
"the object reports the edge set of the adjacency it was given" at the funnel.
"""
import numpy as np
import scipy.sparse as sp

from vf.core import Workload
from vf import taps, ref, gen

ID = "C14"
TECHNIQUE = "runtime monitoring: constructor/from_mask taps + textbook reference algorithms over exhaustive small graphs and random larger ones"
LEVEL_TEXT = ("Every graph query is compared with an independent textbook algorithm on all labelled graphs up to 5 (undirected) / 4 (directed) "
              "vertices, all masks, all roots and all start/end pairs, plus random graphs, trees and weighted graphs to 40 vertices; "
              "exhaustive on the small scope, held-on-what-was-observed beyond it")
LEVEL_NOTE = "trusted: the reference algorithms in vf/ref.py (plain Python); scipy.sparse is used only to build inputs"
DESIGN_REF = "DESIGN.md section 7, C14"
RULE = ("exhaustive: labelled undirected graphs n<=5 (1099) and directed graphs n<=4 (4165), each as abstract and point graph, every vertex mask, "
        "every ordered start!=end pair, every root for trees; random: graphs/trees/weighted graphs with 6-40 vertices. Non-trivial = the graph has "
        ">=1 edge; distinct = distinct (kind, n, edge set) for exhaustive cases and distinct (kind, n, n_edges, seed index) for random ones")
ASSUMPTIONS = ["start == end is not asked of the path queries", "weights are positive floats well separated from zero",
               "is_tree on a directed graph is judged as 'the underlying undirected graph is a tree and there is no directed cycle'"]
DECIDING_TAPS = ["Graph.__init__", "from_mask"]
REPLAY_PATHS = ['menpo/shape/test']      # suite replay (thorough tier): the repository's own tests under these monitors
SHARDS = {"quick": 8, "thorough": 16}
TIMEOUT = {"quick": 900, "thorough": 10800}


# ------------------------------------------------------------------------------------- monitors
class CtorMonitor(taps.Monitor):
    """After construction the object reports exactly the edge set of the adjacency matrix it was given."""
    name = "Graph.__init__"

    def pre(self, ctx, args, kw):
        a = args[1] if len(args) > 1 else kw.get("adjacency_matrix")
        if not (isinstance(a, np.ndarray) or sp.issparse(a)):
            return None
        d = np.asarray(a.todense()) if sp.issparse(a) else np.asarray(a)
        if d.ndim != 2 or d.shape[0] != d.shape[1] or d.shape[0] == 0 or d.shape[0] > 64:
            return None
        return {"given": d.copy()}

    def post(self, ctx, st, args, kw, result, exc):
        if exc is not None:
            return
        g = args[0]
        got = np.asarray(g.adjacency_matrix.todense())
        if got.shape != st["given"].shape or not np.array_equal(got != 0, st["given"] != 0):
            ctx.fail("stored_adjacency_differs_from_given", cls=type(g).__name__)


class FromMaskMonitor(taps.Monitor):
    """from_mask keeps the induced subgraph on the survivors (trees: the part connected to the root)."""
    name = "from_mask"

    def __init__(self, tree=False):
        self.tree = tree

    def pre(self, ctx, args, kw):
        g, mask = args[0], args[1]
        if not taps.is_menpo(g) or not isinstance(mask, np.ndarray) or mask.dtype != bool or mask.shape != (g.n_points,):
            return None
        if g.n_points > 64 or not mask.any():
            return None   # an empty graph is not representable: masks keep at least one vertex
        a = np.asarray(g.adjacency_matrix.todense())
        return {"adj": a.copy(), "pts": g.points.copy(), "root": getattr(g, "root_vertex", None), "mask": mask.copy()}

    def post(self, ctx, st, args, kw, result, exc):
        g = args[0]
        cls = type(g).__name__
        keep = st["mask"].copy()
        a = st["adj"]
        from menpo.shape import PointTree
        if isinstance(g, PointTree):
            if not keep[st["root"]]:
                ctx.check(isinstance(exc, ValueError), "masking_out_the_root_not_refused", cls=cls)
                return
            # the part that stays connected to the root through surviving vertices
            n = len(keep)
            edges = [(i, j) for i in range(n) for j in range(n) if a[i, j] != 0 and keep[i] and keep[j]]
            reach = ref.reachable(n, edges, True, st["root"])
            keep = np.array([keep[v] and v in reach for v in range(n)])
            if keep.sum() < 2:
                return  # a one-vertex tree is not representable in menpo: masks keep the root and a child (DESIGN 3.1)
        if exc is not None:
            ctx.fail("valid_mask_refused", cls=cls, mech=type(exc).__name__, error=repr(exc)[:200],
                     mask=st["mask"], adj=a)
            return
        idx = np.nonzero(keep)[0]
        exp = a[np.ix_(idx, idx)]
        got = np.asarray(result.adjacency_matrix.todense())
        if got.shape != exp.shape or not np.array_equal(got, exp):
            ctx.fail("masked_graph_is_not_the_induced_subgraph", cls=cls, mask=st["mask"], adj=a, got=got)
            return
        if not np.array_equal(result.points, st["pts"][idx]):
            ctx.fail("masked_points_do_not_follow_vertices", cls=cls, mask=st["mask"])
        if isinstance(g, PointTree):
            exp_root = int(np.sum(keep[:st["root"]]))
            if result.root_vertex != exp_root:
                ctx.fail("masked_tree_root_renumbered_wrongly", cls=cls, got=int(result.root_vertex), expected=exp_root)
        if not np.array_equal(g.points, st["pts"]) or not np.array_equal(np.asarray(g.adjacency_matrix.todense()), a):
            ctx.fail("from_mask_mutated_its_receiver", cls=cls)


def setup(ctx):
    G = taps.mod("menpo.shape.graph")
    taps.tap(ctx, G.Graph, "__init__", CtorMonitor())
    taps.tap(ctx, G.PointUndirectedGraph, "from_mask", FromMaskMonitor())
    taps.tap(ctx, G.PointDirectedGraph, "from_mask", FromMaskMonitor())
    taps.tap(ctx, G.PointTree, "from_mask", FromMaskMonitor(tree=True))


# ------------------------------------------------------------------------------------- judging one graph
def build(kind, n, edges, pts=None, how=0, weights=None):
    """kind: U / D abstract, PU / PD point-carrying.  how: 0 adjacency csr, 1 dense ndarray, 2 init_from_edges."""
    import menpo.shape as ms
    directed = kind in ("D", "PD")
    if weights is not None and how == 2:
        how = 0
    earr = np.array(edges, dtype=int).reshape(-1, 2)
    if how == 2 and n <= 120 and (n + len(edges)) % 3:
        # edge lists come in whatever integer type the caller's data has (vertex ids up to 120 fit all of these)
        earr = earr.astype([np.uint8, np.int8, np.int16, np.uint8, np.int32, np.uint16, np.int8][(n * 5 + len(edges)) % 7])
    if how == 2:
        # "no edges" is written None, [], an empty 1-D array or an empty (0, 2) array by different callers
        none = [None, [], np.array([]), np.empty((0, 2), dtype=int)][(n + (0 if pts is None else 1)) % 4]
        if kind == "U":
            return ms.UndirectedGraph.init_from_edges(earr if len(edges) else none, n)
        if kind == "D":
            return ms.DirectedGraph.init_from_edges(earr if len(edges) else none, n)
        if kind == "PU":
            return ms.PointUndirectedGraph.init_from_edges(pts, earr if len(edges) else none)
        return ms.PointDirectedGraph.init_from_edges(pts, earr if len(edges) else none)
    ghosts = None
    if how == 3:
        # a sparse matrix that stores a few zeros explicitly (an edge deleted by A[i, j] = 0): those are not edges
        ghosts = [(i, (i * 7 + 3) % n) for i in range(0, n, 3) if i != (i * 7 + 3) % n]
    a = gen.adjacency(n, edges, not directed, weights=weights, dense=(how == 1), stored_zeros=ghosts)
    ckw = {}
    if how in (3, 4) and (n + len(edges)) % 2:
        ckw = {"copy": False}         # the documented "adopt my matrix" option
    if how == 4:
        # a CSR matrix whose column indices are not sorted within the rows (scipy does not promise sorted indices; the matrices
        # its graph routines return, e.g. spanning trees, usually are not)
        import scipy.sparse as sp
        a = sp.csr_matrix(a)
        ind, dat = a.indices.copy(), a.data.copy()
        for r in range(n):
            lo, hi = a.indptr[r], a.indptr[r + 1]
            ind[lo:hi] = ind[lo:hi][::-1]
            dat[lo:hi] = dat[lo:hi][::-1]
        a = sp.csr_matrix((dat, ind, a.indptr.copy()), shape=a.shape)
    if kind == "U":
        return ms.UndirectedGraph(a, **ckw)
    if kind == "D":
        return ms.DirectedGraph(a, **ckw)
    if kind == "PU":
        return ms.PointUndirectedGraph(pts, a, **ckw)
    return ms.PointDirectedGraph(pts, a, **ckw)


def canon_edges(edges, directed):
    return set((int(i), int(j)) if directed else tuple(sorted((int(i), int(j)))) for i, j in edges)


def judge_structure(ctx, g, n, edges, directed, cls):
    E = canon_edges(edges, directed)
    got = [tuple(int(v) for v in e) for e in np.asarray(g.edges).reshape(-1, 2)]
    gotset = canon_edges(got, directed)
    if len(got) != len(gotset):
        ctx.fail("edge_reported_more_than_once", cls=cls, edges=sorted(E), got=got)
    if gotset != E:
        ctx.fail("reported_edge_set_differs_from_given", cls=cls, edges=sorted(E), got=got)
    if g.n_edges != len(E):
        ctx.fail("n_edges_wrong", cls=cls, got=int(g.n_edges), expected=len(E))
    if g.n_vertices != n or list(g.vertices) != list(range(n)):
        ctx.fail("n_vertices_wrong", cls=cls)
    a = np.asarray(g.adjacency_matrix.todense())
    if not directed and not np.array_equal(a, a.T):
        ctx.fail("undirected_adjacency_not_symmetric", cls=cls)
    adj = ref.adj_list(n, E, directed)
    radj = [set(i for i in range(n) if v in adj[i]) for v in range(n)]
    al = g.get_adjacency_list()
    if [sorted(int(x) for x in l) for l in al] != [sorted(s) for s in adj]:
        ctx.fail("adjacency_list_inconsistent_with_edges", cls=cls, edges=sorted(E), got=[list(map(int, l)) for l in al])
    for v in range(n):
        if directed:
            if sorted(int(x) for x in g.children(v)) != sorted(adj[v]) or g.n_children(v) != len(adj[v]):
                ctx.fail("children_inconsistent_with_edges", cls=cls, vertex=v, edges=sorted(E))
            if sorted(int(x) for x in g.parents(v)) != sorted(radj[v]) or g.n_parents(v) != len(radj[v]):
                ctx.fail("parents_inconsistent_with_edges", cls=cls, vertex=v, edges=sorted(E))
        else:
            if sorted(int(x) for x in g.neighbours(v)) != sorted(adj[v]) or g.n_neighbours(v) != len(adj[v]):
                ctx.fail("neighbours_inconsistent_with_edges", cls=cls, vertex=v, edges=sorted(E))
        for w in range(n):
            if bool(g.is_edge(v, w)) != (w in adj[v]):
                ctx.fail("is_edge_inconsistent_with_edges", cls=cls, pair=(v, w), edges=sorted(E))
    iso = sorted(v for v in range(n) if not adj[v] and not radj[v])
    if sorted(int(x) for x in g.isolated_vertices()) != iso or bool(g.has_isolated_vertices()) != bool(iso):
        ctx.fail("isolated_vertices_inconsistent_with_edges", cls=cls, edges=sorted(E), got=sorted(map(int, g.isolated_vertices())))
    return E


def scribble(g, n):
    """The caller uses up the lists it was handed (a work-stack walk pops from and extends the list of children it asked for):
    they are the caller's lists - what the graph reports afterwards is unchanged."""
    for v in range(n):
        for q in ("children", "parents", "neighbours"):
            f = getattr(g, q, None)
            if f is None:
                continue
            try:
                r = f(v)
            except Exception:
                continue
            if isinstance(r, list):
                r.append(10 ** 6)
                r.reverse()
                del r[:]
    try:
        for l in g.get_adjacency_list():
            if isinstance(l, list):
                del l[:]
    except Exception:
        pass
    for nm in ("leaves",):
        r = getattr(g, nm, None)
        if isinstance(r, list):
            del r[:]
    if hasattr(g, "vertices_at_depth"):
        for dpt in range(3):
            try:
                r = g.vertices_at_depth(dpt)
                if isinstance(r, list):
                    del r[:]
            except Exception:
                pass


def after_queries(ctx, g, n, edges, directed, cls, W):
    ctx.tap("structure_after_queries", "calls")
    nv = sum(v["count"] for v in ctx.violations.values())
    scribble(g, n)
    judge_structure(ctx, g, n, edges, directed, cls)
    if sum(v["count"] for v in ctx.violations.values()) > nv:
        ctx.fail("queries_changed_what_the_graph_reports", cls=cls)
    if W is not None:
        a = np.asarray(g.adjacency_matrix.todense(), dtype=float)
        for (u, v), w in W.items():
            if abs(a[u, v] - w) > 0 or (not directed and abs(a[v, u] - w) > 0):
                ctx.fail("queries_changed_an_edge_weight", cls=cls)
                break
    ctx.tap("structure_after_queries", "checked")


def judge_cycles(ctx, g, n, E, directed, cls):
    exp = ref.has_cycle_directed(n, E) if directed else ref.has_cycle_undirected(n, E)
    got = bool(g.has_cycles())
    if got != exp:
        ctx.fail("has_cycles_disagrees_with_reference", cls=cls, mech="reported_%s" % got, edges=sorted(E), n=n)
    ncomp, _ = ref.components_undirected(n, E)
    und_tree = (ncomp == 1 and not ref.has_cycle_undirected(n, canon_edges(E, False)) and
                len(canon_edges(E, False)) == n - 1 and len(canon_edges(E, False)) == len(E))
    exp_tree = und_tree and not exp
    got_tree = bool(g.is_tree())
    if got_tree != exp_tree:
        ctx.fail("is_tree_disagrees_with_reference", cls=cls, mech="reported_%s_%s" % (got_tree, "directed" if directed else "undirected"),
                 edges=sorted(E), n=n)


def judge_paths(ctx, g, n, E, directed, cls, pairs, all_paths=True):
    # asking about a vertex the graph does not have gives "no path" - and leaves nothing behind for later questions
    for bogus in (n + 2, -1 - n):
        try:
            if list(g.find_all_paths(bogus, 0)) != []:
                ctx.fail("find_all_paths_invented_a_path", cls=cls, mech="start_vertex_not_in_graph")
        except (ValueError, IndexError):
            pass
    for s, t in pairs:
        if s == t:
            # a vertex reaches itself by the path that never leaves it: one path, however it is asked for
            if all_paths:
                got = [tuple(int(v) for v in p) for p in g.find_all_paths(s, s)]
                ctx.tap("start_equals_end", "calls"); ctx.tap("start_equals_end", "checked")
                if got != [(s,)]:
                    ctx.fail("find_all_paths_disagrees_with_dfs_enumeration", cls=cls, mech="start_equals_end", edges=sorted(E), pair=(s, s), got=got[:6], expected=[(s,)])
                if g.n_paths(s, s) != 1:
                    ctx.fail("n_paths_wrong", cls=cls, mech="start_equals_end", edges=sorted(E), pair=(s, s), got=int(g.n_paths(s, s)))
            continue
        reach = t in ref.reachable(n, E, directed, s)
        for method in ("bfs", "dfs"):
            p = [int(v) for v in g.find_path(s, t, method=method)]
            if not reach:
                if p != []:
                    ctx.fail("find_path_invented_a_path", cls=cls, mech=method, edges=sorted(E), pair=(s, t), got=p)
                continue
            ok = (len(p) >= 2 and p[0] == s and p[-1] == t and len(set(p)) == len(p) and
                  all((canon_edges([(a, b)], directed) <= E) for a, b in zip(p, p[1:])))
            if not ok:
                ctx.fail("find_path_not_a_simple_path_of_real_edges", cls=cls, mech=method, edges=sorted(E), pair=(s, t), got=p)
        if all_paths:
            exp = sorted(ref.all_simple_paths(n, E, directed, s, t))
            got = sorted(tuple(int(v) for v in p) for p in g.find_all_paths(s, t))
            if got != exp:
                ctx.fail("find_all_paths_disagrees_with_dfs_enumeration", cls=cls, edges=sorted(E), pair=(s, t), got=got[:6], expected=exp[:6])
            if g.n_paths(s, t) != len(exp):
                ctx.fail("n_paths_wrong", cls=cls, edges=sorted(E), pair=(s, t))


def judge_shortest(ctx, g, n, W, directed, cls, pairs, unweighted=False):
    """W: dict edge -> weight."""
    Wd = {e: (1.0 if unweighted else w) for e, w in W.items()}
    for s, t in pairs:
        if s == t:
            continue
        dist = ref.dijkstra(n, Wd, directed, s)
        # (the documented algorithm choices: with positive weights every one of them finds a shortest route)
        algo = ["auto", "auto", "FW", "D"][(s * 7 + t * 3 + len(W)) % 4] if all(w > 0 for w in W.values()) else "auto"
        path, cost = g.find_shortest_path(s, t, unweighted=unweighted) if algo == "auto" else g.find_shortest_path(s, t, algorithm=algo, unweighted=unweighted)
        path = [int(v) for v in path]
        if dist[t] == float("inf"):
            if path != [] or cost != float("inf"):
                ctx.fail("shortest_path_invented", cls=cls, pair=(s, t), got=path)
            continue
        def wt(a, b):
            if (a, b) in Wd:
                return Wd[(a, b)]
            if not directed and (b, a) in Wd:
                return Wd[(b, a)]
            return None
        ws = [wt(a, b) for a, b in zip(path, path[1:])]
        if len(path) < 2 or path[0] != s or path[-1] != t or any(w is None for w in ws):
            ctx.fail("shortest_route_not_a_path_of_real_edges", cls=cls, pair=(s, t), got=path, edges=sorted(W))
            continue
        tol = 1e-9 * max(1.0, dist[t])
        if abs(sum(ws) - dist[t]) > tol:
            ctx.fail("shortest_route_is_not_shortest", cls=cls, pair=(s, t), got=path, weight=sum(ws), dijkstra=dist[t])
        ctx.tap("shortest_path_cost", "calls")
        ctx.tap("shortest_path_cost", "checked")
        if abs(cost - dist[t]) > tol:
            # characterise the wrong value: the known defect adds up d(start, v) over the non-final route vertices
            formula = sum(dist[v] for v in path[:-1])
            mech = "cost_is_sum_of_start_distances_of_nonfinal_route_vertices" if abs(cost - formula) <= tol else "other_wrong_cost"
            ctx.fail("shortest_path_cost_differs_from_route_weight", cls="Graph", mech=mech, pair=(s, t), route=path,
                     reported=float(cost), route_weight=float(dist[t]))


def judge_tree(ctx, t, n, E, root, cls):
    adj = ref.adj_list(n, E, True)
    parent = {j: i for i, j in E}
    depth = {root: 0}
    stack = [root]
    while stack:
        v = stack.pop()
        for w in adj[v]:
            depth[w] = depth[v] + 1
            stack.append(w)
    # the parent relation first, for all vertices: the depth queries walk it (a wrong parent could send them round in circles)
    wrong_parent = False
    for v in range(n):
        p = t.parent(v)
        if (None if p is None else int(p)) != parent.get(v):
            ctx.fail("tree_parent_wrong", cls=cls, vertex=v, edges=sorted(E), root=root)
            wrong_parent = True
    if wrong_parent:
        return
    for v in range(n):
        if t.depth_of_vertex(v) != depth[v]:
            ctx.fail("tree_depth_wrong", cls=cls, vertex=v, edges=sorted(E), root=root)
        if bool(t.is_leaf(v)) != (len(adj[v]) == 0):
            ctx.fail("tree_is_leaf_wrong", cls=cls, vertex=v)
        if sorted(int(c) for c in t.children(v)) != sorted(adj[v]):
            ctx.fail("tree_children_wrong", cls=cls, vertex=v)
        for c in t.children(v):
            if int(t.parent(int(c))) != v:
                ctx.fail("tree_parent_children_inconsistent", cls=cls, vertex=v)
    md = max(depth.values())
    if int(t.maximum_depth) != md:
        ctx.fail("tree_maximum_depth_wrong", cls=cls)
    for d in range(md + 2):
        exp = sorted(v for v in range(n) if depth[v] == d)
        if sorted(int(v) for v in t.vertices_at_depth(d)) != exp or t.n_vertices_at_depth(d) != len(exp):
            ctx.fail("tree_vertices_at_depth_wrong", cls=cls, depth=d)
    exp_leaves = sorted(v for v in range(n) if not adj[v])
    if sorted(int(v) for v in t.leaves) != exp_leaves or t.n_leaves != len(exp_leaves):
        ctx.fail("tree_leaves_wrong", cls=cls)
    if int(t.root_vertex) != root:
        ctx.fail("tree_root_wrong", cls=cls)


def all_masks(n):
    for bits in range(1, (1 << n)):
        yield np.array([(bits >> k) & 1 for k in range(n)], dtype=bool)


def judge_masks(ctx, g, n, masks):
    """The from_mask tap does the judging; here we only drive it (and make sure wrong sizes are refused)."""
    for m in masks:
        try:
            g.from_mask(m)
        except ValueError:
            pass   # whether the refusal was legitimate is judged by the from_mask tap
    try:
        g.from_mask(np.ones(n + 1, dtype=bool))
        ctx.fail("wrong_length_mask_accepted", cls=type(g).__name__)
    except ValueError:
        pass


# ------------------------------------------------------------------------------------- workloads
_SMALL = [("U", n) for n in range(1, 6)] + [("D", n) for n in range(1, 5)]
_OFFSETS = []
_tot = 0
for _k, _n in _SMALL:
    _OFFSETS.append((_tot, _k, _n))
    _tot += ref.n_graphs(_n, _k == "D")
N_SMALL = _tot   # 1099 + 4165


def small_case(i):
    for off, k, n in reversed(_OFFSETS):
        if i >= off:
            return k, n, ref.graph_by_index(n, k == "D", i - off)


def w_exhaustive(ctx, rng, i):
    """Graph number i of the complete enumeration; abstract and point-carrying, three construction routes."""
    kind, n, edges = small_case(i)
    directed = kind == "D"
    pts = gen.points(rng, n, int(rng.integers(2, 4)))
    for pk, how in ((kind, i % 3), ("P" + kind, (i + 1) % 3)):
        g = build(pk, n, edges, pts, how)
        cls = type(g).__name__
        ctx.see("classes", cls)
        E = judge_structure(ctx, g, n, edges, directed, cls)
        judge_cycles(ctx, g, n, E, directed, cls)
        pairs = [(s, t) for s in range(n) for t in range(n)]
        judge_paths(ctx, g, n, E, directed, cls, pairs)
        W = {e: 1.0 for e in E}
        judge_shortest(ctx, g, n, W, directed, cls, pairs, unweighted=bool(i % 2))
        if pk.startswith("P"):
            judge_masks(ctx, g, n, all_masks(n))
            if not np.array_equal(g.points, pts):
                ctx.fail("points_changed", cls=cls)
        elif not directed and E:
            ncomp, _ = ref.components_undirected(n, E)
            if ncomp == 1:
                g.minimum_spanning_tree(int(i % n))
        after_queries(ctx, g, n, edges, directed, cls, None)
    # every rooted tree hidden in this edge set: if the directed graph is an arborescence from some root, Tree must accept it
    if directed and len(edges) == n - 1 and n >= 2:
        import menpo.shape as ms
        for root in range(n):
            reach = ref.reachable(n, edges, True, root)
            valid = len(reach) == n
            a = gen.adjacency(n, edges, False)
            try:
                t = ms.PointTree(pts, a, root) if i % 2 else ms.Tree(a, root)
                built = True
            except ValueError as e:
                built = False
            ctx.tap("tree_ctor", "calls"); ctx.tap("tree_ctor", "checked")
            if valid and not built:
                ctx.fail("valid_tree_refused", cls="Tree", edges=edges, root=root)
            if built and not valid:
                ctx.fail("invalid_tree_accepted", cls="Tree", edges=edges, root=root)
            if built:
                judge_tree(ctx, t, n, canon_edges(edges, True), root, type(t).__name__)
                # a tree is a directed graph: paths between every pair of its vertices as for the graph on the same edges
                judge_paths(ctx, t, n, canon_edges(edges, True), True, type(t).__name__, [(s_, t_) for s_ in range(n) for t_ in range(n)])
                if i % 2:
                    judge_masks(ctx, t, n, all_masks(n))
    ctx.count_case(("small", kind, n, tuple(edges)), nontrivial=len(edges) >= 1,
                   sample={"kind": kind, "n": n, "edges": edges} if i % 977 == 0 else None)


def w_random(ctx, rng, i):
    kind = ["U", "D", "PU", "PD"][i % 4]
    directed = kind in ("D", "PD")
    n = int(rng.integers(6, 41 if ctx.tier == "thorough" else 25))
    p = float(rng.uniform(0.03, 0.3))
    edges = gen.random_directed_edges(rng, n, p) if directed else gen.random_undirected_edges(rng, n, p)
    if directed and rng.random() < 0.2:
        # n - 1 edges, no directed cycle, no isolated vertex - and still not a tree: one piece carries an undirected-only cycle
        # (a->b, a->c, b->c), the other pieces are small trees
        perm = [int(v) for v in rng.permutation(n)]
        edges = [(perm[0], perm[1]), (perm[0], perm[2]), (perm[1], perm[2])]
        k = 3
        while k < n:
            size = int(min(n - k, rng.integers(2, 5)))
            if size == 1:
                edges.append((perm[int(rng.integers(3, k))], perm[k]))     # a lone leftover hangs off an earlier tree piece
            for j in range(1, size):
                edges.append((perm[k + int(rng.integers(0, j))], perm[k + j]))
            k += size
        if len(edges) != n - 1:
            edges = edges[: n - 1]
    weights = list(rng.uniform(0.1, 10.0, len(edges)))
    weighted = bool(rng.random() < 0.6)
    if directed and weighted:
        # keep antiparallel weights independent: that is a legitimate weighted digraph
        pass
    pts = gen.points(rng, n, 2)
    g = build(kind, n, edges, pts, int(rng.integers(0, 5)), weights=weights if weighted else None)
    cls = type(g).__name__
    ctx.see("classes", cls)
    E = judge_structure(ctx, g, n, edges, directed, cls)
    judge_cycles(ctx, g, n, E, directed, cls)
    pairs = [(int(a), int(b)) for a, b in rng.integers(0, n, (12, 2))]
    judge_paths(ctx, g, n, E, directed, cls, pairs, all_paths=(len(E) <= 14))
    W = {}
    for k, e in enumerate(edges):
        W[(e[0], e[1]) if directed else tuple(sorted(e))] = weights[k] if weighted else 1.0
    judge_shortest(ctx, g, n, W, directed, cls, pairs, unweighted=False)
    if weighted:
        judge_shortest(ctx, g, n, W, directed, cls, pairs[:4], unweighted=True)
    if kind.startswith("P"):
        judge_masks(ctx, g, n, [rng.random(n) < rng.uniform(0.2, 0.9) for _ in range(4)] + [np.ones(n, dtype=bool)])
    # minimum spanning tree on connected undirected weighted graphs without isolated vertices
    if not directed:
        ncomp, _ = ref.components_undirected(n, E)
        iso = any(not s for s in ref.adj_list(n, E, False))
        root = int(rng.integers(0, n))
        if iso:
            try:
                g.minimum_spanning_tree(root)
                ctx.fail("mst_of_graph_with_isolated_vertices_not_refused", cls=cls)
            except ValueError:
                pass
        elif ncomp == 1:
            t = g.minimum_spanning_tree(root)
            ctx.tap("mst", "calls"); ctx.tap("mst", "checked")
            te = [tuple(int(v) for v in e) for e in np.asarray(t.edges).reshape(-1, 2)]
            total = 0.0
            bad = False
            for a, b in te:
                w = W.get(tuple(sorted((a, b))))
                if w is None:
                    bad = True
                else:
                    total += w
            kw, kk = ref.kruskal_weight(n, W)
            if bad or len(te) != n - 1 or ref.has_cycle_undirected(n, te) or len(ref.reachable(n, te, True, root)) != n:
                ctx.fail("mst_is_not_a_spanning_tree_of_real_edges_rooted_at_root", cls=cls, root=root)
            elif abs(total - kw) > 1e-9 * max(1.0, kw):
                ctx.fail("mst_weight_differs_from_kruskal", cls=cls, got=total, expected=kw)
            else:
                judge_tree(ctx, t, n, canon_edges(te, True), root, type(t).__name__)
                # the tree handed back is a graph like any other: its own queries agree with its own edges
                judge_structure(ctx, t, n, te, True, type(t).__name__ + ":spanning_tree")
    # every question asked above was a read-only query: the graph still reports the edges it was built from
    after_queries(ctx, g, n, edges, directed, cls, W if weighted else None)
    ctx.count_case(("random", kind, n, len(E), weighted, i), nontrivial=len(E) >= 1,
                   sample={"kind": kind, "n": n, "n_edges": len(E), "weighted": weighted} if i < 3 else None)


def w_self_loops(ctx, rng, i):
    """An edge list may join a vertex to itself: such an edge is reported like any other (structure queries only)."""
    kind = ["U", "D", "PU", "PD"][i % 4]
    directed = kind in ("D", "PD")
    n = int(rng.integers(2, 12))
    edges = gen.random_directed_edges(rng, n, 0.25) if directed else gen.random_undirected_edges(rng, n, 0.3)
    loops = [(int(v), int(v)) for v in rng.choice(n, int(rng.integers(1, min(n, 3) + 1)), replace=False)]
    edges = edges + loops
    edges = [edges[j] for j in rng.permutation(len(edges))]
    g = build(kind, n, edges, gen.points(rng, n, 2), int(rng.integers(0, 3)))
    cls = type(g).__name__
    judge_structure(ctx, g, n, edges, directed, cls + ":self_edges")
    # a vertex joined to itself is a cycle (of length one) - whatever else the graph holds - and such a graph is no tree
    ctx.tap("self_loop_is_a_cycle", "calls"); ctx.tap("self_loop_is_a_cycle", "checked")
    if not g.has_cycles():
        ctx.fail("has_cycles_wrong", cls=cls, mech="self_loop_not_reported:" + ("only_cycle" if not (ref.has_cycle_directed if directed else ref.has_cycle_undirected)(n, canon_edges([e for e in edges if e[0] != e[1]], directed)) else "among_others"), edges=sorted(edges))
    if g.is_tree():
        ctx.fail("is_tree_wrong", cls=cls, mech="graph_with_a_self_loop_called_a_tree", edges=sorted(edges))
    ctx.count_case(("self_loops", kind, n, len(loops)), nontrivial=True)


def w_signed_weights(ctx, rng, i):
    """Edge weights may be negative (the shortest-path interface offers algorithms for exactly that): weights that cancel
    around a vertex do not make its edges disappear (structure queries only)."""
    import menpo.shape as ms
    kind = ["U", "D", "PU", "PD"][i % 4]
    directed = kind in ("D", "PD")
    n = int(rng.integers(3, 11))
    edges = gen.random_directed_edges(rng, n, 0.3, antiparallel=False) if directed else gen.random_undirected_edges(rng, n, 0.35)
    if len(edges) < 2:
        edges = [(0, 1), (1, 2)]
    w = rng.uniform(0.5, 5.0, len(edges))
    # make the weights around one vertex cancel exactly: +a and -a on two of its edges (row and column sums 0)
    v = edges[int(rng.integers(0, len(edges)))][0]
    inc = [k for k, e in enumerate(edges) if v in e]
    if len(inc) >= 2:
        a = float(np.round(rng.uniform(1, 4), 2))
        for k in inc:
            w[k] = 0.0
        w[inc[0]], w[inc[1]] = a, -a
        inc = inc[:2] + [k for k in inc[2:]]
        edges = [e for k, e in enumerate(edges) if k not in inc[2:]]
        w = np.array([x for k, x in enumerate(w) if k not in inc[2:]])
    else:
        w[rng.integers(0, len(w))] *= -1
    a_ = gen.adjacency(n, edges, not directed, weights=list(w), dense=bool(i % 2))
    pts = gen.points(rng, n, 2)
    g = {"U": lambda: ms.UndirectedGraph(a_), "D": lambda: ms.DirectedGraph(a_), "PU": lambda: ms.PointUndirectedGraph(pts, a_),
         "PD": lambda: ms.PointDirectedGraph(pts, a_)}[kind]()
    judge_structure(ctx, g, n, edges, directed, type(g).__name__ + ":signed_weights")
    ctx.count_case(("signed_weights", kind, n), nontrivial=True)


def w_trees(ctx, rng, i):
    import menpo.shape as ms
    n = int(rng.integers(2, 41 if ctx.tier == "thorough" else 22))
    edges, root = gen.random_tree_edges(rng, n)
    pts = gen.points(rng, n, int(rng.integers(2, 4)))
    order = rng.permutation(len(edges))
    edges = [edges[k] for k in order]         # unsorted edge lists
    how = int(rng.integers(0, 4))
    wts = None
    if rng.random() < 0.3:
        # weighted trees - weights of either sign (a cost can be a gain): an edge is an edge whatever its weight
        wts = list(rng.uniform(0.5, 4.0, len(edges)) * rng.choice([-1.0, 1.0], len(edges)))
        how = [0, 2][int(rng.integers(0, 2))]
    try:
        if wts is not None:
            A_w = gen.adjacency(n, edges, False, weights=wts, dense=(how == 2))
            t = ms.PointTree(pts, A_w, root) if how == 0 else ms.Tree(A_w, root)
        elif how == 0:
            t = ms.PointTree(pts, gen.adjacency(n, edges, False), root)
        elif how == 1:
            t = ms.PointTree.init_from_edges(pts, np.array(edges), root)
        elif how == 2:
            t = ms.Tree(gen.adjacency(n, edges, False, dense=True), root)
        else:
            t = ms.Tree.init_from_edges(np.array(edges), n, root)
    except ValueError as e:
        ctx.fail("valid_tree_refused", cls="Tree", mech="random", edges=edges, root=root, error=repr(e)[:200])
        ctx.count_case(("tree", n, i))
        return
    ctx.tap("tree_ctor", "calls"); ctx.tap("tree_ctor", "checked")
    cls = type(t).__name__
    ctx.see("classes", cls)
    E = judge_structure(ctx, t, n, edges, True, cls)
    judge_tree(ctx, t, n, E, root, cls)
    judge_cycles(ctx, t, n, E, True, cls)
    # a tree is a directed graph: paths (also from a vertex to itself, and against the edge direction: none) as for any graph
    tp = [(int(a), int(b)) for a, b in rng.integers(0, n, (8, 2))] + [(root, int(rng.integers(0, n))), (int(rng.integers(0, n)),) * 2]
    judge_paths(ctx, t, n, E, True, cls, tp)
    if wts is None:
        judge_shortest(ctx, t, n, {e: 1.0 for e in E}, True, cls, tp[:6], unweighted=bool(i % 2))
    # the caller uses up the lists it was handed (a copy of the tree in one case out of two): the tree answers as before
    nv_ = sum(v["count"] for v in ctx.violations.values())
    scribble(t.copy() if hasattr(t, "copy") and rng.random() < 0.5 else t, n)
    ctx.tap("tree_after_the_caller_used_up_its_answers", "calls"); ctx.tap("tree_after_the_caller_used_up_its_answers", "checked")
    judge_structure(ctx, t, n, edges, True, cls)
    judge_tree(ctx, t, n, E, root, cls)
    if sum(v["count"] for v in ctx.violations.values()) > nv_:
        ctx.fail("queries_changed_what_the_graph_reports", cls=cls, mech="lists_handed_out_were_edited_by_the_caller")
    # a wrong root must be refused (the tree is not an arborescence from there) unless n == 1
    wrong = int((root + 1 + rng.integers(0, n - 1)) % n)
    if wrong != root:
        try:
            ms.Tree(gen.adjacency(n, edges, False), wrong)
            ctx.fail("invalid_tree_accepted", cls="Tree", mech="wrong_root", edges=edges, root=wrong)
        except ValueError:
            pass
    if isinstance(t, ms.PointTree):
        masks = [rng.random(n) < rng.uniform(0.4, 0.95) for _ in range(5)]
        for m in masks:
            m[root] = rng.random() < 0.9
        for m in masks:
            try:
                t.from_mask(m)
            except ValueError:
                pass  # judged by the tap (only a masked-out root may raise)
    ctx.count_case(("tree", n, how, i), nontrivial=n >= 3, sample={"n": n, "edges": edges, "root": root} if i < 2 else None)


def w_grids(ctx, rng, i):
    """Predefined constructions: 2D grids (4-neighbour stencil), spanning trees of grids, depth images with masks."""
    import menpo.shape as ms
    from menpo.image import Image, MaskedImage
    shp = (int(rng.integers(1, 6)), int(rng.integers(2, 6)))
    n = shp[0] * shp[1]
    idx = np.arange(n).reshape(shp)
    und = [(int(idx[r, c]), int(idx[r, c + 1])) for r in range(shp[0]) for c in range(shp[1] - 1)] + \
          [(int(idx[r, c]), int(idx[r + 1, c])) for r in range(shp[0] - 1) for c in range(shp[1])]
    kind = i % 4
    if kind == 0:
        g = ms.PointUndirectedGraph.init_2d_grid(shp, spacing=float(rng.uniform(0.5, 3)) if rng.random() < 0.5 else None)
        E = judge_structure(ctx, g, n, und, False, "PointUndirectedGraph")
        judge_cycles(ctx, g, n, E, False, "PointUndirectedGraph")
        exp_pts = np.stack(np.meshgrid(np.arange(shp[0]), np.arange(shp[1]), indexing="ij"), -1).reshape(-1, 2)
        sp_ = g.points / np.where(exp_pts == 0, 1, exp_pts)
        if not np.allclose(g.points[0], 0) or g.points.shape != (n, 2):
            ctx.fail("grid_points_wrong", cls="PointUndirectedGraph")
        judge_masks(ctx, g, n, [rng.random(n) < 0.7 for _ in range(3)])
    elif kind == 1:
        g = ms.PointDirectedGraph.init_2d_grid(shp)
        both = und + [(b, a) for a, b in und]
        E = judge_structure(ctx, g, n, both, True, "PointDirectedGraph")
        judge_masks(ctx, g, n, [rng.random(n) < 0.7 for _ in range(3)])
    elif kind == 2:
        if shp[0] >= 2 and shp[1] >= 2:      # a one-row grid has no triangles to span
            root = int(rng.integers(0, n)) if rng.random() < 0.5 else None
            t = ms.PointTree.init_2d_grid(shp, root_vertex=root)
            te = [tuple(int(v) for v in e) for e in np.asarray(t.edges).reshape(-1, 2)]
            # a spanning tree of the triangulated grid rooted at the root: n-1 real edges, everything reachable
            tri_adj = set()
            tm = ms.TriMesh.init_2d_grid(shp)
            for a, b, c in np.asarray(tm.trilist).tolist():
                tri_adj.update([tuple(sorted((a, b))), tuple(sorted((b, c))), tuple(sorted((c, a)))])
            r0 = int(t.root_vertex)
            if len(te) != n - 1 or any(tuple(sorted(e)) not in tri_adj for e in te) or len(ref.reachable(n, te, True, r0)) != n:
                ctx.fail("grid_tree_is_not_a_spanning_tree_of_the_grid", cls="PointTree")
            else:
                judge_tree(ctx, t, n, canon_edges(te, True), r0, "PointTree")
            if root is not None and r0 != root:
                ctx.fail("tree_root_wrong", cls="PointTree", mech="init_2d_grid")
    else:
        shp = (int(rng.integers(2, 6)), int(rng.integers(2, 6)))
        msk = gen.mask(rng, shp, ["block", "halfplane", "all"][rng.integers(0, 3)])
        depth = MaskedImage(rng.random((1,) + shp), mask=msk) if rng.random() < 0.7 else Image(rng.random((1,) + shp))
        for cls in (ms.PointUndirectedGraph, ms.PointDirectedGraph):
            g = cls.init_from_depth_image(depth)
            k = int(msk.sum()) if isinstance(depth, MaskedImage) else shp[0] * shp[1]
            if g.n_points != k or g.points.shape[1] != 3:
                ctx.fail("depth_image_graph_has_the_wrong_points", cls=cls.__name__)
    ctx.count_case(("grid", kind, shp), nontrivial=True)


def w_predefined(ctx, rng, i):
    """The predefined graph builders (star, chain, complete, empty) for every graph class and every root: the object they
    return is the graph / tree on exactly the textbook edge set, judged like any other."""
    import menpo.shape as ms
    from menpo.shape import graph_predefined as gp
    n = int(rng.integers(2, 9))
    d = int(rng.integers(2, 4))
    pts = gen.points(rng, n, d)
    shape_arg = ms.PointCloud(pts)
    kind = ["star", "chain", "chain_closed", "complete", "empty"][i % 5]
    classes = {"star": ["Tree", "PointTree", "DirectedGraph", "PointDirectedGraph", "UndirectedGraph", "PointUndirectedGraph"],
               "chain": ["Tree", "PointTree", "DirectedGraph", "PointDirectedGraph", "UndirectedGraph", "PointUndirectedGraph"],
               "chain_closed": ["DirectedGraph", "PointDirectedGraph", "UndirectedGraph", "PointUndirectedGraph"],
               "complete": ["UndirectedGraph", "PointUndirectedGraph", "DirectedGraph", "PointDirectedGraph"], "empty": ["-"]}[kind]
    cname = classes[(i // 5) % len(classes)]
    if cname.startswith("Point") and not isinstance(shape_arg, ms.PointCloud):
        shape_arg = ms.PointCloud(pts)
    root = int(rng.integers(0, n))
    try:
        if kind == "star":
            g = gp.star_graph(shape_arg, root, graph_cls=getattr(ms, cname))
            edges = [(root, v) for v in range(n) if v != root]
        elif kind.startswith("chain"):
            g = gp.chain_graph(shape_arg, graph_cls=getattr(ms, cname), closed=kind.endswith("closed"))
            edges = [(v, v + 1) for v in range(n - 1)] + ([(n - 1, 0)] if kind.endswith("closed") and n > 2 else [])
            if kind.endswith("closed") and n == 2:
                edges = [(0, 1), (1, 0)]
            root = 0
        elif kind == "complete":
            g = gp.complete_graph(shape_arg, graph_cls=getattr(ms, cname))
            edges = [(a, b) for a in range(n) for b in range(a + 1, n)]
        else:
            g = gp.empty_graph(shape_arg, return_pointgraph=isinstance(shape_arg, ms.PointCloud))
            edges = []
            cname = type(g).__name__
    except Exception as e:
        ctx.fail("predefined_graph_builder_raised", cls=cname, mech=kind + ":" + type(e).__name__, error=repr(e)[:160])
        ctx.count_case(("predefined", kind, cname, "raised"), nontrivial=False)
        return
    cls = type(g).__name__
    directed = "Directed" in cls or "Tree" in cls
    if not directed and kind == "chain_closed" and n == 2:
        edges = [(0, 1)]
    ctx.see("classes", cls)
    if cls != cname and kind != "empty":
        ctx.fail("predefined_graph_builder_returned_another_class", cls=cname, mech=kind, got=cls)
    try:
        E = judge_structure(ctx, g, n, edges, directed, cls)
        if "Tree" in cls:
            judge_tree(ctx, g, n, E, root, cls)
            judge_paths(ctx, g, n, E, True, cls, [(root, int(rng.integers(0, n))), (int(rng.integers(0, n)), int(rng.integers(0, n)))])
        judge_cycles(ctx, g, n, E, directed, cls)
    except (TypeError, AttributeError, IndexError, KeyError) as e:
        ctx.fail("tree_relations_inconsistent", cls=cls, mech="predefined_%s:query_raised_%s" % (kind, type(e).__name__), error=repr(e)[:160])
    if hasattr(g, "points") and isinstance(shape_arg, ms.PointCloud) and not np.array_equal(g.points, pts):
        ctx.fail("graph_points_differ_from_the_shape_they_came_from", cls=cls, mech=kind)
    ctx.count_case(("predefined", kind, cname, min(n, 4), root == 0), nontrivial=n >= 3, sample={"builder": kind, "cls": cname, "n": n, "root": root} if i < 3 else None)


WORKLOADS = [
    Workload("predefined_builders", w_predefined, quick=600, thorough=12000),
    Workload("grids", w_grids, quick=200, thorough=4000),
    Workload("self_loops", w_self_loops, quick=400, thorough=8000),
    Workload("signed_weights", w_signed_weights, quick=400, thorough=8000),
    Workload("exhaustive_small", w_exhaustive, quick=N_SMALL, thorough=N_SMALL, exhaustive=True),
    Workload("random_graphs", w_random, quick=600, thorough=20000),
    Workload("random_trees", w_trees, quick=800, thorough=30000),
]
